package main

// C10 — workspace dependency resolution is exact and ambiguity is an error (structural part).

import (
	"fmt"
	"go/ast"
	"go/token"
	"go/types"
	"golang.org/x/tools/go/ssa"
	"strings"

	"golang.org/x/tools/go/packages"
)

func init() {
	register(&propCheck{
		ID: "C10",
		Explanation: "Structural necessary conditions of dependency resolution: (1) cycle stack — in getModuleDepsRec the cycle test on the parent stack is the first use of the module and " +
			"returns *ModuleCycleError, the push is matched by a delete on every path to a nil return, and the recursion lies between them; (2) direct flag — the top-level call " +
			"passes the constant true, the recursive call the constant false, and a dependency already recorded is not overwritten (store under the not-found edge of a lookup of the " +
			"same key); (3) ambiguity errors are never swallowed — every construction of ModuleCycleError, DuplicateProtoPathError, ImportNotExistError and NoProtoFilesError is " +
			"returned, and getModuleForFilePathUncached returns not-exist for zero owners, the duplicate error for two or more and any other stat error immediately; (4) the " +
			"missing-import tolerance is guarded by datawkt.Exists; (5) duplicates of one module are reduced by a three-stage chain target → local → remote/newest, each stage " +
			"filtering by the method value (*addedModule).IsTarget / IsLocal and returning an element of its filtered slice, with selectAddedModuleForOpaqueID as the only entry; " +
			"(6) the ls-files closure is a seen-set walk (R-POSTORDER mark rule) whose result is sorted; R-ERRUSE on bufmodule, bufworkspace, buftarget. " +
			"NOT decided: exactness of the dependency set for arbitrary graphs; ls-files ≡ build file list.",
		Assumptions: []string{"fastscan returns the imports of a file"},
		Run:         runC10,
	})
}

func runC10(c *Ctx) {
	p := c.P
	c.Rule("CYCLE-STACK", "the parent stack is tested first, pushed before and popped after the recursion", 4)
	c.Rule("DIRECT-FLAG", "first-hop dependencies are direct, deeper ones are not, and the first classification sticks", 3)
	c.Rule("AMBIGUITY-RETURNED", "cycle / duplicate-path / missing-import / no-proto-files errors are returned, never skipped", 6)
	c.Rule("WKT-NARROW", "an unresolvable import is tolerated only for built-in well-known types", 1)
	c.Rule("PREFERENCE-CHAIN", "duplicates of a module are reduced target → local → newest remote", 3)
	c.Rule("LSFILES-CLOSURE", "ls-files computes a seen-set closure over imports and sorts it", 2)
	c.Rule("R-ERRUSE", "error results are consumed (bufmodule, bufworkspace, buftarget)", 100)
	pk := p.Pkg("private/bufpkg/bufmodule")
	if pk == nil {
		c.Fail("CYCLE-STACK", "anchor", token.NoPos, "bufmodule not found")
		return
	}
	info := pk.TypesInfo
	var pkgs []*packages.Package
	for _, rel := range []string{"private/bufpkg/bufmodule", "private/buf/bufworkspace", "private/buf/buftarget", "private/pkg/dag"} {
		if q := p.Pkg(rel); q != nil {
			pkgs = append(pkgs, q)
		}
	}
	ruleErrUse(c, "R-ERRUSE", pkgs, func(string) (bool, string) { return true, "" }, c15AllowedErrUse)

	rec := p.Func("private/bufpkg/bufmodule", "getModuleDepsRec")
	if rec == nil {
		c.Fail("CYCLE-STACK", "getModuleDepsRec", token.NoPos, "not found")
	} else {
		g := p.CFGOf(rec.Decl.Body, info)
		// the stack: a map parameter that is both stored to and deleted from
		var stack types.Object
		var push, pop ast.Node
		for _, fld := range rec.Decl.Type.Params.List {
			for _, nm := range fld.Names {
				obj := info.Defs[nm]
				if _, isMap := obj.Type().Underlying().(*types.Map); !isMap {
					continue
				}
				var st, dl ast.Node
				inspectNoFuncLit(rec.Decl.Body, func(n ast.Node) bool {
					switch x := n.(type) {
					case *ast.AssignStmt:
						if len(x.Lhs) == 1 {
							if ix, ok := x.Lhs[0].(*ast.IndexExpr); ok && identObj(info, ix.X) == obj {
								st = x
							}
						}
					case *ast.CallExpr:
						if id, ok := x.Fun.(*ast.Ident); ok && id.Name == "delete" && len(x.Args) == 2 && identObj(info, x.Args[0]) == obj {
							dl = x
						}
					}
					return true
				})
				if st != nil && dl != nil {
					stack, push, pop = obj, st, dl
				}
			}
		}
		if stack == nil {
			c.Fail("CYCLE-STACK", "getModuleDepsRec/stack", rec.Decl.Pos(), "no map parameter that is both pushed to and deleted from")
		} else {
			// cycle test first: `if _, ok := stack[id]; ok { return &ModuleCycleError{…} }` as the first if statement
			first := false
			for _, st := range rec.Decl.Body.List {
				ifs, ok := st.(*ast.IfStmt)
				if !ok {
					continue
				}
				if as, ok := ifs.Init.(*ast.AssignStmt); ok && len(as.Rhs) == 1 {
					if ix, ok := as.Rhs[0].(*ast.IndexExpr); ok && identObj(info, ix.X) == stack {
						for _, s2 := range ifs.Body.List {
							if r, ok := s2.(*ast.ReturnStmt); ok && len(r.Results) == 1 && strings.Contains(exprString(r.Results[0]), "ModuleCycleError") {
								first = true
							}
						}
					}
				}
				break
			}
			c.Ob("CYCLE-STACK", "getModuleDepsRec/cycle-test-first", rec.Decl.Pos(), first, true, "the first test of the function looks the module up on the parent stack and returns *ModuleCycleError: %v", first)
			// push … recursion … pop
			var selfCalls []ast.Node
			inspectNoFuncLit(rec.Decl.Body, func(n ast.Node) bool {
				if call, ok := n.(*ast.CallExpr); ok && Callee(info, call) == rec.Obj {
					selfCalls = append(selfCalls, call)
				}
				return true
			})
			okOrder := len(selfCalls) > 0
			for _, sc := range selfCalls {
				if !g.Dominates(push, sc) || !g.Reachable(sc, pop) || g.Reachable(pop, sc) {
					okOrder = false
				}
			}
			c.Ob("CYCLE-STACK", "getModuleDepsRec/push-recursion-pop", rec.Decl.Pos(), okOrder, true, "push dominates the %d recursive call(s), the pop follows them and nothing recurses after the pop: %v", len(selfCalls), okOrder)
			// every nil return reachable from the push passes the pop
			okPop := true
			for _, r := range g.Returns() {
				if classifyReturn(info, r) != retNil {
					continue
				}
				if g.ReachableAvoiding(push, r, []ast.Node{pop}) {
					okPop = false
				}
			}
			c.Ob("CYCLE-STACK", "getModuleDepsRec/pop-on-success", rec.Decl.Pos(), okPop, true, "every nil return reachable after the push passes the delete of the same key: %v", okPop)
			// same key
			sameKey := false
			if as, ok := push.(*ast.AssignStmt); ok {
				if ix, ok := as.Lhs[0].(*ast.IndexExpr); ok {
					if dl, ok := pop.(*ast.CallExpr); ok && exprString(dl.Args[1]) == exprString(ix.Index) {
						sameKey = true
					}
				}
			}
			c.Ob("CYCLE-STACK", "getModuleDepsRec/same-key", rec.Decl.Pos(), sameKey, false, "push and pop use the same key expression: %v", sameKey)
			// (2) direct flag
			for _, sc := range selfCalls {
				call := sc.(*ast.CallExpr)
				last := call.Args[len(call.Args)-1]
				tv, ok := info.Types[last]
				c.Ob("DIRECT-FLAG", "getModuleDepsRec/recursive-call", call.Pos(), ok && tv.Value != nil && tv.Value.ExactString() == "false", true, "the recursive call passes isDirect = %s (want the constant false)", exprString(last))
			}
		}
		// first classification sticks: every store of a ModuleDep into a map, in getModuleDepsRec or a helper it calls,
		// lies on the absent edge of a comma-ok lookup of the same key in the same map (SSA; if/else, guard-continue and
		// extracted-helper forms alike)
		okStick := false
		if rsf := p.SSAFunc(rec.Obj); rsf != nil {
			stores, guarded := 0, 0
			for _, f := range reachSSAWithValues(rsf, 2) {
				if f.Pkg == nil || f.Pkg.Pkg != pk.Types {
					continue
				}
				for _, b := range f.Blocks {
					for _, ins := range b.Instrs {
						mu, ok := ins.(*ssa.MapUpdate)
						if !ok || namedName(mu.Value.Type()) != "ModuleDep" {
							continue
						}
						stores++
						if storeOnAbsentEdge(mu) {
							guarded++
						}
					}
				}
			}
			okStick = stores > 0 && stores == guarded
		}
		c.Ob("DIRECT-FLAG", "getModuleDepsRec/first-classification-sticks", rec.Decl.Pos(), okStick, true, "a dependency is recorded only when absent from the result map (an earlier direct classification is never overwritten): %v", okStick)
		// (4) WKT exception
		c10WktNarrow(c, "WKT-NARROW")
	}
	if top := p.Func("private/bufpkg/bufmodule", "getModuleDeps"); top != nil && rec != nil {
		ast.Inspect(top.Decl.Body, func(n ast.Node) bool {
			if call, ok := n.(*ast.CallExpr); ok && Callee(info, call) == rec.Obj {
				last := call.Args[len(call.Args)-1]
				tv, ok := info.Types[last]
				c.Ob("DIRECT-FLAG", "getModuleDeps/top-level-call", call.Pos(), ok && tv.Value != nil && tv.Value.ExactString() == "true", true, "the top-level call passes isDirect = %s (want the constant true)", exprString(last))
			}
			return true
		})
	}

	// (3) ambiguity errors are returned
	errTypes := map[string]bool{"ModuleCycleError": true, "DuplicateProtoPathError": true, "ImportNotExistError": true, "NoProtoFilesError": true}
	for _, q := range pkgs {
		qinfo := q.TypesInfo
		for _, f := range q.Syntax {
			ast.Inspect(f, func(n ast.Node) bool {
				cl, ok := n.(*ast.CompositeLit)
				if !ok || !errTypes[namedName(qinfo.TypeOf(cl))] {
					return true
				}
				// &T{…} must be an operand of a return (possibly wrapped in a call) or assigned to a variable that is returned
				returned := false
				for cur := p.Parent(cl); cur != nil; cur = p.Parent(cur) {
					if _, ok := cur.(*ast.ReturnStmt); ok {
						returned = true
						break
					}
					if _, ok := cur.(*ast.FuncDecl); ok {
						break
					}
					if as, ok := cur.(*ast.AssignStmt); ok {
						// err = &T{}: check that the variable reaches a return
						if o := identObj(qinfo, as.Lhs[0]); o != nil {
							fd := p.EnclosingFuncDecl(as)
							ast.Inspect(fd.Body, func(m ast.Node) bool {
								if r, ok := m.(*ast.ReturnStmt); ok {
									for _, e := range r.Results {
										if usesObj(qinfo, e, o) {
											returned = true
										}
									}
								}
								return true
							})
						}
						break
					}
					if _, ok := cur.(*ast.BlockStmt); ok {
						break
					}
				}
				fd := p.EnclosingFuncDecl(cl)
				name := "?"
				if fd != nil {
					name = relPkg(q.PkgPath) + "." + declName(fd)
				}
				c.Ob("AMBIGUITY-RETURNED", name+"/"+namedName(qinfo.TypeOf(cl)), cl.Pos(), returned, true, "the constructed %s is returned to the caller: %v", namedName(qinfo.TypeOf(cl)), returned)
				return true
			})
		}
	}
	if gm := p.Func("private/bufpkg/bufmodule", "moduleSet.getModuleForFilePathUncached"); gm != nil {
		// switch on len(owners): 0 → not-exist error, default → duplicate error; other stat errors returned immediately
		var sw *ast.SwitchStmt
		ast.Inspect(gm.Decl.Body, func(n ast.Node) bool {
			if s, ok := n.(*ast.SwitchStmt); ok && s.Tag != nil && strings.HasPrefix(exprString(s.Tag), "len(") {
				sw = s
			}
			return true
		})
		ok0, okDef := false, false
		if sw != nil {
			for _, cl := range sw.Body.List {
				cc := cl.(*ast.CaseClause)
				for _, st := range cc.Body {
					r, ok := st.(*ast.ReturnStmt)
					if !ok || len(r.Results) != 2 {
						continue
					}
					mentions := func(name string) bool {
						found := false
						ast.Inspect(r.Results[1], func(m ast.Node) bool {
							if id, ok := m.(*ast.Ident); ok && id.Name == name {
								found = true
							}
							return !found
						})
						return found
					}
					if cc.List != nil && constIntIs(info, cc.List[0], 0) && mentions("ErrNotExist") {
						ok0 = true
					}
					if cc.List == nil && mentions("DuplicateProtoPathError") {
						okDef = true
					}
				}
			}
		}
		c.Ob("AMBIGUITY-RETURNED", "getModuleForFilePathUncached/owner-count", gm.Decl.Pos(), ok0 && okDef, true, "zero owners → fs.ErrNotExist, two or more → DuplicateProtoPathError: %v/%v", ok0, okDef)
		okImm := false
		ast.Inspect(gm.Decl.Body, func(n ast.Node) bool {
			ifs, ok := n.(*ast.IfStmt)
			if ok && strings.HasPrefix(exprString(ifs.Cond), "!errors.Is") && strings.Contains(exprString(ifs.Cond), "ErrNotExist") {
				for _, st := range ifs.Body.List {
					if r, ok := st.(*ast.ReturnStmt); ok && classifyReturn(info, r) != retNil {
						okImm = true
					}
				}
			}
			return true
		})
		c.Ob("AMBIGUITY-RETURNED", "getModuleForFilePathUncached/other-errors", gm.Decl.Pos(), okImm, true, "a stat error other than not-exist is returned immediately: %v", okImm)
	} else {
		c.Fail("AMBIGUITY-RETURNED", "getModuleForFilePathUncached", token.NoPos, "not found")
	}

	// (5) preference chain, on SSA and by shape: starting at the selection entry point and following the package's own
	// functions in call order, candidates are narrowed by a Filter on IsTarget first and by a Filter on IsLocal after
	// it, and every `return xs[i]` hands back an element of a Filter result - never of an unnarrowed list. How the
	// stages are cut into functions (one function, or a helper per stage) does not matter.
	if entry := p.Func("private/bufpkg/bufmodule", "selectAddedModuleForOpaqueID"); entry != nil && entry.Obj != nil {
		esf := p.SSAFunc(entry.Obj)
		predOf := func(call *ssa.CallCommon) string {
			o := staticCalleeObj(call)
			if o == nil || o.Name() != "Filter" || len(call.Args) != 2 {
				return ""
			}
			name := ""
			sliceBack(call.Args[1], func(x ssa.Value) bool {
				var fn *ssa.Function
				switch t := x.(type) {
				case *ssa.Function:
					fn = t
				case *ssa.MakeClosure:
					fn, _ = t.Fn.(*ssa.Function)
				}
				if fn != nil {
					if obj := fn.Object(); obj != nil && (obj.Name() == "IsTarget" || obj.Name() == "IsLocal") {
						name = obj.Name()
					}
					for _, cc := range callsDeep(fn) {
						if co := staticCalleeObj(cc.Call); co != nil && (co.Name() == "IsTarget" || co.Name() == "IsLocal") && name == "" {
							name = co.Name()
						}
					}
				}
				return true
			})
			return name
		}
		var order []string
		nGuardedElem := 0
		// guardedElementReturn: call is x.IsLocal() / x.IsTarget() and some return on its true edge hands back x
		guardedElementReturn := func(call ssaCall) string {
			name := ""
			if o := staticCalleeObj(call.Call); o != nil {
				name = o.Name()
			} else if call.Call.IsInvoke() {
				name = call.Call.Method.Name()
			}
			if (name != "IsLocal" && name != "IsTarget") || call.Value == nil {
				return ""
			}
			var recv ssa.Value = call.Call.Value
			if !call.Call.IsInvoke() && len(call.Call.Args) > 0 {
				recv = call.Call.Args[0]
			}
			for _, r := range returnsOf(call.Instr.Parent()) {
				if len(r.Results) != 2 || stripConv(r.Results[0]) != stripConv(recv) {
					continue
				}
				for _, ge := range guardingEdges(r.Block()) {
					cv, pos := condPolarity(ge.If.Cond)
					if cv == call.Value && ge.Branch == pos {
						return name
					}
				}
			}
			return ""
		}
		var stages []*ssa.Function
		seenFn := map[*ssa.Function]bool{}
		var visit func(f *ssa.Function)
		visit = func(f *ssa.Function) {
			if f == nil || seenFn[f] || len(f.Blocks) == 0 {
				return
			}
			seenFn[f] = true
			stages = append(stages, f)
			for _, call := range callsIn(f) {
				if pn := predOf(call.Call); pn != "" {
					order = append(order, pn)
				}
				// the same narrowing written as a loop: `for _, m := range ms { if m.IsLocal() { return m, nil } }`
				if pn := guardedElementReturn(call); pn != "" {
					order = append(order, pn)
					nGuardedElem++
				}
				if call.Call.IsInvoke() && call.Call.Method != nil && call.Call.Method.Name() == "GetCommitsForModuleKeys" {
					order = append(order, "GetCommitsForModuleKeys")
				}
				if sc := call.Call.StaticCallee(); sc != nil && sc.Pkg == f.Pkg && strings.HasPrefix(sc.Name(), "select") {
					visit(sc)
				}
			}
		}
		visit(esf)
		firstTarget, firstLocal := -1, -1
		for i, o := range order {
			if o == "IsTarget" && firstTarget < 0 {
				firstTarget = i
			}
			if o == "IsLocal" && firstLocal < 0 {
				firstLocal = i
			}
		}
		c.Ob("PREFERENCE-CHAIN", "selection/filter-order", entry.Decl.Pos(), firstTarget >= 0 && firstLocal > firstTarget, true, "candidates are narrowed by IsTarget and then by IsLocal (filters met in call order: %v)", order)
		okElem, nIdx := true, 0
		for _, f := range stages {
			// only the stages that narrow by a predicate; the last stage works on what it was given
			narrows := false
			for _, call := range callsIn(f) {
				if predOf(call.Call) != "" {
					narrows = true
				}
			}
			if !narrows {
				continue
			}
			for _, r := range returnsOf(f) {
				if len(r.Results) != 2 {
					continue
				}
				u, ok := stripConv(r.Results[0]).(*ssa.UnOp)
				if !ok {
					continue
				}
				ia, ok := u.X.(*ssa.IndexAddr)
				if !ok {
					continue
				}
				nIdx++
				base, isCall := stripConv(ia.X).(*ssa.Call)
				if !isCall || predOf(&base.Call) == "" {
					okElem = false
				}
			}
		}
		c.Ob("PREFERENCE-CHAIN", "selection/returns-filtered-element", entry.Decl.Pos(), okElem && nIdx+nGuardedElem >= 2, true, "%d returns hand back an indexed element (and %d an element tested by the predicate itself), each of a list narrowed by IsTarget or IsLocal: %v", nIdx, nGuardedElem, okElem)
		// the registry's commit times are consulted only after both narrowings
		firstCommits, lastPred := -1, -1
		for i, o := range order {
			if o == "GetCommitsForModuleKeys" {
				if firstCommits < 0 {
					firstCommits = i
				}
			} else {
				lastPred = i
			}
		}
		c.Ob("PREFERENCE-CHAIN", "selection/last-stage", entry.Decl.Pos(), firstCommits > lastPred && lastPred >= 0, true, "the chain ends in the resolution between remote modules by commit time (GetCommitsForModuleKeys met after every IsTarget/IsLocal narrowing: %v), %d stage function(s)", order, len(stages))
	} else {
		c.Fail("PREFERENCE-CHAIN", "selectAddedModuleForOpaqueID", token.NoPos, "not found")
	}
	// single entry
	callers := map[string]bool{}
	for id, obj := range info.Uses {
		if fn, ok := obj.(*types.Func); ok && fn.Name() == "selectAddedModuleForOpaqueID" {
			if fd := p.EnclosingFuncDecl(id); fd != nil {
				callers[fd.Name.Name] = true
			}
		}
	}
	c.Ob("PREFERENCE-CHAIN", "selectAddedModuleForOpaqueID/callers", token.NoPos, len(callers) == 1, false, "called from %v (want exactly one caller: the de-duplication of added modules)", sortedKeys(callers))

	// (6) ls-files closure
	if pkI := p.Pkg("private/bufpkg/bufimage"); pkI != nil {
		if fr := c10LsClosureRec(p); fr != nil {
			iinfo := fr.Info()
			g := p.CFGOf(fr.Decl.Body, iinfo)
			var selfCalls []ast.Node
			var test, mark ast.Node
			ast.Inspect(fr.Decl.Body, func(n ast.Node) bool {
				switch x := n.(type) {
				case *ast.CallExpr:
					if Callee(iinfo, x) == fr.Obj {
						selfCalls = append(selfCalls, x)
					}
				case *ast.IfStmt:
					if as, ok := x.Init.(*ast.AssignStmt); ok && len(as.Rhs) == 1 {
						if _, ok := as.Rhs[0].(*ast.IndexExpr); ok && test == nil {
							for _, st := range x.Body.List {
								if _, ok := st.(*ast.ReturnStmt); ok {
									test = x.Cond
								}
							}
						}
					}
				case *ast.AssignStmt:
					if len(x.Lhs) == 1 {
						if ix, ok := x.Lhs[0].(*ast.IndexExpr); ok && mark == nil {
							if _, isMap := iinfo.TypeOf(ix.X).Underlying().(*types.Map); isMap {
								mark = x
							}
						}
					}
				}
				return true
			})
			ok := test != nil && mark != nil && len(selfCalls) > 0
			for _, sc := range selfCalls {
				if ok && (!g.Dominates(test, sc) || !g.Dominates(mark, sc)) {
					ok = false
				}
			}
			c.Ob("LSFILES-CLOSURE", "ls-closure-rec/mark-before-recursion", fr.Decl.Pos(), ok, true, "in %s the seen test and mark dominate the recursion over imports: %v", fr.Decl.Name.Name, ok)
		} else {
			c.Fail("LSFILES-CLOSURE", "ls-closure-rec", token.NoPos, "the recursive closure helper called by ImageFileInfosWithOnlyTargetsAndTargetImports was not found")
		}
		if fr := p.Func("private/bufpkg/bufimage", "ImageFileInfosWithOnlyTargetsAndTargetImports"); fr != nil {
			iinfo := fr.Info()
			startsFromTargets, sorted := false, false
			// the closure is started only on the false edge of IsImport() (continue-guard or nested form alike)
			if rec := c10LsClosureRec(p); rec != nil && fr.Obj != nil {
				if sf := p.SSAFunc(fr.Obj); sf != nil {
					nCalls, nGuarded := 0, 0
					for _, call := range callsIn(sf) {
						if staticCalleeObj(call.Call) != rec.Obj {
							continue
						}
						nCalls++
						for _, ge := range guardingEdges(call.Instr.Block()) {
							cv, pos := condPolarity(ge.If.Cond)
							if cc, ok := cv.(*ssa.Call); ok && cc.Call.IsInvoke() && cc.Call.Method.Name() == "IsImport" && ge.Branch != pos {
								nGuarded++
								break
							}
						}
					}
					startsFromTargets = nCalls > 0 && nCalls == nGuarded
				}
			}
			ast.Inspect(fr.Decl.Body, func(n ast.Node) bool {
				if x, ok := n.(*ast.CallExpr); ok {
					if fn := Callee(iinfo, x); fn != nil && callSorts(p, fn, 1) {
						sorted = true
					}
				}
				return true
			})
			c.Ob("LSFILES-CLOSURE", "ImageFileInfosWithOnlyTargetsAndTargetImports/roots-and-order", fr.Decl.Pos(), startsFromTargets && sorted, true, "the walk starts from non-import files only and the result is sorted: %v/%v", startsFromTargets, sorted)
		}
	}
	c10Extra(c)
	c10MissingImportIsError(c)
	c10DepGraphLoops(c)
	c10ValueStoredLast(c)
	c10ImportsAllResolved(c)
	c01WktFallback(c, "WKT-FALLBACK")
}

// c10WktNarrow: in getModuleDepsRec an import is skipped (`continue`) only when no module provides it
// (errors.Is(err, fs.ErrNotExist)) and it is a built-in well-known type. Shared by C10 and C08 (a module that does
// provide a well-known-type path must stay a dependency, or the importing module's digest ignores it).
func c10WktNarrow(c *Ctx, rule string) {
	p := c.P
	rec := p.Func("private/bufpkg/bufmodule", "getModuleDepsRec")
	if rec == nil || rec.Obj == nil {
		c.Fail(rule, "getModuleDepsRec", token.NoPos, "not found")
		return
	}
	sf := p.SSAFunc(rec.Obj)
	if sf == nil {
		c.Fail(rule, "getModuleDepsRec", token.NoPos, "no SSA")
		return
	}
	// Decided on SSA, across the helpers getModuleDepsRec calls: the error of the module lookup for an import
	// (ModuleSet.getModuleForFilePath, or of a helper wrapping it) may be *swallowed* - control leaves the err != nil
	// region without returning a non-nil error: a `continue`, or a `return …, nil` in a helper - only on the true edges
	// of errors.Is(err, fs.ErrNotExist) and datawkt.Exists(path); and datawkt.Exists is consulted nowhere else (a
	// shortcut taken before the lookup would drop a module that does provide the path).
	reach := reachSSA(sf, 2)
	inReach := map[*ssa.Function]bool{}
	for _, f := range reach {
		inReach[f] = true
	}
	lastExtract := func(call *ssa.Call) ssa.Value {
		tup, ok := call.Type().(*types.Tuple)
		if !ok {
			return nil
		}
		for _, r := range *call.Referrers() {
			if ex, ok := r.(*ssa.Extract); ok && ex.Index == tup.Len()-1 {
				return ex
			}
		}
		return nil
	}
	// the function holding the lookup, then the functions calling that one
	errVals := map[*ssa.Function][]ssa.Value{}
	wrappers := map[*ssa.Function]bool{}
	lookups := 0
	for _, f := range reach {
		for _, call := range callsIn(f) {
			if call.Call.IsInvoke() && call.Call.Method.Name() == "getModuleForFilePath" {
				if cv, ok := call.Value.(*ssa.Call); ok {
					if ev := lastExtract(cv); ev != nil {
						errVals[f] = append(errVals[f], ev)
						lookups++
						if f != sf && f.Parent() == nil {
							wrappers[f] = true
						}
					}
				}
			}
		}
	}
	for _, f := range reach {
		for _, call := range callsIn(f) {
			if callee := call.Call.StaticCallee(); callee != nil && wrappers[callee] {
				if cv, ok := call.Value.(*ssa.Call); ok {
					if ev := lastExtract(cv); ev != nil && isErrorType(ev.Type()) {
						errVals[f] = append(errVals[f], ev)
					}
				}
			}
		}
	}
	if lookups == 0 {
		c.Fail(rule, "getModuleDepsRec/lookup", rec.Decl.Pos(), "no ModuleSet.getModuleForFilePath call reachable from getModuleDepsRec")
		return
	}
	okSwallows, badSwallows := 0, []string{}
	for f, evs := range errVals {
		for _, ev := range evs {
			onErr := func(b *ssa.BasicBlock) bool {
				for _, ge := range guardingEdges(b) {
					x, trueIsNonNil, ok := nilCompare(ge.If.Cond)
					if ok && stripConv(x) == ev && ge.Branch == trueIsNonNil {
						return true
					}
				}
				return false
			}
			narrow := func(guards []guardEdge) bool {
				notExist, wkt := false, false
				for _, ge := range guards {
					cv, pos := condPolarity(ge.If.Cond)
					call, ok := cv.(*ssa.Call)
					if !ok || ge.Branch != pos {
						continue
					}
					fn := staticCalleeObj(&call.Call)
					switch {
					case calleeIs(fn, "errors", "Is") && len(call.Call.Args) == 2 && stripConv(call.Call.Args[0]) == ev && isGlobalNamed(call.Call.Args[1], "ErrNotExist"):
						notExist = true
					case fn != nil && fn.Pkg() != nil && strings.HasSuffix(fn.Pkg().Path(), "/datawkt") && fn.Name() == "Exists":
						wkt = true
					}
				}
				return notExist && wkt
			}
			for _, b := range f.Blocks {
				if !onErr(b) || len(b.Instrs) == 0 {
					continue
				}
				// each way control leaves the region without a non-nil error, with the edges guarding it (the builder
				// threads an empty `continue` block into the If before it, so the If's own edge counts)
				var swallows [][]guardEdge
				switch last := b.Instrs[len(b.Instrs)-1].(type) {
				case *ssa.Return:
					if n := len(last.Results); n > 0 && isErrorType(last.Results[n-1].Type()) && isNilConst(last.Results[n-1]) {
						swallows = append(swallows, guardingEdges(b))
					}
				case *ssa.Jump:
					if !onErr(b.Succs[0]) {
						swallows = append(swallows, guardingEdges(b))
					}
				case *ssa.If:
					for i, succ := range b.Succs {
						if !onErr(succ) {
							swallows = append(swallows, append(guardingEdges(b), guardEdge{last, i == 0}))
						}
					}
				}
				for _, g := range swallows {
					if narrow(g) {
						okSwallows++
					} else {
						badSwallows = append(badSwallows, ssaFuncName(f)+" block "+fmt.Sprint(b.Index))
					}
				}
			}
		}
	}
	// datawkt.Exists is consulted only inside a lookup-error region
	strayWkt := []string{}
	for _, f := range reach {
		for _, call := range callsIn(f) {
			fn := staticCalleeObj(call.Call)
			if fn == nil || fn.Pkg() == nil || !strings.HasSuffix(fn.Pkg().Path(), "/datawkt") || fn.Name() != "Exists" {
				continue
			}
			inRegion := false
			for _, ev := range errVals[f] {
				for _, ge := range guardingEdges(call.Instr.Block()) {
					x, trueIsNonNil, ok := nilCompare(ge.If.Cond)
					if ok && stripConv(x) == ev && ge.Branch == trueIsNonNil {
						inRegion = true
					}
				}
			}
			if !inRegion {
				strayWkt = append(strayWkt, ssaFuncName(f))
			}
		}
	}
	ok := okSwallows >= 1 && len(badSwallows) == 0 && len(strayWkt) == 0
	c.Ob(rule, "getModuleDepsRec/continue-only-for-wkt", rec.Decl.Pos(), ok, true, "the import-lookup error is swallowed only on the true edges of errors.Is(err, fs.ErrNotExist) and datawkt.Exists(path) (%d such site(s)); other swallow sites: %v; datawkt.Exists consulted outside the lookup-error region: %v", okSwallows, badSwallows, strayWkt)
}

// c10LsClosureRec finds the recursive helper behind ImageFileInfosWithOnlyTargetsAndTargetImports (whatever it is
// called): a self-recursive function of package bufimage that the exported entry point calls.
func c10LsClosureRec(p *Prog) *FuncRef {
	entry := p.Func("private/bufpkg/bufimage", "ImageFileInfosWithOnlyTargetsAndTargetImports")
	if entry == nil || entry.Decl.Body == nil {
		return nil
	}
	info := entry.Info()
	var found *FuncRef
	ast.Inspect(entry.Decl.Body, func(n ast.Node) bool {
		call, ok := n.(*ast.CallExpr)
		if !ok || found != nil {
			return true
		}
		fn := Callee(info, call)
		if fn == nil || fn.Pkg() == nil || fn.Pkg() != entry.Pkg.Types {
			return true
		}
		fr := p.DeclOf(fn)
		if fr == nil || fr.Decl.Body == nil {
			return true
		}
		self := false
		ast.Inspect(fr.Decl.Body, func(m ast.Node) bool {
			if c2, ok := m.(*ast.CallExpr); ok && Callee(fr.Info(), c2) == fr.Obj {
				self = true
			}
			return true
		})
		if self {
			found = fr
		}
		return true
	})
	return found
}
