package main

// C10 — workspace dependency resolution is exact and ambiguity is an error (structural part).

import (
	"go/ast"
	"go/token"
	"go/types"
	"strings"

	"golang.org/x/tools/go/packages"
)

func init() {
	register(&propCheck{
		ID: "C10",
		Explanation: "Structural necessary conditions of dependency resolution: (1) cycle stack — in getModuleDepsRec the cycle test on the parent stack is the first use of the module and " +
			"returns *ModuleCycleError, the push is matched by a delete on every path to a nil return, and the recursion lies between them; (2) direct flag — the top-level call " +
			"passes the constant true, the recursive call the constant false, and a dependency already recorded is not overwritten (store under the not-found edge of a lookup of the " +
			"same key); (3) ambiguity errors are never swallowed — every construction of ModuleCycleError, DuplicateProtoPathError, ImportNotExistError and NoProtoFilesError is " +
			"returned, and getModuleForFilePathUncached returns not-exist for zero owners, the duplicate error for two or more and any other stat error immediately; (4) the " +
			"missing-import tolerance is guarded by datawkt.Exists; (5) duplicates of one module are reduced by a three-stage chain target → local → remote/newest, each stage " +
			"filtering by the method value (*addedModule).IsTarget / IsLocal and returning an element of its filtered slice, with selectAddedModuleForOpaqueID as the only entry; " +
			"(6) the ls-files closure is a seen-set walk (R-POSTORDER mark rule) whose result is sorted; R-ERRUSE on bufmodule, bufworkspace, buftarget. " +
			"NOT decided: exactness of the dependency set for arbitrary graphs; ls-files ≡ build file list.",
		Assumptions: []string{"fastscan returns the imports of a file"},
		Run:         runC10,
	})
}

func runC10(c *Ctx) {
	p := c.P
	c.Rule("CYCLE-STACK", "the parent stack is tested first, pushed before and popped after the recursion", 4)
	c.Rule("DIRECT-FLAG", "first-hop dependencies are direct, deeper ones are not, and the first classification sticks", 3)
	c.Rule("AMBIGUITY-RETURNED", "cycle / duplicate-path / missing-import / no-proto-files errors are returned, never skipped", 6)
	c.Rule("WKT-NARROW", "an unresolvable import is tolerated only for built-in well-known types", 1)
	c.Rule("PREFERENCE-CHAIN", "duplicates of a module are reduced target → local → newest remote", 5)
	c.Rule("LSFILES-CLOSURE", "ls-files computes a seen-set closure over imports and sorts it", 2)
	c.Rule("R-ERRUSE", "error results are consumed (bufmodule, bufworkspace, buftarget)", 100)
	pk := p.Pkg("private/bufpkg/bufmodule")
	if pk == nil {
		c.Fail("CYCLE-STACK", "anchor", token.NoPos, "bufmodule not found")
		return
	}
	info := pk.TypesInfo
	var pkgs []*packages.Package
	for _, rel := range []string{"private/bufpkg/bufmodule", "private/buf/bufworkspace", "private/buf/buftarget", "private/pkg/dag"} {
		if q := p.Pkg(rel); q != nil {
			pkgs = append(pkgs, q)
		}
	}
	ruleErrUse(c, "R-ERRUSE", pkgs, func(string) (bool, string) { return true, "" }, c15AllowedErrUse)

	rec := p.Func("private/bufpkg/bufmodule", "getModuleDepsRec")
	if rec == nil {
		c.Fail("CYCLE-STACK", "getModuleDepsRec", token.NoPos, "not found")
	} else {
		g := p.CFGOf(rec.Decl.Body, info)
		// the stack: a map parameter that is both stored to and deleted from
		var stack types.Object
		var push, pop ast.Node
		for _, fld := range rec.Decl.Type.Params.List {
			for _, nm := range fld.Names {
				obj := info.Defs[nm]
				if _, isMap := obj.Type().Underlying().(*types.Map); !isMap {
					continue
				}
				var st, dl ast.Node
				inspectNoFuncLit(rec.Decl.Body, func(n ast.Node) bool {
					switch x := n.(type) {
					case *ast.AssignStmt:
						if len(x.Lhs) == 1 {
							if ix, ok := x.Lhs[0].(*ast.IndexExpr); ok && identObj(info, ix.X) == obj {
								st = x
							}
						}
					case *ast.CallExpr:
						if id, ok := x.Fun.(*ast.Ident); ok && id.Name == "delete" && len(x.Args) == 2 && identObj(info, x.Args[0]) == obj {
							dl = x
						}
					}
					return true
				})
				if st != nil && dl != nil {
					stack, push, pop = obj, st, dl
				}
			}
		}
		if stack == nil {
			c.Fail("CYCLE-STACK", "getModuleDepsRec/stack", rec.Decl.Pos(), "no map parameter that is both pushed to and deleted from")
		} else {
			// cycle test first: `if _, ok := stack[id]; ok { return &ModuleCycleError{…} }` as the first if statement
			first := false
			for _, st := range rec.Decl.Body.List {
				ifs, ok := st.(*ast.IfStmt)
				if !ok {
					continue
				}
				if as, ok := ifs.Init.(*ast.AssignStmt); ok && len(as.Rhs) == 1 {
					if ix, ok := as.Rhs[0].(*ast.IndexExpr); ok && identObj(info, ix.X) == stack {
						for _, s2 := range ifs.Body.List {
							if r, ok := s2.(*ast.ReturnStmt); ok && len(r.Results) == 1 && strings.Contains(exprString(r.Results[0]), "ModuleCycleError") {
								first = true
							}
						}
					}
				}
				break
			}
			c.Ob("CYCLE-STACK", "getModuleDepsRec/cycle-test-first", rec.Decl.Pos(), first, true, "the first test of the function looks the module up on the parent stack and returns *ModuleCycleError: %v", first)
			// push … recursion … pop
			var selfCalls []ast.Node
			inspectNoFuncLit(rec.Decl.Body, func(n ast.Node) bool {
				if call, ok := n.(*ast.CallExpr); ok && Callee(info, call) == rec.Obj {
					selfCalls = append(selfCalls, call)
				}
				return true
			})
			okOrder := len(selfCalls) > 0
			for _, sc := range selfCalls {
				if !g.Dominates(push, sc) || !g.Reachable(sc, pop) || g.Reachable(pop, sc) {
					okOrder = false
				}
			}
			c.Ob("CYCLE-STACK", "getModuleDepsRec/push-recursion-pop", rec.Decl.Pos(), okOrder, true, "push dominates the %d recursive call(s), the pop follows them and nothing recurses after the pop: %v", len(selfCalls), okOrder)
			// every nil return reachable from the push passes the pop
			okPop := true
			for _, r := range g.Returns() {
				if classifyReturn(info, r) != retNil {
					continue
				}
				if g.ReachableAvoiding(push, r, []ast.Node{pop}) {
					okPop = false
				}
			}
			c.Ob("CYCLE-STACK", "getModuleDepsRec/pop-on-success", rec.Decl.Pos(), okPop, true, "every nil return reachable after the push passes the delete of the same key: %v", okPop)
			// same key
			sameKey := false
			if as, ok := push.(*ast.AssignStmt); ok {
				if ix, ok := as.Lhs[0].(*ast.IndexExpr); ok {
					if dl, ok := pop.(*ast.CallExpr); ok && exprString(dl.Args[1]) == exprString(ix.Index) {
						sameKey = true
					}
				}
			}
			c.Ob("CYCLE-STACK", "getModuleDepsRec/same-key", rec.Decl.Pos(), sameKey, false, "push and pop use the same key expression: %v", sameKey)
			// (2) direct flag
			for _, sc := range selfCalls {
				call := sc.(*ast.CallExpr)
				last := call.Args[len(call.Args)-1]
				tv, ok := info.Types[last]
				c.Ob("DIRECT-FLAG", "getModuleDepsRec/recursive-call", call.Pos(), ok && tv.Value != nil && tv.Value.ExactString() == "false", true, "the recursive call passes isDirect = %s (want the constant false)", exprString(last))
			}
		}
		// first classification sticks: the store into the dep map is under !ok of a lookup with the same key
		okStick := false
		ast.Inspect(rec.Decl.Body, func(n ast.Node) bool {
			ifs, ok := n.(*ast.IfStmt)
			if !ok {
				return true
			}
			as, ok := ifs.Init.(*ast.AssignStmt)
			if !ok || len(as.Rhs) != 1 {
				return true
			}
			ix, ok := as.Rhs[0].(*ast.IndexExpr)
			if !ok {
				return true
			}
			ue, ok := ifs.Cond.(*ast.UnaryExpr)
			if !ok || ue.Op != token.NOT {
				return true
			}
			for _, st := range ifs.Body.List {
				if a2, ok := st.(*ast.AssignStmt); ok && len(a2.Lhs) == 1 {
					if ix2, ok := a2.Lhs[0].(*ast.IndexExpr); ok && exprString(ix2.X) == exprString(ix.X) && exprString(ix2.Index) == exprString(ix.Index) && namedName(info.TypeOf(ix2)) == "ModuleDep" {
						okStick = true
					}
				}
			}
			return true
		})
		c.Ob("DIRECT-FLAG", "getModuleDepsRec/first-classification-sticks", rec.Decl.Pos(), okStick, true, "a dependency is recorded only when absent from the result map (an earlier direct classification is never overwritten): %v", okStick)
		// (4) WKT exception
		c10WktNarrow(c, "WKT-NARROW")
	}
	if top := p.Func("private/bufpkg/bufmodule", "getModuleDeps"); top != nil && rec != nil {
		ast.Inspect(top.Decl.Body, func(n ast.Node) bool {
			if call, ok := n.(*ast.CallExpr); ok && Callee(info, call) == rec.Obj {
				last := call.Args[len(call.Args)-1]
				tv, ok := info.Types[last]
				c.Ob("DIRECT-FLAG", "getModuleDeps/top-level-call", call.Pos(), ok && tv.Value != nil && tv.Value.ExactString() == "true", true, "the top-level call passes isDirect = %s (want the constant true)", exprString(last))
			}
			return true
		})
	}

	// (3) ambiguity errors are returned
	errTypes := map[string]bool{"ModuleCycleError": true, "DuplicateProtoPathError": true, "ImportNotExistError": true, "NoProtoFilesError": true}
	for _, q := range pkgs {
		qinfo := q.TypesInfo
		for _, f := range q.Syntax {
			ast.Inspect(f, func(n ast.Node) bool {
				cl, ok := n.(*ast.CompositeLit)
				if !ok || !errTypes[namedName(qinfo.TypeOf(cl))] {
					return true
				}
				// &T{…} must be an operand of a return (possibly wrapped in a call) or assigned to a variable that is returned
				returned := false
				for cur := p.Parent(cl); cur != nil; cur = p.Parent(cur) {
					if _, ok := cur.(*ast.ReturnStmt); ok {
						returned = true
						break
					}
					if _, ok := cur.(*ast.FuncDecl); ok {
						break
					}
					if as, ok := cur.(*ast.AssignStmt); ok {
						// err = &T{}: check that the variable reaches a return
						if o := identObj(qinfo, as.Lhs[0]); o != nil {
							fd := p.EnclosingFuncDecl(as)
							ast.Inspect(fd.Body, func(m ast.Node) bool {
								if r, ok := m.(*ast.ReturnStmt); ok {
									for _, e := range r.Results {
										if usesObj(qinfo, e, o) {
											returned = true
										}
									}
								}
								return true
							})
						}
						break
					}
					if _, ok := cur.(*ast.BlockStmt); ok {
						break
					}
				}
				fd := p.EnclosingFuncDecl(cl)
				name := "?"
				if fd != nil {
					name = relPkg(q.PkgPath) + "." + declName(fd)
				}
				c.Ob("AMBIGUITY-RETURNED", name+"/"+namedName(qinfo.TypeOf(cl)), cl.Pos(), returned, true, "the constructed %s is returned to the caller: %v", namedName(qinfo.TypeOf(cl)), returned)
				return true
			})
		}
	}
	if gm := p.Func("private/bufpkg/bufmodule", "moduleSet.getModuleForFilePathUncached"); gm != nil {
		// switch on len(owners): 0 → not-exist error, default → duplicate error; other stat errors returned immediately
		var sw *ast.SwitchStmt
		ast.Inspect(gm.Decl.Body, func(n ast.Node) bool {
			if s, ok := n.(*ast.SwitchStmt); ok && s.Tag != nil && strings.HasPrefix(exprString(s.Tag), "len(") {
				sw = s
			}
			return true
		})
		ok0, okDef := false, false
		if sw != nil {
			for _, cl := range sw.Body.List {
				cc := cl.(*ast.CaseClause)
				for _, st := range cc.Body {
					r, ok := st.(*ast.ReturnStmt)
					if !ok || len(r.Results) != 2 {
						continue
					}
					mentions := func(name string) bool {
						found := false
						ast.Inspect(r.Results[1], func(m ast.Node) bool {
							if id, ok := m.(*ast.Ident); ok && id.Name == name {
								found = true
							}
							return !found
						})
						return found
					}
					if cc.List != nil && constIntIs(info, cc.List[0], 0) && mentions("ErrNotExist") {
						ok0 = true
					}
					if cc.List == nil && mentions("DuplicateProtoPathError") {
						okDef = true
					}
				}
			}
		}
		c.Ob("AMBIGUITY-RETURNED", "getModuleForFilePathUncached/owner-count", gm.Decl.Pos(), ok0 && okDef, true, "zero owners → fs.ErrNotExist, two or more → DuplicateProtoPathError: %v/%v", ok0, okDef)
		okImm := false
		ast.Inspect(gm.Decl.Body, func(n ast.Node) bool {
			ifs, ok := n.(*ast.IfStmt)
			if ok && strings.HasPrefix(exprString(ifs.Cond), "!errors.Is") && strings.Contains(exprString(ifs.Cond), "ErrNotExist") {
				for _, st := range ifs.Body.List {
					if r, ok := st.(*ast.ReturnStmt); ok && classifyReturn(info, r) != retNil {
						okImm = true
					}
				}
			}
			return true
		})
		c.Ob("AMBIGUITY-RETURNED", "getModuleForFilePathUncached/other-errors", gm.Decl.Pos(), okImm, true, "a stat error other than not-exist is returned immediately: %v", okImm)
	} else {
		c.Fail("AMBIGUITY-RETURNED", "getModuleForFilePathUncached", token.NoPos, "not found")
	}

	// (5) preference chain
	chain := []struct{ fn, pred, next string }{
		{"selectAddedModuleForOpaqueID", "IsTarget", "selectAddedModuleForOpaqueIDIgnoreTargeting"},
		{"selectAddedModuleForOpaqueIDIgnoreTargeting", "IsLocal", "selectRemoteAddedModuleForOpaqueIDIgnoreTargeting"},
	}
	for _, st := range chain {
		fr := p.Func("private/bufpkg/bufmodule", st.fn)
		if fr == nil {
			c.Fail("PREFERENCE-CHAIN", st.fn, token.NoPos, "not found")
			continue
		}
		var filtered types.Object
		okPred := false
		ast.Inspect(fr.Decl.Body, func(n ast.Node) bool {
			as, ok := n.(*ast.AssignStmt)
			if !ok || len(as.Rhs) != 1 {
				return true
			}
			call, ok := as.Rhs[0].(*ast.CallExpr)
			if !ok || len(call.Args) != 2 {
				return true
			}
			if fn := Callee(info, call); fn == nil || fn.Name() != "Filter" {
				return true
			}
			// (*addedModule).IsTarget method expression
			if sel, ok := call.Args[1].(*ast.SelectorExpr); ok && sel.Sel.Name == st.pred {
				okPred = true
				filtered = identObj(info, as.Lhs[0])
			}
			return true
		})
		c.Ob("PREFERENCE-CHAIN", st.fn+"/filter", fr.Decl.Pos(), okPred, true, "filters its candidates by the method value (*addedModule).%s: %v", st.pred, okPred)
		// calls only the next stage; non-empty arms return an element of the filtered slice
		okNext, okElem := true, true
		calls := 0
		ast.Inspect(fr.Decl.Body, func(n ast.Node) bool {
			switch x := n.(type) {
			case *ast.CallExpr:
				if fn := Callee(info, x); fn != nil && fn.Pkg() == pk.Types && strings.HasPrefix(fn.Name(), "select") {
					calls++
					if fn.Name() != st.next {
						okNext = false
					}
				}
			case *ast.ReturnStmt:
				if len(x.Results) == 2 {
					if ix, ok := x.Results[0].(*ast.IndexExpr); ok {
						if identObj(info, ix.X) != filtered {
							okElem = false
						}
					}
				}
			}
			return true
		})
		c.Ob("PREFERENCE-CHAIN", st.fn+"/next-stage", fr.Decl.Pos(), okNext && calls > 0, true, "falls through only to %s (%d call(s)); indexed returns come from the filtered slice: %v", st.next, calls, okElem)
		if !okElem {
			c.Ob("PREFERENCE-CHAIN", st.fn+"/returns-filtered-element", fr.Decl.Pos(), false, true, "a return indexes a slice other than the filtered one")
		}
	}
	// single entry
	callers := map[string]bool{}
	for id, obj := range info.Uses {
		if fn, ok := obj.(*types.Func); ok && fn.Name() == "selectAddedModuleForOpaqueID" {
			if fd := p.EnclosingFuncDecl(id); fd != nil {
				callers[fd.Name.Name] = true
			}
		}
	}
	c.Ob("PREFERENCE-CHAIN", "selectAddedModuleForOpaqueID/callers", token.NoPos, len(callers) == 1, false, "called from %v (want exactly one caller: the de-duplication of added modules)", sortedKeys(callers))

	// (6) ls-files closure
	if pkI := p.Pkg("private/bufpkg/bufimage"); pkI != nil {
		if fr := p.Func("private/bufpkg/bufimage", "imageFileInfosWithOnlyTargetsAndTargetImportsRec"); fr != nil {
			iinfo := fr.Info()
			g := p.CFGOf(fr.Decl.Body, iinfo)
			var selfCalls []ast.Node
			var test, mark ast.Node
			ast.Inspect(fr.Decl.Body, func(n ast.Node) bool {
				switch x := n.(type) {
				case *ast.CallExpr:
					if Callee(iinfo, x) == fr.Obj {
						selfCalls = append(selfCalls, x)
					}
				case *ast.IfStmt:
					if as, ok := x.Init.(*ast.AssignStmt); ok && len(as.Rhs) == 1 {
						if _, ok := as.Rhs[0].(*ast.IndexExpr); ok && test == nil {
							for _, st := range x.Body.List {
								if _, ok := st.(*ast.ReturnStmt); ok {
									test = x.Cond
								}
							}
						}
					}
				case *ast.AssignStmt:
					if len(x.Lhs) == 1 {
						if ix, ok := x.Lhs[0].(*ast.IndexExpr); ok && mark == nil {
							if _, isMap := iinfo.TypeOf(ix.X).Underlying().(*types.Map); isMap {
								mark = x
							}
						}
					}
				}
				return true
			})
			ok := test != nil && mark != nil && len(selfCalls) > 0
			for _, sc := range selfCalls {
				if ok && (!g.Dominates(test, sc) || !g.Dominates(mark, sc)) {
					ok = false
				}
			}
			c.Ob("LSFILES-CLOSURE", "imageFileInfosWithOnlyTargetsAndTargetImportsRec/mark-before-recursion", fr.Decl.Pos(), ok, true, "seen test and mark dominate the recursion over imports: %v", ok)
		} else {
			c.Fail("LSFILES-CLOSURE", "imageFileInfosWithOnlyTargetsAndTargetImportsRec", token.NoPos, "not found")
		}
		if fr := p.Func("private/bufpkg/bufimage", "ImageFileInfosWithOnlyTargetsAndTargetImports"); fr != nil {
			iinfo := fr.Info()
			startsFromTargets, sorted := false, false
			ast.Inspect(fr.Decl.Body, func(n ast.Node) bool {
				switch x := n.(type) {
				case *ast.IfStmt:
					if strings.HasSuffix(exprString(x.Cond), "IsImport()") {
						for _, st := range x.Body.List {
							if b, ok := st.(*ast.BranchStmt); ok && b.Tok == token.CONTINUE {
								startsFromTargets = true
							}
						}
					}
				case *ast.CallExpr:
					if fn := Callee(iinfo, x); fn != nil && fn.Pkg() != nil && fn.Pkg().Path() == "sort" {
						sorted = true
					}
				}
				return true
			})
			c.Ob("LSFILES-CLOSURE", "ImageFileInfosWithOnlyTargetsAndTargetImports/roots-and-order", fr.Decl.Pos(), startsFromTargets && sorted, true, "the walk starts from non-import files only and the result is sorted: %v/%v", startsFromTargets, sorted)
		}
	}
	c10Extra(c)
	c10MissingImportIsError(c)
	c10DepGraphLoops(c)
}

// c10WktNarrow: in getModuleDepsRec an import is skipped (`continue`) only when no module provides it
// (errors.Is(err, fs.ErrNotExist)) and it is a built-in well-known type. Shared by C10 and C08 (a module that does
// provide a well-known-type path must stay a dependency, or the importing module's digest ignores it).
func c10WktNarrow(c *Ctx, rule string) {
	p := c.P
	rec := p.Func("private/bufpkg/bufmodule", "getModuleDepsRec")
	if rec == nil {
		c.Fail(rule, "getModuleDepsRec", token.NoPos, "not found")
		return
	}
	info := rec.Info()
	okWkt := false
	ast.Inspect(rec.Decl.Body, func(n ast.Node) bool {
		ifs, ok := n.(*ast.IfStmt)
		if !ok || !strings.Contains(exprString(ifs.Cond), "datawkt.Exists") {
			return true
		}
		for _, st := range ifs.Body.List {
			if b, ok := st.(*ast.BranchStmt); ok && b.Tok == token.CONTINUE {
				// must lie under errors.Is(err, fs.ErrNotExist)
				for cur := p.Parent(ifs); cur != nil && cur != rec.Decl; cur = p.Parent(cur) {
					if outer, ok := cur.(*ast.IfStmt); ok && strings.Contains(exprString(outer.Cond), "ErrNotExist") {
						okWkt = true
					}
				}
			}
		}
		return true
	})
	// and no other `continue` on an error edge
	otherContinue := false
	ast.Inspect(rec.Decl.Body, func(n ast.Node) bool {
		b, ok := n.(*ast.BranchStmt)
		if !ok || b.Tok != token.CONTINUE {
			return true
		}
		underErr, underWkt := false, false
		for cur := p.Parent(b); cur != nil && cur != rec.Decl; cur = p.Parent(cur) {
			if ifs, ok := cur.(*ast.IfStmt); ok && containsNode(ifs.Body, b) {
				if nonNilErrTested(info, ifs.Cond) != nil {
					underErr = true
				}
				if strings.Contains(exprString(ifs.Cond), "datawkt.Exists") {
					underWkt = true
				}
			}
		}
		if underErr && !underWkt {
			otherContinue = true
		}
		// a well-known-type shortcut that is not under the not-exist error at all: it skips the module lookup, so a
		// module that *does* provide the path stops being a dependency
		if underWkt && !underErr {
			otherContinue = true
		}
		return true
	})
	c.Ob(rule, "getModuleDepsRec/continue-only-for-wkt", rec.Decl.Pos(), okWkt && !otherContinue, true, "the only `continue` on an error edge is under errors.Is(err, fs.ErrNotExist) && datawkt.Exists(path): %v", okWkt && !otherContinue)
}
