package main

import (
	"fmt"
	"go/token"
	"strings"

	"golang.org/x/tools/go/ssa"
)

// c11ArchiveLastWins (ARCHIVE-LAST-WINS; C11 and C14, after round-5 seed C11-a): "every source packaging of the same
// tree builds to the same image". A tar that was updated in place (`tar -rf`, `tar -uf`) holds two members for one
// path and every extractor lets the later one win, as does a sequence of Put calls on a bucket. The archive readers
// therefore write every entry that passes validation: the call that copies an entry into the bucket is not guarded by
// a membership test in a map made in the same function (a "seen" set would make the first member win).
func c11ArchiveLastWins(c *Ctx) {
	const rule = "ARCHIVE-LAST-WINS"
	c.Rule(rule, "archive readers write every valid entry: no seen-set lets an earlier member shadow a later one", 2)
	p := c.P
	n := 0
	for _, name := range []string{"Untar", "Unzip"} {
		fr := p.Func("private/pkg/storage/storagearchive", name)
		if fr == nil || fr.Obj == nil {
			c.Fail(rule, "storagearchive."+name, token.NoPos, "function not found")
			continue
		}
		sf := p.SSAFunc(fr.Obj)
		k := 0
		for _, f := range archiveReaderFuncs(sf) {
			if f.Name() == "copyZipFile" {
				continue
			}
			for _, call := range callsIn(f) {
				callee := staticCalleeObj(call.Call)
				if callee == nil {
					continue
				}
				if !(calleeIs(callee, "private/pkg/storage", "CopyReader") || calleeIs(callee, "private/pkg/storage", "PutPath") || (callee.Pkg() != nil && callee.Pkg().Path() == fr.Pkg.PkgPath && callee.Name() == "copyZipFile")) {
					continue
				}
				n++
				k++
				var seenSets []string
				for _, ge := range guardingEdges(call.Instr.Block()) {
					sliceBack(ge.If.Cond, func(x ssa.Value) bool {
						if lk, ok := x.(*ssa.Lookup); ok {
							switch mm := stripConv(lk.X).(type) {
							case *ssa.MakeMap:
								if mm.Parent() == f {
									seenSets = append(seenSets, "map made at "+p.Pos(mm.Pos()))
								}
							case *ssa.Parameter:
								if f != sf { // a set handed down to the per-entry helper
									seenSets = append(seenSets, "map parameter "+mm.Name())
								}
							}
						}
						return true
					})
				}
				c.Ob(rule, fmt.Sprintf("storagearchive.%s/write#%d", name, k), call.Pos(), len(seenSets) == 0, true, "the entry is written whatever was written before it (membership tests in a local map guarding the write: %v)", uniq(seenSets))
			}
		}
	}
	// entries are written one after the other: two members that map onto one path (strip_components, normalisation)
	// must not be written at the same time - the result would be neither of them - and the later one has to win
	for _, name := range []string{"Untar", "Unzip"} {
		fr := p.Func("private/pkg/storage/storagearchive", name)
		if fr == nil || fr.Obj == nil {
			continue
		}
		var conc []string
		for _, f := range archiveReaderFuncs(p.SSAFunc(fr.Obj)) {
			for _, b := range f.Blocks {
				for _, ins := range b.Instrs {
					if _, isGo := ins.(*ssa.Go); isGo {
						conc = append(conc, "go statement in "+f.Name())
					}
				}
			}
			for _, call := range callsIn(f) {
				if o := staticCalleeObj(call.Call); o != nil && o.Pkg() != nil && (strings.HasSuffix(o.Pkg().Path(), "/private/pkg/thread") || o.Pkg().Path() == "golang.org/x/sync/errgroup") {
					conc = append(conc, o.Pkg().Name()+"."+o.Name()+" in "+f.Name())
				}
			}
		}
		c.Ob(rule, "storagearchive."+name+"/sequential", fr.Decl.Pos(), len(conc) == 0, true, "entries are extracted one after the other (concurrency found: %v)", uniq(conc))
	}
	if n == 0 {
		c.Fail(rule, "anchor", token.NoPos, "no entry-writing call found in Untar/Unzip")
	}
}
