package main

import (
	"fmt"
	"go/token"
	"strings"

	"golang.org/x/tools/go/packages"
	"golang.org/x/tools/go/ssa"
)

// c11BuiltinOnlyAfterMiss (WKT-AFTER-MISS; C11, after round-4 seed C11-k): the built-in well-known types stand in for
// a file only when the workspace does not have it; a workspace may vendor its own copy (or depend on
// buf.build/protocolbuffers/wellknowntypes), and then that copy is what the image was built from. Outside the package
// that owns the built-in copies, "is this path a well-known type?" (datawkt.Exists) may therefore be asked only after
// a lookup in the workspace has failed: every call of datawkt.Exists lies on the failing edge of an error test. Asking
// first (`if file.IsImport() && datawkt.Exists(path) { continue }`) makes `buf export` drop a vendored
// google/protobuf/*.proto and the exported tree compiles to a different image.
func c11BuiltinOnlyAfterMiss(c *Ctx, rule string, rels []string) {
	c.Rule(rule, "the built-in well-known types are consulted only after the workspace lookup failed", 2)
	p := c.P
	n := 0
	for _, rel := range rels {
		pk := p.Pkg(rel)
		if pk == nil {
			continue
		}
		for _, sf := range p.SSAFuncsOf([]*packages.Package{pk}) {
			for _, f := range allSSAFuncs(sf) {
				k := 0
				for _, call := range callsIn(f) {
					o := staticCalleeObj(call.Call)
					if o == nil || o.Pkg() == nil || !strings.HasSuffix(o.Pkg().Path(), "private/gen/data/datawkt") || o.Name() != "Exists" {
						continue
					}
					n++
					k++
					afterMiss := false
					for _, ge := range guardingEdges(call.Instr.Block()) {
						cv, pos := condPolarity(ge.If.Cond)
						if x, trueIsNonNil, ok := nilCompare(cv); ok && isErrorType(x.Type()) && (ge.Branch == pos) == trueIsNonNil {
							afterMiss = true
						}
						// errors.Is(err, fs.ErrNotExist) holding
						if cl, ok := cv.(*ssa.Call); ok && ge.Branch == pos {
							if eo := staticCalleeObj(&cl.Call); eo != nil && eo.Pkg() != nil && eo.Pkg().Path() == "errors" && eo.Name() == "Is" {
								afterMiss = true
							}
						}
					}
					c.Ob(rule, fmt.Sprintf("%s/datawkt.Exists#%d", ssaFuncName(f), k), call.Pos(), afterMiss, true, "datawkt.Exists is asked on the failing edge of an error test (a lookup in the workspace came first): %v", afterMiss)
				}
			}
		}
	}
	if n == 0 {
		c.Fail(rule, "anchor", token.NoPos, "no datawkt.Exists call found in %v", rels)
	}
}
