package main

import (
	"go/token"
	"go/types"

	"golang.org/x/tools/go/packages"
	"golang.org/x/tools/go/ssa"
)

// flagOverwrittenInLoop lists boolean values computed inside a loop from the current element alone (not a constant,
// not combined with the flag's previous value) that are assigned to a loop-carried variable which nothing inside the
// loop consults and which is read after the loop: "any element qualifies" / "all elements qualify" written as
// `ok = test(x)` instead of `if test(x) { return true }` or `ok = ok || test(x)` - the last element alone decides.
func flagOverwrittenInLoop(f *ssa.Function) []ssa.Instruction {
	var out []ssa.Instruction
	for _, b := range f.Blocks {
		for _, ins := range b.Instrs {
			v, ok := ins.(ssa.Value)
			if !ok || v.Type() == nil || v.Referrers() == nil {
				continue
			}
			bt, ok := v.Type().Underlying().(*types.Basic)
			if !ok || bt.Info()&types.IsBoolean == 0 {
				continue
			}
			switch ins.(type) {
			case *ssa.Phi:
				continue
			}
			// all non-debug referrers are phis
			var phis []*ssa.Phi
			other := 0
			for _, r := range *v.Referrers() {
				switch t := r.(type) {
				case *ssa.DebugRef:
				case *ssa.Phi:
					phis = append(phis, t)
				default:
					other++
				}
			}
			if other != 0 || len(phis) == 0 {
				continue
			}
			// closure through forwarding phis
			set := map[*ssa.Phi]bool{}
			var work []*ssa.Phi
			for _, ph := range phis {
				set[ph] = true
				work = append(work, ph)
			}
			inLoopUse, afterLoopUse, carried := false, false, false
			for len(work) > 0 {
				ph := work[len(work)-1]
				work = work[:len(work)-1]
				if blockReaches(ph.Block(), b) && blockReaches(b, ph.Block()) && ph.Block().Dominates(b) {
					carried = true // a loop head above the assignment
				}
				for _, r := range *ph.Referrers() {
					switch t := r.(type) {
					case *ssa.DebugRef:
					case *ssa.Phi:
						if !set[t] {
							set[t] = true
							work = append(work, t)
						}
					default:
						if rb := r.Block(); rb != nil && blockReaches(rb, b) {
							inLoopUse = true // consulted where another assignment can still follow
						} else {
							afterLoopUse = true
						}
					}
				}
			}
			if !carried || inLoopUse || !afterLoopUse {
				continue
			}
			dependsOnSelf := false
			for ph := range set {
				if dependsOnValue(v, ph) {
					dependsOnSelf = true
				}
			}
			if dependsOnSelf {
				continue
			}
			out = append(out, ins)
		}
	}
	return out
}

// ruleFlagLoop (R-FLAGLOOP): zero instances are expected; the self-test keeps a positive and two negative examples.
func ruleFlagLoop(c *Ctx, rule string, pkgs []*packages.Package) {
	c.Rule(rule, "a boolean decided per element in a loop is accumulated or acted upon inside the loop, not overwritten so that the last element decides", 0)
	p := c.P
	n, fns := 0, 0
	for _, sf := range p.SSAFuncsOf(pkgs) {
		for _, f := range allSSAFuncs(sf) {
			fns++
			for _, s := range flagOverwrittenInLoop(f) {
				n++
				c.Ob(rule, ssaFuncName(f)+"/last-element-decides", s.Pos(), false, true, "this per-element result is only carried to the next iteration, which overwrites it: the value read after the loop is that of the last element")
			}
		}
	}
	c.Ob(rule, "functions-scanned", token.NoPos, n == 0, fns > 0, "%d functions scanned, %d loop-overwritten flags", fns, n)
}
