package main

import (
	"fmt"
	"go/token"
	"go/types"

	"golang.org/x/tools/go/packages"
	"golang.org/x/tools/go/ssa"
)

// ruleSortedInvariant (SORTED-INVARIANT; C18, after round-4 seed C18-j): a named slice type that some function
// binary-searches (sort.Find / sort.Search / slices.BinarySearch…) is believed to be sorted. Every function that grows
// a value of that type must keep it so: an element is put in with slices.Insert at a position that comes from a binary
// search, or the function sorts afterwards; a plain append breaks the order for every later lookup (the trie of
// FieldOptions paths then misses an ancestor, and the source location of options that are still declared is swept).
func ruleSortedInvariant(c *Ctx, rule string, pkgs []*packages.Package, min int) {
	c.Rule(rule, "slices of a type that is binary-searched are only grown by sorted insertion", min)
	p := c.P
	isBinSearch := func(o *types.Func) bool {
		if o == nil || o.Pkg() == nil {
			return false
		}
		switch o.Pkg().Path() {
		case "sort":
			return o.Name() == "Find" || o.Name() == "Search" || o.Name() == "SearchInts" || o.Name() == "SearchStrings"
		case "slices":
			return o.Name() == "BinarySearch" || o.Name() == "BinarySearchFunc"
		}
		return false
	}
	namedSlice := func(t types.Type) *types.TypeName {
		n, ok := t.(*types.Named)
		if !ok {
			return nil
		}
		if _, isSlice := n.Underlying().(*types.Slice); !isSlice {
			return nil
		}
		return n.Obj()
	}
	for _, pk := range pkgs {
		searched := map[*types.TypeName]token.Pos{}
		fns := p.SSAFuncsOf([]*packages.Package{pk})
		for _, sf := range fns {
			for _, f := range allSSAFuncs(sf) {
				for _, call := range callsIn(f) {
					if !isBinSearch(staticCalleeObj(call.Call)) || len(call.Call.Args) == 0 {
						continue
					}
					// sort.Find(len(x), …): the slice is the argument of len; slices.BinarySearch(x, …): the first argument
					var x ssa.Value
					switch a := stripConv(call.Call.Args[0]).(type) {
					case *ssa.Call:
						if isBuiltinCall(&a.Call, "len") && len(a.Call.Args) == 1 {
							x = a.Call.Args[0]
						}
					default:
						x = a
					}
					if x == nil {
						continue
					}
					if tn := namedSlice(x.Type()); tn != nil && tn.Pkg() == pk.Types {
						searched[tn] = call.Pos()
					}
				}
			}
		}
		for tn := range searched {
			c.Ob(rule, relPkg(pk.PkgPath)+"."+tn.Name()+"/searched", searched[tn], true, false, "values of %s are binary-searched", tn.Name())
		}
		if len(searched) == 0 {
			continue
		}
		for _, sf := range fns {
			for _, f := range allSSAFuncs(sf) {
				k := 0
				sortsAfter := func(from ssa.Instruction) bool {
					for _, call := range callsIn(f) {
						if o := staticCalleeObj(call.Call); o != nil && o.Pkg() != nil && (o.Pkg().Path() == "sort" || o.Pkg().Path() == "slices") && !isBinSearch(o) &&
							(o.Pkg().Path() == "sort" || len(o.Name()) >= 4 && o.Name()[:4] == "Sort") && instrReaches(from, call.Instr) {
							return true
						}
					}
					return false
				}
				for _, call := range callsIn(f) {
					cv, ok := call.Instr.(*ssa.Call)
					if !ok {
						continue
					}
					tn := namedSlice(cv.Type())
					if tn == nil {
						if len(call.Call.Args) > 0 {
							tn = namedSlice(call.Call.Args[0].Type())
						}
					}
					if tn == nil {
						continue
					}
					if _, is := searched[tn]; !is {
						continue
					}
					switch {
					case isBuiltinCall(call.Call, "append"):
						k++
						ok := sortsAfter(call.Instr)
						c.Ob(rule, fmt.Sprintf("%s/grow#%d", ssaFuncName(f), k), call.Pos(), ok, true, "a %s is grown with append; sorted afterwards in this function: %v", tn.Name(), ok)
					default:
						o := staticCalleeObj(call.Call)
						if o == nil || o.Pkg() == nil || o.Pkg().Path() != "slices" || o.Name() != "Insert" || len(call.Call.Args) < 2 {
							continue
						}
						k++
						fromSearch := dependsOnCallDeep(call.Call.Args[1], func(cc *ssa.CallCommon) bool { return isBinSearch(staticCalleeObj(cc)) })
						c.Ob(rule, fmt.Sprintf("%s/grow#%d", ssaFuncName(f), k), call.Pos(), fromSearch || sortsAfter(call.Instr), true, "a %s is grown with slices.Insert at a position that comes from a binary search: %v", tn.Name(), fromSearch)
					}
				}
			}
		}
	}
}
