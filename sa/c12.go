package main

// C12 — type filtering yields a self-contained, minimal, otherwise unchanged image (structural part).

import (
	"fmt"
	"go/ast"
	"go/token"
	"go/types"
	"golang.org/x/tools/go/ssa"
	"strings"

	"golang.org/x/tools/go/packages"
)

func init() {
	register(&propCheck{
		ID: "C12",
		Explanation: "Structural necessary conditions of the type filter: (1) exclusion never flows to a referenced element — in bufimageutil every store of inclusionModeExcluded into the " +
			"closure's element map is keyed by the descriptor being processed or one of its own children, never by an element obtained through the name index (a type that was " +
			"merely referenced must not be removed because a sibling was); (2) belief contradiction on append-only maps — a map field whose only writes are m[k] = append(m[k], …) " +
			"has 'absent' = 'empty', so a comma-ok reader turning absence into an error contradicts the writer; (3) type switches over descriptor kinds cover the eight " +
			"namedDescriptor kinds asserted in image_index.go or have an error default, and the field-type switches cover every FieldDescriptorProto_Type or error; " +
			"(4) the source-path tag constants equal the protobuf field numbers of the descriptor fields they stand for (read from the generated struct tags) — comments stay " +
			"attached only if they do; (5) determinism of the closure and remapping loops is an obligation of C02 (R-MAPORDER); (6) in copy mode no store reaches the input " +
			"descriptors: stores through descriptor fields in image_filter.go happen on freshly cloned values. NOT decided: that the result links, is minimal and idempotent; " +
			"map-entry and Any reachability.",
		Assumptions: []string{"the name index (imageIndex.ByName) is how referenced elements are obtained"},
		Run:         runC12,
	})
}

var c12TagMap = map[string][2]string{
	"fileDependencyTag":         {"FileDescriptorProto", "Dependency"},
	"filePublicDependencyTag":   {"FileDescriptorProto", "PublicDependency"},
	"fileWeakDependencyTag":     {"FileDescriptorProto", "WeakDependency"},
	"fileMessagesTag":           {"FileDescriptorProto", "MessageType"},
	"fileEnumsTag":              {"FileDescriptorProto", "EnumType"},
	"fileServicesTag":           {"FileDescriptorProto", "Service"},
	"fileExtensionsTag":         {"FileDescriptorProto", "Extension"},
	"fileOptionsTag":            {"FileDescriptorProto", "Options"},
	"messageFieldsTag":          {"DescriptorProto", "Field"},
	"messageNestedMessagesTag":  {"DescriptorProto", "NestedType"},
	"messageEnumsTag":           {"DescriptorProto", "EnumType"},
	"messageExtensionsTag":      {"DescriptorProto", "Extension"},
	"messageOptionsTag":         {"DescriptorProto", "Options"},
	"messageOneofsTag":          {"DescriptorProto", "OneofDecl"},
	"messageExtensionRangesTag": {"DescriptorProto", "ExtensionRange"},
	"messageReservedRangesTag":  {"DescriptorProto", "ReservedRange"},
	"messageReservedNamesTag":   {"DescriptorProto", "ReservedName"},
	"extensionRangeOptionsTag":  {"DescriptorProto_ExtensionRange", "Options"},
	"fieldOptionsTag":           {"FieldDescriptorProto", "Options"},
	"oneofOptionsTag":           {"OneofDescriptorProto", "Options"},
	"enumOptionsTag":            {"EnumDescriptorProto", "Options"},
	"enumValuesTag":             {"EnumDescriptorProto", "Value"},
	"enumValueOptionsTag":       {"EnumValueDescriptorProto", "Options"},
	"serviceMethodsTag":         {"ServiceDescriptorProto", "Method"},
	"serviceOptionsTag":         {"ServiceDescriptorProto", "Options"},
	"methodOptionsTag":          {"MethodDescriptorProto", "Options"},
}

func runC12(c *Ctx) {
	p := c.P
	c.Rule("EXCLUDE-SELF-ONLY", "inclusionModeExcluded is stored only for the element being processed or its own children", 5)
	c.Rule("APPEND-ONLY-ABSENCE", "absence in an append-only map is not treated as an error", 1)
	c.Rule("KIND-SWITCH", "switches over descriptor kinds and field types are total or fail loudly", 5)
	c.Rule("SOURCE-TAGS", "source-path tag constants equal the descriptor field numbers", 24)
	c.Rule("COPY-MODE", "stores through descriptor fields in the image rewriter happen only on cloned values or in in-place mode", 3)
	pk := p.Pkg("private/bufpkg/bufimage/bufimageutil")
	if pk == nil {
		c.Fail("EXCLUDE-SELF-ONLY", "anchor", token.NoPos, "bufimageutil not found")
		return
	}
	c12IndexRemap(c, pk)
	c12IndexValueRemapped(c, pk)
	c12ReadAfterInPlace(c, pk)
	c12AnyURLLastSlash(c, pk)
	c12KeptImpliesWalked(c, pk)
	ruleSortedInvariant(c, "SORTED-INVARIANT", []*packages.Package{pk}, 2)
	c12NilMeansDeleted(c, pk)
	c12OptionsTypesComplete(c, pk)
	c12FilterOnce(c)
	c12FieldTypeChecked(c, pk)
	c12PackageMeansPackage(c, pk)
	c12KeptUnlessExcluded(c, pk)
	c12ImportAfterSurvival(c, pk)
	c12IndexTotal(c, pk)
	batchKeyRule(c, "BATCH-KEY")
	c12PathIndexPositional(c, pk)
	info := pk.TypesInfo
	excluded := pk.Types.Scope().Lookup("inclusionModeExcluded")
	if excluded == nil {
		c.Fail("EXCLUDE-SELF-ONLY", "anchor", token.NoPos, "inclusionModeExcluded not found")
		return
	}
	// (1)
	mapEntryGuards := 0
	for _, fr := range p.FuncsOf(pk) {
		// self objects: the descriptor parameter(s) of namedDescriptor-ish type, type-switch bindings of them, range values over their Get*() children
		self := map[types.Object]string{}
		for _, fld := range fr.Decl.Type.Params.List {
			for _, nm := range fld.Names {
				obj := info.Defs[nm]
				if obj == nil {
					continue
				}
				tn := namedName(obj.Type())
				if tn == "namedDescriptor" || strings.HasSuffix(tn, "DescriptorProto") {
					self[obj] = "the descriptor being processed"
				}
			}
		}
		changed := true
		for changed {
			changed = false
			ast.Inspect(fr.Decl.Body, func(n ast.Node) bool {
				switch x := n.(type) {
				case *ast.TypeSwitchStmt:
					// switch v := self.(type): the implicit objects of each clause
					if as, ok := x.Assign.(*ast.AssignStmt); ok && len(as.Rhs) == 1 {
						if ta, ok := as.Rhs[0].(*ast.TypeAssertExpr); ok {
							if _, isSelf := self[identObj(info, ta.X)]; isSelf {
								for _, cl := range x.Body.List {
									if obj := info.Implicits[cl]; obj != nil {
										if _, has := self[obj]; !has {
											self[obj] = "the descriptor being processed (typed)"
											changed = true
										}
									}
								}
							}
						}
					}
				case *ast.RangeStmt:
					// for _, child := range self.GetX()
					if call, ok := x.X.(*ast.CallExpr); ok {
						if sel, ok := call.Fun.(*ast.SelectorExpr); ok && strings.HasPrefix(sel.Sel.Name, "Get") {
							if _, isSelf := self[identObj(info, sel.X)]; isSelf && x.Value != nil {
								if obj := identObj(info, x.Value); obj != nil {
									if _, has := self[obj]; !has {
										self[obj] = "a child of the descriptor being processed (" + sel.Sel.Name + ")"
										changed = true
									}
								}
							}
						}
					}
				}
				return true
			})
		}
		ast.Inspect(fr.Decl.Body, func(n ast.Node) bool {
			as, ok := n.(*ast.AssignStmt)
			if !ok || len(as.Lhs) != 1 || len(as.Rhs) != 1 {
				return true
			}
			if identObj(info, as.Rhs[0]) != excluded {
				return true
			}
			ix, ok := as.Lhs[0].(*ast.IndexExpr)
			if !ok {
				return true
			}
			inst := fr.ID() + "/elements[" + exprString(ix.Index) + "]"
			if why, isSelf := self[identObj(info, ix.Index)]; isSelf {
				c.Ob("EXCLUDE-SELF-ONLY", inst, as.Pos(), true, true, "excluded element is %s", why)
				return true
			}
			// reviewed idiom (F22): the synthetic map-entry message of a map field is part of that field, not a type the
			// user named; it is excluded under a guard `if isMapEntry…(sameElement, …)` whose callee tests GetMapEntry()
			if ifs := enclosingIf(p, as); ifs != nil {
				if gc, ok := ast.Unparen(ifs.Cond).(*ast.CallExpr); ok && len(gc.Args) >= 1 && exprString(gc.Args[0]) == exprString(ix.Index) {
					if gfn := Callee(info, gc); gfn != nil {
						if gfr := p.DeclOf(gfn); gfr != nil && gfr.Decl.Body != nil {
							tests := false
							ast.Inspect(gfr.Decl.Body, func(m ast.Node) bool {
								if se, ok := m.(*ast.SelectorExpr); ok && se.Sel.Name == "GetMapEntry" {
									tests = true
								}
								return true
							})
							if tests {
								mapEntryGuards++
								c.Ob("EXCLUDE-SELF-ONLY", inst, as.Pos(), true, true, "excluded element is the synthetic map entry of the field being processed (guarded by %s, which tests GetMapEntry())", gfn.Name())
								return true
							}
						}
					}
				}
			}
			// a selector on an index-lookup result (info.element) is a referenced element
			desc := "an element that is neither the processed descriptor nor one of its children"
			if se, ok := ix.Index.(*ast.SelectorExpr); ok && namedName(info.TypeOf(se.X)) == "elementInfo" {
				desc = "an element obtained through the name index (" + exprString(se) + "): a referenced type, not the one being processed"
			}
			c.Ob("EXCLUDE-SELF-ONLY", inst, as.Pos(), false, true, "inclusionModeExcluded is stored for %s", desc)
			return true
		})
	}

	// (1b) MAP-ENTRY-WHOLE (added after finding F22): the rewriter drops individual fields whose type is excluded; a map
	// entry must never lose one of its two fields, so somewhere the closure has to exclude the whole entry (and with it
	// the map field) under a GetMapEntry() test
	c.Rule("MAP-ENTRY-WHOLE", "a map entry whose key or value type is excluded is excluded as a whole", 1)
	c.Ob("MAP-ENTRY-WHOLE", "closure/map-entry-excluded-as-unit", token.NoPos, mapEntryGuards >= 1, true,
		"%d exclusion store(s) guarded by a GetMapEntry() test: without one, excluding a map's value type leaves a one-field map entry and the image no longer links", mapEntryGuards)

	// (2) append-only maps
	c12AppendOnly(c, pk)

	// (3) kind switches
	var kinds []types.Type
	for _, f := range pk.Syntax {
		for _, d := range f.Decls {
			gd, ok := d.(*ast.GenDecl)
			if !ok || gd.Tok != token.VAR {
				continue
			}
			for _, sp := range gd.Specs {
				vs := sp.(*ast.ValueSpec)
				if len(vs.Names) == 1 && vs.Names[0].Name == "_" && vs.Type != nil && exprString(vs.Type) == "namedDescriptor" && len(vs.Values) == 1 {
					kinds = append(kinds, info.TypeOf(vs.Values[0]))
				}
			}
		}
	}
	if len(kinds) < 8 {
		c.Fail("KIND-SWITCH", "namedDescriptor-kinds", token.NoPos, "only %d `var _ namedDescriptor = …` assertions found", len(kinds))
	}
	for _, f := range pk.Syntax {
		ast.Inspect(f, func(n ast.Node) bool {
			ts, ok := n.(*ast.TypeSwitchStmt)
			if !ok {
				return true
			}
			// tag expression type must be namedDescriptor
			var tagExpr ast.Expr
			switch a := ts.Assign.(type) {
			case *ast.AssignStmt:
				tagExpr = a.Rhs[0].(*ast.TypeAssertExpr).X
			case *ast.ExprStmt:
				tagExpr = a.X.(*ast.TypeAssertExpr).X
			}
			if tagExpr == nil || namedName(info.TypeOf(tagExpr)) != "namedDescriptor" {
				return true
			}
			covered := map[string]bool{}
			hasDefault, defaultErr := false, false
			for _, cl := range ts.Body.List {
				cc := cl.(*ast.CaseClause)
				if cc.List == nil {
					hasDefault = true
					for _, st := range cc.Body {
						if r, ok := st.(*ast.ReturnStmt); ok && len(r.Results) > 0 && !isNilIdent(info, r.Results[len(r.Results)-1]) {
							defaultErr = true
						}
						if _, ok := st.(*ast.AssignStmt); ok {
							defaultErr = true // records something (errorUnsupportedFilterType's description)
						}
					}
					continue
				}
				for _, e := range cc.List {
					covered[types.TypeString(info.TypeOf(e), nil)] = true
				}
			}
			var missing []string
			for _, k := range kinds {
				if !covered[types.TypeString(k, nil)] {
					missing = append(missing, namedName(k))
				}
			}
			fd := p.EnclosingFuncDecl(ts)
			name := "?"
			if fd != nil {
				name = declName(fd)
			}
			if !hasDefault && len(missing) > 0 {
				// a partial switch without default is a filter by design (only the listed kinds need special handling)
				c.Note("KIND-SWITCH: partial type switch without default in %s (%d kinds not listed): not an obligation", name, len(missing))
				return true
			}
			ok2 := len(missing) == 0 || (hasDefault && defaultErr)
			c.Ob("KIND-SWITCH", name+"/type-switch", ts.Pos(), ok2, len(missing) > 0, "descriptor kinds not listed: %v; default present=%v and non-silent=%v", missing, hasDefault, defaultErr)
			return true
		})
	}
	for _, es := range findEnumSwitches(p, pk) {
		if namedName(es.Type) != "FieldDescriptorProto_Type" {
			continue
		}
		ok := len(es.Missing) == 0 || (es.HasDefault && es.DefaultErr)
		c.Ob("KIND-SWITCH", es.Fn+"/switch FieldDescriptorProto_Type", es.Switch.Pos(), ok, true, "field types not listed: %v, default=%v", es.Missing, es.HasDefault)
	}

	// (4) tags
	nums := map[string]map[string]int{}
	for _, name := range sortedKeys(c12TagMap) {
		m := c12TagMap[name]
		if nums[m[0]] == nil {
			nums[m[0]] = descriptorFieldNumbers(p, m[0])
		}
		obj, ok := pk.Types.Scope().Lookup(name).(*types.Const)
		if !ok {
			c.Ob("SOURCE-TAGS", name, token.NoPos, false, false, "tag constant not found (renamed?): undecided")
			continue
		}
		want, has := nums[m[0]][m[1]]
		got := obj.Val().ExactString()
		c.Ob("SOURCE-TAGS", name, obj.Pos(), has && got == fmt.Sprint(want), true, "%s = %s; descriptorpb.%s.%s has field number %d", name, got, m[0], m[1], want)
	}
	// unknown tag constants in tags.go are unreviewed
	for _, name := range pk.Types.Scope().Names() {
		if cst, ok := pk.Types.Scope().Lookup(name).(*types.Const); ok && strings.HasSuffix(name, "Tag") {
			if _, known := c12TagMap[name]; !known && strings.HasSuffix(p.FileRel(cst.Pos()), "tags.go") {
				c.Ob("SOURCE-TAGS", name, cst.Pos(), false, false, "tag constant %s is not in the reviewed name map: its number cannot be checked", name)
			}
		}
	}

	c12CopyMode(c, pk)
	c12CopyModeFlow(c, pk)
	c12Extra(c, pk)
}

// c12AppendOnly: struct fields of map type whose every write is m[k] = append(m[k], …) and a reader that errors on !ok.
func c12AppendOnly(c *Ctx, pk *packages.Package) {
	p := c.P
	info := pk.TypesInfo
	type fieldFacts struct {
		appendWrites, otherWrites int
		errorOnAbsent             []token.Pos
	}
	facts := map[*types.Var]*fieldFacts{}
	fieldOf := func(e ast.Expr) *types.Var {
		se, ok := ast.Unparen(e).(*ast.SelectorExpr)
		if !ok {
			return nil
		}
		v, ok := info.Uses[se.Sel].(*types.Var)
		if !ok || !v.IsField() {
			return nil
		}
		if _, isMap := v.Type().Underlying().(*types.Map); !isMap {
			return nil
		}
		if sl, ok := v.Type().Underlying().(*types.Map).Elem().Underlying().(*types.Slice); !ok || sl == nil {
			return nil
		}
		return v
	}
	get := func(v *types.Var) *fieldFacts {
		if facts[v] == nil {
			facts[v] = &fieldFacts{}
		}
		return facts[v]
	}
	for _, f := range pk.Syntax {
		ast.Inspect(f, func(n ast.Node) bool {
			switch x := n.(type) {
			case *ast.AssignStmt:
				for i, lhs := range x.Lhs {
					ix, ok := ast.Unparen(lhs).(*ast.IndexExpr)
					if !ok {
						continue
					}
					v := fieldOf(ix.X)
					if v == nil {
						continue
					}
					isAppend := false
					if i < len(x.Rhs) {
						if call, ok := x.Rhs[i].(*ast.CallExpr); ok {
							if id, ok := call.Fun.(*ast.Ident); ok && id.Name == "append" && len(call.Args) > 0 && exprString(call.Args[0]) == exprString(lhs) {
								isAppend = true
							}
						}
					}
					if isAppend {
						get(v).appendWrites++
					} else {
						get(v).otherWrites++
					}
				}
				// reader: v, ok := X.F[k]
				if len(x.Lhs) == 2 && len(x.Rhs) == 1 {
					if ix, ok := ast.Unparen(x.Rhs[0]).(*ast.IndexExpr); ok {
						if v := fieldOf(ix.X); v != nil {
							okObj := identObj(info, x.Lhs[1])
							// the next statement: if !ok { return …, err }
							blk, _ := p.Parent(x).(*ast.BlockStmt)
							var list []ast.Stmt
							if blk != nil {
								list = blk.List
							} else if cc, ok := p.Parent(x).(*ast.CaseClause); ok {
								list = cc.Body
							}
							for j, st := range list {
								if st != ast.Stmt(x) || j+1 >= len(list) {
									continue
								}
								if ifs, ok := list[j+1].(*ast.IfStmt); ok {
									if ue, ok := ast.Unparen(ifs.Cond).(*ast.UnaryExpr); ok && ue.Op == token.NOT && identObj(info, ue.X) == okObj {
										for _, s2 := range ifs.Body.List {
											if r, ok := s2.(*ast.ReturnStmt); ok && classifyReturn(info, r) == retNonNil {
												get(v).errorOnAbsent = append(get(v).errorOnAbsent, r.Pos())
											}
										}
									}
								}
							}
						}
					}
				}
			}
			return true
		})
	}
	n := 0
	for v, ff := range facts {
		if ff.appendWrites == 0 || ff.otherWrites > 0 {
			continue
		}
		n++
		inst := "field " + v.Name()
		if len(ff.errorOnAbsent) > 0 {
			c.Ob("APPEND-ONLY-ABSENCE", inst, ff.errorOnAbsent[0], false, true,
				"map field %s is only ever written by append (a key is present iff its list is non-empty), yet a reader returns an error when the key is absent: an entity with an empty list is reported as missing", v.Name())
		} else {
			c.Ob("APPEND-ONLY-ABSENCE", inst, v.Pos(), true, true, "append-only map field %s: no reader turns absence into an error", v.Name())
		}
	}
	if n == 0 {
		c.Fail("APPEND-ONLY-ABSENCE", "fields", token.NoPos, "no append-only map field found in bufimageutil (anchor lost)")
	}
}

// c12CopyMode: in image_filter.go stores through descriptor fields must be on values produced by shallowClone /
// proto.Clone in the same function, or be guarded by the in-place flag.
func c12CopyMode(c *Ctx, pk *packages.Package) {
	p := c.P
	info := pk.TypesInfo
	n := 0
	for _, fr := range p.FuncsOf(pk) {
		if !strings.HasSuffix(p.FileRel(fr.Decl.Pos()), "image_filter.go") {
			continue
		}
		// cloned locals
		cloned := map[types.Object]bool{}
		ast.Inspect(fr.Decl.Body, func(m ast.Node) bool {
			as, ok := m.(*ast.AssignStmt)
			if !ok || len(as.Rhs) != 1 {
				return true
			}
			if call, ok := as.Rhs[0].(*ast.CallExpr); ok {
				name := exprString(call.Fun)
				if strings.Contains(name, "shallowClone") || strings.Contains(name, "Clone") || strings.HasPrefix(name, "new") || name == "make" {
					for _, l := range as.Lhs {
						if o := identObj(info, l); o != nil {
							cloned[o] = true
						}
					}
				}
			}
			if _, ok := as.Rhs[0].(*ast.UnaryExpr); ok {
				if ue := as.Rhs[0].(*ast.UnaryExpr); ue.Op == token.AND {
					for _, l := range as.Lhs {
						if o := identObj(info, l); o != nil {
							cloned[o] = true
						}
					}
				}
			}
			return true
		})
		ast.Inspect(fr.Decl.Body, func(m ast.Node) bool {
			as, ok := m.(*ast.AssignStmt)
			if !ok {
				return true
			}
			for _, lhs := range as.Lhs {
				se, ok := ast.Unparen(lhs).(*ast.SelectorExpr)
				if !ok || !strings.HasPrefix(namedPath(info.TypeOf(se.X)), "google.golang.org/protobuf/types/descriptorpb.") {
					continue
				}
				n++
				root := identObj(info, se.X)
				okStore := root != nil && cloned[root]
				why := "target was cloned/created in this function"
				if !okStore {
					// guarded by an in-place condition?
					for cur := p.Parent(as); cur != nil && cur != fr.Decl; cur = p.Parent(cur) {
						if ifs, ok := cur.(*ast.IfStmt); ok && strings.Contains(strings.ToLower(exprString(ifs.Cond)), "inplace") {
							okStore, why = true, "guarded by the in-place option"
						}
					}
				}
				if !okStore {
					// helper functions that receive the clone as a parameter named new*/dst
					if root != nil {
						if _, isParam := root.(*types.Var); isParam && (strings.HasPrefix(root.Name(), "new") || strings.HasPrefix(root.Name(), "dst")) {
							okStore, why = true, "parameter documented as the new copy"
						}
					}
				}
				c.Ob("COPY-MODE", fr.ID()+"/"+exprString(se), as.Pos(), okStore, true, "%s = …: %s", exprString(se), map[bool]string{true: why, false: "store through a descriptor that was not visibly cloned in this function and is not guarded by the in-place flag"}[okStore])
			}
			return true
		})
	}
	if n == 0 {
		c.Note("COPY-MODE: no direct field stores through descriptors in image_filter.go (rewrites go through generic remap helpers)")
		c.Ob("COPY-MODE", "image_filter.go/no-direct-stores", token.NoPos, true, false, "no direct descriptor field store in image_filter.go")
		c.Ob("COPY-MODE", "image_filter.go/no-direct-stores-2", token.NoPos, true, false, "-")
		c.Ob("COPY-MODE", "image_filter.go/no-direct-stores-3", token.NoPos, true, false, "-")
	}
}

// index-valued descriptor fields and the list they index (descriptor.proto)
var c12IndexRefs = []struct{ Owner, Index, ListOwner, List, Why string }{
	{"FieldDescriptorProto", "OneofIndex", "DescriptorProto", "OneofDecl", "FieldDescriptorProto.oneof_index is an index into the containing message's oneof_decl"},
	{"FileDescriptorProto", "PublicDependency", "FileDescriptorProto", "Dependency", "public_dependency holds indexes into dependency"},
	{"FileDescriptorProto", "WeakDependency", "FileDescriptorProto", "Dependency", "weak_dependency holds indexes into dependency"},
}

// c12IndexRemap (INDEX-REMAP, added after finding F21): a descriptor list that the rewriter can shorten is referenced
// by index from elsewhere in the descriptor; whenever the package stores a rebuilt list it must also store the
// referring index field, or surviving references point past the end (the image no longer links) or at the wrong
// element. Decided as a who-must-write obligation: a non-nil store to <ListOwner>.<List> anywhere in bufimageutil
// demands a non-nil store to <Owner>.<Index>.
func c12IndexRemap(c *Ctx, pk *packages.Package) {
	const rule = "INDEX-REMAP"
	c.Rule(rule, "a rebuilt descriptor list is accompanied by a rewrite of the index fields that refer to it", 3)
	p := c.P
	info := pk.TypesInfo
	stores := map[string][]token.Pos{} // "Owner.Field" -> positions of non-nil stores
	for _, fr := range p.FuncsOf(pk) {
		if fr.Decl.Body == nil {
			continue
		}
		ast.Inspect(fr.Decl.Body, func(n ast.Node) bool {
			as, ok := n.(*ast.AssignStmt)
			if !ok {
				return true
			}
			for i, l := range as.Lhs {
				sel, ok := ast.Unparen(l).(*ast.SelectorExpr)
				if !ok {
					continue
				}
				owner := namedName(info.TypeOf(sel.X))
				if owner == "" {
					continue
				}
				if i < len(as.Rhs) && isNilIdent(info, as.Rhs[i]) {
					continue
				}
				stores[owner+"."+sel.Sel.Name] = append(stores[owner+"."+sel.Sel.Name], as.Pos())
			}
			return true
		})
	}
	for _, r := range c12IndexRefs {
		list := stores[r.ListOwner+"."+r.List]
		idx := stores[r.Owner+"."+r.Index]
		if len(list) == 0 {
			c.Ob(rule, r.Owner+"."+r.Index, token.NoPos, true, false, "%s.%s is never rebuilt by the package; nothing to remap", r.ListOwner, r.List)
			continue
		}
		c.Ob(rule, r.Owner+"."+r.Index, list[0], len(idx) > 0, true,
			"%s: the package rebuilds %s.%s (%d store(s)) and rewrites %s.%s (%d store(s))", r.Why, r.ListOwner, r.List, len(list), r.Owner, r.Index, len(idx))
	}
}

// enclosingIf returns the innermost if statement whose body contains n.
func enclosingIf(p *Prog, n ast.Node) *ast.IfStmt {
	for q := p.Parent(n); q != nil; q = p.Parent(q) {
		if ifs, ok := q.(*ast.IfStmt); ok && containsNode(ifs.Body, n) {
			return ifs
		}
		if _, ok := q.(*ast.FuncDecl); ok {
			return nil
		}
	}
	return nil
}

// c12PathIndexPositional (PATH-INDEX-POSITIONAL, added with finding F26): a source-code-info path addresses an element
// of a repeated field by its *position* in that field. Every `append(path, idx)` that extends a SourcePath with a
// non-constant index must therefore take idx from a loop position - the key of a range statement, or a counter that
// is only initialised with a constant and stepped by one - never from an element *value* of the list (for
// weak_dependency / public_dependency the values are indexes into another list, which type-checks just as well).
func c12PathIndexPositional(c *Ctx, pk *packages.Package) {
	const rule = "PATH-INDEX-POSITIONAL"
	c.Rule(rule, "the index appended to a source path is the element's position in its repeated field, not an element value", 3)
	p := c.P
	info := pk.TypesInfo
	for _, fr := range p.FuncsOf(pk) {
		if fr.Decl.Body == nil {
			continue
		}
		body := fr.Decl.Body
		// classification of a local variable by all the ways it is written in this function
		var classifyVar func(v types.Object) (string, bool)
		classifying := map[types.Object]bool{}
		classifyVar = func(v types.Object) (string, bool) {
			if classifying[v] {
				return "", false
			}
			classifying[v] = true
			defer delete(classifying, v)
			kind, decided := "", true
			set := func(k string) {
				if kind == "" || kind == k {
					kind = k
				} else if k == "value" || kind == "value" {
					kind = "value"
				} else {
					decided = false
				}
			}
			ast.Inspect(body, func(n ast.Node) bool {
				switch x := n.(type) {
				case *ast.RangeStmt:
					_, isSlice := info.TypeOf(x.X).Underlying().(*types.Slice)
					if x.Key != nil && identObj(info, x.Key) == v {
						if isSlice {
							set("position")
						} else {
							decided = false
						}
					}
					if x.Value != nil && identObj(info, x.Value) == v {
						set("value")
					}
				case *ast.IncDecStmt:
					if identObj(info, x.X) == v {
						set("position")
					}
				case *ast.AssignStmt:
					for i, l := range x.Lhs {
						if identObj(info, l) != v {
							continue
						}
						if len(x.Rhs) != len(x.Lhs) {
							decided = false
							continue
						}
						r := ast.Unparen(x.Rhs[i])
						if call, ok := r.(*ast.CallExpr); ok && len(call.Args) == 1 && info.Types[call.Fun].IsType() {
							r = ast.Unparen(call.Args[0])
						}
						if tv, ok := info.Types[r]; ok && tv.Value != nil {
							set("position") // constant start of a counter
						} else if _, isIx := r.(*ast.IndexExpr); isIx {
							set("value")
						} else if id, isId := r.(*ast.Ident); isId && identObj(info, id) != nil && identObj(info, id) != v {
							// a copy of another local (`indexFrom := int32(i)` with i the range key): what that one is
							if k, d := classifyVar(identObj(info, id)); d {
								set(k)
							} else {
								decided = false
							}
						} else {
							decided = false
						}
					}
				}
				return true
			})
			return kind, decided && kind != ""
		}
		ast.Inspect(body, func(n ast.Node) bool {
			call, ok := n.(*ast.CallExpr)
			if !ok || len(call.Args) != 2 || call.Ellipsis.IsValid() {
				return true
			}
			if id, ok := ast.Unparen(call.Fun).(*ast.Ident); !ok || id.Name != "append" {
				return true
			} else if _, isBuiltin := info.Uses[id].(*types.Builtin); !isBuiltin {
				return true
			}
			if namedName(info.TypeOf(call.Args[0])) != "SourcePath" {
				return true
			}
			idx := ast.Unparen(call.Args[1])
			if tv, ok := info.Types[idx]; ok && tv.Value != nil {
				return true // a field tag
			}
			if conv, ok := idx.(*ast.CallExpr); ok && len(conv.Args) == 1 && info.Types[conv.Fun].IsType() {
				idx = ast.Unparen(conv.Args[0])
			}
			// the instance is named by what the path addresses (the field tag the base path ends in), so that renaming
			// the receiver type or the locals does not turn a listed finding into a new one
			// (not by the enclosing function either: the loop may be moved into a helper)
			inst := "index-under-" + c12BaseTag(info, body, call.Args[0])
			if strings.HasSuffix(inst, "path-parameter") || strings.HasSuffix(inst, "expr") {
				inst = fr.Decl.Name.Name + "/" + inst
			}
			v := identObj(info, idx)
			if v == nil {
				c.Ob(rule, inst, call.Pos(), false, true, "the appended index %s is not a local variable the rule can classify", exprString(idx))
				return true
			}
			kind, decided := classifyVar(v)
			if !decided {
				c.Ob(rule, inst, call.Pos(), false, true, "the origin of index variable %s is not decided (neither a range key, a unit-step counter nor a range value)", v.Name())
				return true
			}
			c.Ob(rule, inst, call.Pos(), kind == "position", true, "index variable %s is a %s of the list being walked", v.Name(), map[string]string{"position": "position (range key / unit-step counter)", "value": "element VALUE (the path then names a different element, or none)"}[kind])
			return true
		})
	}
}

// c12IndexValueRemapped (INDEX-VALUE-REMAPPED, round 2): weak_dependency holds indexes into the dependency list. When
// the rewriter drops imports, the surviving entries must be the *new* positions, i.e. values read from the old->new
// table that the same function builds (a slice it makes itself), never the old values carried over: those still
// type-check, still lie inside the list as long as only later imports were dropped, and silently mark the wrong
// import weak otherwise. Decided on SSA: every element appended to an []int32 result of the dependency remapper is a
// load from a slice made in that function.
func c12IndexValueRemapped(c *Ctx, pk *packages.Package) {
	const rule = "INDEX-VALUE-REMAPPED"
	c.Rule(rule, "index values written to a rebuilt index list are read from the old->new table, not carried over", 1)
	p := c.P
	n := 0
	for _, sf := range p.SSAFuncsOf([]*packages.Package{pk}) {
		res := sf.Signature.Results()
		// the dependency remapper: returns the new []string list together with []int32 index lists
		hasStr, idx := false, []int{}
		for i := 0; i < res.Len(); i++ {
			sl, ok := res.At(i).Type().Underlying().(*types.Slice)
			if !ok {
				continue
			}
			if b, ok := sl.Elem().Underlying().(*types.Basic); ok {
				switch b.Kind() {
				case types.String:
					hasStr = true
				case types.Int32:
					idx = append(idx, i)
				}
			}
		}
		_ = hasStr
		if len(idx) == 0 || sf.Parent() != nil || !strings.HasSuffix(p.FileRel(sf.Pos()), "image_filter.go") {
			continue
		}
		for _, call := range callsIn(sf) {
			if !isBuiltinCall(call.Call, "append") || len(call.Call.Args) != 2 {
				continue
			}
			sl, ok := call.Call.Args[0].Type().Underlying().(*types.Slice)
			if !ok {
				continue
			}
			if b, ok := sl.Elem().Underlying().(*types.Basic); !ok || b.Kind() != types.Int32 {
				continue
			}
			// does this append feed an index-list result?
			feeds := false
			for _, r := range returnsOf(sf) {
				for _, i := range idx {
					if i < len(r.Results) && dependsOnValue(r.Results[i], call.Value) {
						feeds = true
					}
				}
			}
			if !feeds {
				continue
			}
			for _, el := range variadicElems(call.Call.Args[1]) {
				n++
				fromTable := false
				// the table may also be a map made in this function
				if lk, ok := stripConv(el).(*ssa.Lookup); ok {
					sliceBack(lk.X, func(x ssa.Value) bool {
						if _, isMake := x.(*ssa.MakeMap); isMake {
							fromTable = true
						}
						return !fromTable
					})
				}
				if ex, ok := stripConv(el).(*ssa.Extract); ok {
					if lk, ok := ex.Tuple.(*ssa.Lookup); ok && ex.Index == 0 {
						sliceBack(lk.X, func(x ssa.Value) bool {
							if _, isMake := x.(*ssa.MakeMap); isMake {
								fromTable = true
							}
							return !fromTable
						})
					}
				}
				if u, ok := stripConv(el).(*ssa.UnOp); ok && u.Op == token.MUL {
					if ia, ok := u.X.(*ssa.IndexAddr); ok {
						// a table lookup `table[oldValue]`: the index is itself an element that was loaded (the old
						// index value), not the position counter of a loop over the same slice - this form also holds
						// when the table arrives as a parameter of an extracted helper
						if iu, ok := stripConv(ia.Index).(*ssa.UnOp); ok && iu.Op == token.MUL {
							if _, isElem := iu.X.(*ssa.IndexAddr); isElem {
								fromTable = true
							}
						}
						sliceBack(ia.X, func(x ssa.Value) bool {
							if _, isMake := x.(*ssa.MakeSlice); isMake && types.Identical(x.Type(), ia.X.Type()) {
								fromTable = true
							}
							return !fromTable
						})
					}
				}
				c.Ob(rule, ssaFuncName(sf)+"/append#"+fmt.Sprint(n), call.Pos(), fromTable, true, "the index appended to the rebuilt index list is a load from a table made in this function: %v (%s)", fromTable, el.String())
			}
		}
	}
}

// c12CopyModeFlow (COPY-MODE, flow-sensitive part, round 2): the syntactic pass above accepts a store through a local
// that is cloned *somewhere* in the function. This pass decides it on SSA: the pointer a descriptor field is stored
// through must be fresh on every path that reaches the store - produced by a clone helper (maybeClone / shallowClone /
// proto.Clone), a new value, or a parameter that is documented as the copy - or the store must sit on the true edge
// of the in-place option. A φ that merges the cloned value with the original element (clone only when the path
// changed, then clear the comments regardless) writes into the caller's image in copying mode.
func c12CopyModeFlow(c *Ctx, pk *packages.Package) {
	p := c.P
	// contradict: the predecessor a φ edge comes from is only reached when a condition has the opposite value to the
	// one the store is guarded by (clone `if noComment || moved`, clear the comments `if noComment`): the edge is
	// infeasible for this store.
	type polar struct {
		v   ssa.Value
		val bool
	}
	guardsOf := func(b *ssa.BasicBlock) []polar {
		var out []polar
		for _, ge := range guardingEdges(b) {
			cv, pos := condPolarity(ge.If.Cond)
			out = append(out, polar{cv, ge.Branch == pos})
		}
		return out
	}
	contradict := func(pred, at *ssa.BasicBlock) bool {
		for _, g1 := range guardsOf(pred) {
			for _, g2 := range guardsOf(at) {
				if g1.v == g2.v && g1.val != g2.val {
					return true
				}
			}
		}
		return false
	}
	var fresh func(v ssa.Value, at *ssa.BasicBlock, seen map[ssa.Value]bool) bool
	fresh = func(v ssa.Value, at *ssa.BasicBlock, seen map[ssa.Value]bool) bool {
		if seen[v] {
			return true
		}
		seen[v] = true
		switch x := v.(type) {
		case *ssa.Const:
			return x.IsNil() // a store through nil faults; it cannot write into the input image
		case *ssa.Alloc:
			// a new struct (&T{}); a spilled pointer variable is handled at its load
			if _, isPtr := x.Type().(*types.Pointer).Elem().Underlying().(*types.Pointer); !isPtr {
				return true
			}
			return false
		case *ssa.Call:
			if fn := staticCalleeObj(&x.Call); fn != nil {
				n := strings.ToLower(fn.Name())
				return strings.Contains(n, "clone") || strings.HasPrefix(n, "new")
			}
			return false
		case *ssa.Phi:
			for i, e := range x.Edges {
				if at != nil && i < len(x.Block().Preds) && contradict(x.Block().Preds[i], at) {
					continue
				}
				if !fresh(e, at, seen) {
					return false
				}
			}
			return true
		case *ssa.TypeAssert:
			return fresh(x.X, at, seen)
		case *ssa.ChangeType:
			return fresh(x.X, at, seen)
		case *ssa.Extract:
			// (value, changed, err) := helper(...): the value is fresh when the store is on the `changed` edge and the
			// helper returns a fresh value whenever it reports a change
			call, ok := x.Tuple.(*ssa.Call)
			if !ok || at == nil {
				return false
			}
			callee := call.Call.StaticCallee()
			if callee == nil || callee.Blocks == nil {
				return false
			}
			for _, g := range guardsOf(at) {
				ex, ok := g.v.(*ssa.Extract)
				if !ok || ex.Tuple != x.Tuple || !g.val {
					continue
				}
				if b, ok := ex.Type().Underlying().(*types.Basic); !ok || b.Kind() != types.Bool {
					continue
				}
				okAll := true
				for _, r := range returnsOf(callee) {
					if cst, ok := r.Results[ex.Index].(*ssa.Const); ok && cst.Value != nil && cst.Value.ExactString() == "false" {
						continue
					}
					if !fresh(r.Results[x.Index], nil, map[ssa.Value]bool{}) {
						okAll = false
					}
				}
				if okAll {
					return true
				}
			}
			return false
		case *ssa.Parameter:
			return strings.HasPrefix(x.Name(), "new") || strings.HasPrefix(x.Name(), "dst")
		case *ssa.UnOp:
			if x.Op == token.MUL {
				if al, ok := x.X.(*ssa.Alloc); ok {
					okAll, any := true, false
					for _, ref := range *al.Referrers() {
						if st, ok := ref.(*ssa.Store); ok && st.Addr == ssa.Value(al) {
							any = true
							if !fresh(st.Val, nil, seen) {
								okAll = false
							}
						}
					}
					return any && okAll
				}
			}
		}
		return false
	}
	n := 0
	for _, sf := range p.SSAFuncsOf([]*packages.Package{pk}) {
		for _, f := range allSSAFuncs(sf) {
			if !strings.HasSuffix(p.FileRel(f.Pos()), "image_filter.go") {
				continue
			}
			k := 0
			for _, b := range f.Blocks {
				for _, ins := range b.Instrs {
					st, ok := ins.(*ssa.Store)
					if !ok {
						continue
					}
					fa, ok := st.Addr.(*ssa.FieldAddr)
					if !ok {
						continue
					}
					pt, ok := fa.X.Type().Underlying().(*types.Pointer)
					if !ok || !strings.HasPrefix(namedPath(pt.Elem()), "google.golang.org/protobuf/types/descriptorpb.") {
						continue
					}
					n++
					k++
					okStore := fresh(fa.X, b, map[ssa.Value]bool{})
					why := "the target is a clone / new value on every path"
					if !okStore {
						for _, ge := range guardingEdges(b) {
							cv, pos := condPolarity(ge.If.Cond)
							if u, ok := cv.(*ssa.UnOp); ok && u.Op == token.MUL {
								if gfa, ok := u.X.(*ssa.FieldAddr); ok {
									if st, ok := gfa.X.Type().Underlying().(*types.Pointer).Elem().Underlying().(*types.Struct); ok && strings.Contains(strings.ToLower(st.Field(gfa.Field).Name()), "inplace") && ge.Branch == pos {
										okStore, why = true, "guarded by the in-place option"
									}
								}
							}
						}
					}
					fieldName := pt.Elem().Underlying().(*types.Struct).Field(fa.Field).Name()
					c.Ob("COPY-MODE", "flow:"+ssaFuncName(f)+"/"+namedName(pt.Elem())+"."+fieldName+"#"+fmt.Sprint(k), st.Pos(), okStore, true, "store to %s.%s: %s", namedName(pt.Elem()), fieldName, map[bool]string{true: why, false: "on some path the pointer is not a clone (an original element of the input image is written to in copying mode)"}[okStore])
				}
			}
		}
	}
	if n == 0 {
		c.Note("COPY-MODE/flow: no direct descriptor field stores in image_filter.go")
	}
}

// c12BaseTag names the last component of a base source path: the constant tag it was extended with
// (`weakDependencyPath := append(sourcePath, fileWeakDependencyTag)` -> "tag11"), or "path-parameter".
func c12BaseTag(info *types.Info, body *ast.BlockStmt, base ast.Expr) string {
	id, ok := ast.Unparen(base).(*ast.Ident)
	if !ok {
		return "expr"
	}
	o := info.Uses[id]
	tag := ""
	ast.Inspect(body, func(n ast.Node) bool {
		as, ok := n.(*ast.AssignStmt)
		if !ok || len(as.Lhs) != 1 || len(as.Rhs) != 1 || identObj(info, as.Lhs[0]) != o {
			return true
		}
		if call, ok := ast.Unparen(as.Rhs[0]).(*ast.CallExpr); ok && len(call.Args) == 2 {
			if tv, ok := info.Types[call.Args[1]]; ok && tv.Value != nil {
				tag = "tag" + tv.Value.ExactString()
			}
		}
		return true
	})
	if tag != "" {
		return tag
	}
	if v, ok := o.(*types.Var); ok && v != nil {
		return "path-parameter"
	}
	return "expr"
}
