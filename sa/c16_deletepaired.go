package main

import (
	"fmt"
	"go/token"
	"strings"

	"golang.org/x/tools/go/packages"
	"golang.org/x/tools/go/ssa"
)

// c16DeletePaired (DELETE-PAIRED; C16, after round-5 seed C16-c): the migrator first deletes every path in
// pathsToDelete and then writes the migrated files. A file that is "written over" is in both sets under the same key,
// and it may be in the first only if it is in the second: a path that is marked for deletion on a route that returns
// success without recording the replacement (the template is already v2: "no migration required") is simply deleted.
// In the migrate builder, for every store into a set of paths to delete whose key is also the key of a store into a
// map of migrated files in the same function, no success return is reachable from the deletion mark without passing the
// store of the replacement.
func c16DeletePaired(c *Ctx) {
	const rule = "DELETE-PAIRED"
	c.Rule(rule, "a configuration file is marked for deletion only on routes that also record its migrated replacement", 1)
	p := c.P
	pk := p.Pkg("private/buf/bufmigrate")
	if pk == nil {
		c.Fail(rule, "anchor", token.NoPos, "bufmigrate not found")
		return
	}
	n := 0
	for _, sf := range p.SSAFuncsOf([]*packages.Package{pk}) {
		var marks, writes []*ssa.MapUpdate
		for _, b := range sf.Blocks {
			for _, ins := range b.Instrs {
				mu, ok := ins.(*ssa.MapUpdate)
				if !ok {
					continue
				}
				u, ok := stripConv(mu.Map).(*ssa.UnOp)
				if !ok {
					continue
				}
				fa, ok := u.X.(*ssa.FieldAddr)
				if !ok {
					continue
				}
				name := strings.ToLower(fieldName(fa.X.Type(), fa.Field))
				switch {
				case strings.Contains(name, "delete"):
					marks = append(marks, mu)
				case strings.Contains(name, "migrated"):
					writes = append(writes, mu)
				}
			}
		}
		for i, d := range marks {
			var pair *ssa.MapUpdate
			for _, w := range writes {
				if sameSSAExpr(d.Key, w.Key, 3) {
					pair = w
				}
			}
			if pair == nil {
				continue
			}
			n++
			ok := true
			if pair.Block() != d.Block() {
				// a success return reachable from the mark avoiding the replacement's block
				seen := map[*ssa.BasicBlock]bool{d.Block(): true}
				work := []*ssa.BasicBlock{d.Block()}
				for len(work) > 0 && ok {
					x := work[len(work)-1]
					work = work[:len(work)-1]
					if r, isRet := x.Instrs[len(x.Instrs)-1].(*ssa.Return); isRet {
						succ := true
						for _, res := range r.Results {
							if isErrorType(res.Type()) && !isNilConst(spilledResult(r, res)) {
								succ = false
							}
						}
						if succ {
							ok = false
						}
					}
					for _, s := range x.Succs {
						if !seen[s] && s != pair.Block() {
							seen[s] = true
							work = append(work, s)
						}
					}
				}
			}
			c.Ob(rule, fmt.Sprintf("%s/mark#%d", ssaFuncName(sf), i+1), d.Pos(), ok, true, "every success return after the path was marked for deletion comes after its migrated replacement was recorded: %v", ok)
		}
	}
	if n == 0 {
		c.Fail(rule, "anchor", token.NoPos, "no deletion mark paired with a migrated-file store found in bufmigrate")
	}
}
