package main

import (
	"fmt"
	"go/token"

	"golang.org/x/tools/go/ssa"
)

// entries that may be skipped before their name was validated, one reviewed reason each
var c13SkipBeforeValidate = map[string]string{
	"isAppleExtendedAttributesFile": "macOS `._x` resource-fork members are dropped by base name before anything else is done with them (documented compromise of the archive reader); nothing is written for them",
}

// c13ValidateBeforeSkip (VALIDATE-BEFORE-SKIP; C13, after round-5 seed C13-c): "tar/zip entries cannot reach outside
// the directory they are confined to; such names are rejected with an error" - rejected, not passed over: an archive
// with a directory or link member named `../../x` is a malformed input whatever the member's kind. In the archive
// readers, the branch that decides to pass over an entry without running the name validator for it (one side reaches
// the validator call in this iteration, the other goes on to the next entry) tests nothing but a reviewed helper.
// Skipping by kind (regular file or not) or by matcher comes after the validator.
func c13ValidateBeforeSkip(c *Ctx) {
	const rule = "VALIDATE-BEFORE-SKIP"
	c.Rule(rule, "archive readers validate an entry's name before deciding, by kind or matcher, to pass over it", 2)
	p := c.P
	for _, name := range []string{"Untar", "Unzip"} {
		fr := p.Func("private/pkg/storage/storagearchive", name)
		if fr == nil || fr.Obj == nil {
			c.Fail(rule, "storagearchive."+name, token.NoPos, "function not found")
			continue
		}
		sf := p.SSAFunc(fr.Obj)
		funcs := archiveReaderFuncs(sf)
		// validator sites: calls of unmapArchivePath, and calls of a function of the reader that contains such a site
		// (the per-entry part of the loop extracted into a helper)
		hasSite := map[*ssa.Function]bool{}
		siteBlocks := map[*ssa.Function][]*ssa.BasicBlock{}
		for changed := true; changed; {
			changed = false
			for _, f := range funcs {
				for _, call := range callsIn(f) {
					isSite := false
					if o := staticCalleeObj(call.Call); o != nil && o.Name() == "unmapArchivePath" {
						isSite = true
					} else if sc := call.Call.StaticCallee(); sc != nil && hasSite[sc] {
						isSite = true
					}
					if !isSite {
						continue
					}
					known := false
					for _, b := range siteBlocks[f] {
						if b == call.Instr.Block() {
							known = true
						}
					}
					if !known {
						siteBlocks[f] = append(siteBlocks[f], call.Instr.Block())
						changed = true
					}
					if !hasSite[f] {
						hasSite[f] = true
						changed = true
					}
				}
			}
		}
		if !hasSite[sf] {
			c.Fail(rule, "storagearchive."+name, fr.Decl.Pos(), "no call of unmapArchivePath found in %s or the helpers it runs per entry", name)
			continue
		}
		var bad []string
		reviewed := 0
		for _, f := range funcs {
			for _, u := range siteBlocks[f] {
				// the innermost loop containing the site, if any; without one the function is the per-entry helper and
				// "passing over the entry" is a success return
				var h *ssa.BasicBlock
				var loop map[*ssa.BasicBlock]bool
				for _, b := range f.Blocks {
					if l := loopBlocks(b); l != nil && l[u] && (loop == nil || len(l) < len(loop)) {
						h, loop = b, l
					}
				}
				if h == nil && f == sf {
					c.Fail(rule, "storagearchive."+name, fr.Decl.Pos(), "the validator is not called inside a loop over the entries")
					continue
				}
				successReturn := func(b *ssa.BasicBlock) bool {
					r, ok := b.Instrs[len(b.Instrs)-1].(*ssa.Return)
					if !ok {
						return false
					}
					for _, res := range r.Results {
						if isErrorType(res.Type()) && !isNilConst(spilledResult(r, res)) {
							return false
						}
					}
					return true
				}
				reachesSuccessAvoiding := func(from, avoid *ssa.BasicBlock) bool {
					seen := map[*ssa.BasicBlock]bool{from: true}
					work := []*ssa.BasicBlock{from}
					for len(work) > 0 {
						x := work[len(work)-1]
						work = work[:len(work)-1]
						if x == avoid {
							continue
						}
						if successReturn(x) {
							return true
						}
						for _, s := range x.Succs {
							if !seen[s] {
								seen[s] = true
								work = append(work, s)
							}
						}
					}
					return false
				}
				for _, b := range f.Blocks {
					i := ifOf(b)
					if i == nil || b == u || u.Dominates(b) || (loop != nil && !loop[b]) {
						continue
					}
					reaches, skips := false, false
					for _, s := range b.Succs {
						if loop != nil {
							if !loop[s] {
								continue // leaves the loop: an error return or the end of the archive
							}
							if s == u || blockReachesAvoiding(s, u, h) {
								reaches = true
							} else {
								skips = true
							}
						} else {
							if s == u || blockReaches(s, u) {
								reaches = true
							} else if reachesSuccessAvoiding(s, u) {
								skips = true
							}
						}
					}
					if !(reaches && skips) {
						continue
					}
					cv, _ := condPolarity(i.Cond)
					okHelper := false
					if cl, isCall := stripConv(cv).(*ssa.Call); isCall {
						if o := staticCalleeObj(&cl.Call); o != nil && c13SkipBeforeValidate[o.Name()] != "" && o.Pkg() != nil && o.Pkg().Path() == fr.Pkg.PkgPath {
							okHelper = true
							reviewed++
						}
					}
					if !okHelper {
						at := i.Cond.Pos()
						for k := len(b.Instrs) - 1; k >= 0 && at == token.NoPos; k-- {
							at = b.Instrs[k].Pos()
						}
						bad = append(bad, fmt.Sprintf("test at %s", p.Pos(at)))
					}
				}
			}
		}
		c.Ob(rule, "storagearchive."+name+"/skips", fr.Decl.Pos(), len(bad) == 0, true, "%d reviewed skip(s) before the validator; other branches that pass over an entry without validating its name: %v", reviewed, bad)
	}
}
