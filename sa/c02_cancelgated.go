package main

import (
	"go/token"
	"strings"

	"golang.org/x/tools/go/ssa"
)

// c02CancelGated (CANCEL-GATED; C02 and C15, after round-5 seed C02-o): thread.Parallelize runs every job to completion
// unless the caller asked for cancel-on-failure. The workers cancel "if there is a cancel function", so the derived
// context must exist only when the option is set: an unconditional context.WithCancel turns every Parallelize into
// cancel-on-failure - after the first failing job the jobs not yet dispatched are skipped and running ones see a
// cancelled context, and how many of them depends on the parallelism and the schedule (`storage.Copy` copies 0 of 8
// files at parallelism 1, `context canceled` is joined into the error). In thread.Parallelize, every context.WithCancel
// lies on the edge where a field of the options named after cancellation holds.
func c02CancelGated(c *Ctx, rule string) {
	c.Rule(rule, "Parallelize derives a cancellable context only when cancel-on-failure was requested", 1)
	p := c.P
	fr := p.Func("private/pkg/thread", "Parallelize")
	if fr == nil {
		c.Fail(rule, "anchor", token.NoPos, "private/pkg/thread.Parallelize not found")
		return
	}
	sf := p.SSAFunc(fr.Obj)
	n := 0
	for _, call := range callsIn(sf) {
		o := staticCalleeObj(call.Call)
		if o == nil || o.Pkg() == nil || o.Pkg().Path() != "context" || !strings.HasPrefix(o.Name(), "WithCancel") {
			continue
		}
		n++
		gated := false
		for _, ge := range guardingEdges(call.Instr.Block()) {
			cv, pos := condPolarity(ge.If.Cond)
			if ge.Branch != pos {
				continue
			}
			sliceBack(cv, func(x ssa.Value) bool {
				if fa, ok := x.(*ssa.FieldAddr); ok && strings.Contains(strings.ToLower(fieldName(fa.X.Type(), fa.Field)), "cancel") {
					gated = true
				}
				return !gated
			})
		}
		c.Ob(rule, "thread.Parallelize/WithCancel", call.Pos(), gated, true, "context.WithCancel is reached only on the edge where the cancel-on-failure option holds: %v", gated)
	}
	if n == 0 {
		c.Fail(rule, "thread.Parallelize/WithCancel", fr.Decl.Pos(), "no context.WithCancel in Parallelize")
	}
}
