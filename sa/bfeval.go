package main

// bfeval: evaluation of a small boolean decision function, extracted from the syntax tree, over every assignment
// of its atomic predicates. The function is never run: the checker interprets its statements (if / tagless switch /
// boolean locals / comma-ok lookups / map stores / returns) under an assignment of truth values to the atoms it
// recognises, and reports what is returned and which effects happen. Any statement or predicate outside this
// fragment makes the result *undecided* (which the caller must treat as failed). Rules built on it compare the
// resulting truth table with the table the property demands, so they do not depend on whether the decision is
// written as an if-chain, a switch, with early returns or with hoisted lookups.

import (
	"fmt"
	"go/ast"
	"go/token"
	"go/types"
)

type bfEnv struct {
	info   *types.Info
	atom   func(e ast.Expr) (tri, bool)              // value of an atomic predicate under the current assignment
	lookup func(m ast.Expr) (tri, bool)              // value of `_, ok := m[k]`
	store  func(m ast.Expr) (effect string, ok bool) // effect name of `m[k] = v`; ok=false: not a tracked store
	locals map[types.Object]tri
	// continueAs, when set, gives the value a `continue` stands for when the interpreted statements are the body of
	// a search loop ("this element does not qualify")
	continueAs *tri
	// inline, when set, resolves a call to the body of a function whose result the decision delegates to
	inline func(call *ast.CallExpr) (*ast.FuncDecl, *types.Info)
	depth  int
	// exprLocals: non-boolean locals assigned once from an expression (`opt := rule.FileOption()`); a predicate over
	// the local is shown to the rule's atom function as a predicate over that expression
	exprLocals map[types.Object]ast.Expr
	// onAssign, when set, lets a rule give a meaning to an assignment statement (e.g. "appending the element to the
	// result slice means: it qualifies")
	onAssign func(as *ast.AssignStmt) (handled bool, value tri)
}

type bfOutcome struct {
	Returned  bool
	Value     tri
	Effects   []string
	Undecided string
}

func (e *bfEnv) eval(x ast.Expr) tri {
	x = ast.Unparen(x)
	switch t := x.(type) {
	case *ast.Ident:
		switch t.Name {
		case "true":
			return triTrue
		case "false":
			return triFalse
		}
		if o := e.info.Uses[t]; o != nil {
			if v, ok := e.locals[o]; ok {
				return v
			}
		}
	case *ast.UnaryExpr:
		if t.Op == token.NOT {
			return triNot(e.eval(t.X))
		}
	case *ast.BinaryExpr:
		switch t.Op {
		case token.LAND:
			return triAnd(e.eval(t.X), e.eval(t.Y))
		case token.LOR:
			return triOr(e.eval(t.X), e.eval(t.Y))
		}
	}
	if v, ok := e.atom(e.resolve(x)); ok {
		return v
	}
	// a predicate moved into a helper of the package: evaluate the helper's body under the same atoms (the atoms are
	// recognised by what they call, so the helper's parameter names do not matter); bounded depth
	if call, ok := x.(*ast.CallExpr); ok && e.inline != nil && e.depth < 3 {
		if decl, info := e.inline(call); decl != nil && decl.Body != nil {
			// the helper's parameters stand for the caller's argument expressions: the atoms, lookups and stores the
			// rule recognises are phrased over the caller's variables, so expressions met inside the helper are
			// rewritten (parameter -> argument) before they are shown to the rule's callbacks
			sub := e.subEnv(call, decl, info)
			var out bfOutcome
			if sub.run(decl.Body.List, &out) && out.Undecided == "" && out.Returned {
				return out.Value
			}
		}
	}
	return triUnknown
}

// subEnv builds the environment in which the body of an inlined helper is evaluated: the helper's parameters stand
// for the caller's argument expressions.
func (e *bfEnv) subEnv(call *ast.CallExpr, decl *ast.FuncDecl, info *types.Info) *bfEnv {
	subst := map[types.Object]ast.Expr{}
	i := 0
	if decl.Type.Params != nil {
		for _, f := range decl.Type.Params.List {
			for _, nm := range f.Names {
				if i < len(call.Args) {
					if o := info.Defs[nm]; o != nil {
						subst[o] = call.Args[i]
					}
				}
				i++
			}
		}
	}
	var rw func(x ast.Expr) ast.Expr
	rw = func(x ast.Expr) ast.Expr {
		switch t := x.(type) {
		case *ast.Ident:
			if o := info.Uses[t]; o != nil {
				if a, ok := subst[o]; ok {
					return a
				}
			}
		case *ast.ParenExpr:
			return &ast.ParenExpr{X: rw(t.X)}
		case *ast.UnaryExpr:
			return &ast.UnaryExpr{Op: t.Op, X: rw(t.X)}
		case *ast.BinaryExpr:
			return &ast.BinaryExpr{X: rw(t.X), Op: t.Op, Y: rw(t.Y)}
		case *ast.IndexExpr:
			return &ast.IndexExpr{X: rw(t.X), Index: rw(t.Index)}
		case *ast.SelectorExpr:
			return &ast.SelectorExpr{X: rw(t.X), Sel: t.Sel}
		case *ast.CallExpr:
			args := make([]ast.Expr, len(t.Args))
			for k, a := range t.Args {
				args[k] = rw(a)
			}
			return &ast.CallExpr{Fun: rw(t.Fun), Args: args}
		}
		return x
	}
	sub := &bfEnv{
		info:   info,
		atom:   func(x ast.Expr) (tri, bool) { return e.atom(rw(x)) },
		lookup: func(x ast.Expr) (tri, bool) { return e.lookup(rw(x)) },
		store:  func(x ast.Expr) (string, bool) { return e.store(rw(x)) },
		locals: map[types.Object]tri{}, inline: e.inline, depth: e.depth + 1,
	}
	return sub
}

// resolve replaces locals that stand for an expression by that expression (one level, structurally).
func (e *bfEnv) resolve(x ast.Expr) ast.Expr {
	if len(e.exprLocals) == 0 {
		return x
	}
	switch t := x.(type) {
	case *ast.Ident:
		if o := e.info.Uses[t]; o != nil {
			if d, ok := e.exprLocals[o]; ok {
				return d
			}
		}
	case *ast.ParenExpr:
		return &ast.ParenExpr{X: e.resolve(t.X)}
	case *ast.UnaryExpr:
		return &ast.UnaryExpr{Op: t.Op, X: e.resolve(t.X)}
	case *ast.BinaryExpr:
		return &ast.BinaryExpr{X: e.resolve(t.X), Op: t.Op, Y: e.resolve(t.Y)}
	}
	return x
}

// bind handles `x := <bool>` and `a, ok := m[k]`.
func (e *bfEnv) bind(as *ast.AssignStmt, out *bfOutcome) bool {
	if len(as.Rhs) == 1 && len(as.Lhs) == 2 {
		if ix, ok := ast.Unparen(as.Rhs[0]).(*ast.IndexExpr); ok {
			if v, known := e.lookup(ix.X); known {
				if id, ok := as.Lhs[1].(*ast.Ident); ok && id.Name != "_" {
					if o := e.info.ObjectOf(id); o != nil {
						e.locals[o] = v
					}
				}
				return true
			}
		}
		return false
	}
	if len(as.Lhs) == 1 && len(as.Rhs) == 1 {
		if ix, ok := ast.Unparen(as.Lhs[0]).(*ast.IndexExpr); ok {
			if eff, tracked := e.store(ix.X); tracked {
				out.Effects = append(out.Effects, eff)
				return true
			}
			return false
		}
		if id, ok := as.Lhs[0].(*ast.Ident); ok {
			if b, isB := e.info.TypeOf(as.Rhs[0]).Underlying().(*types.Basic); isB && b.Info()&types.IsBoolean != 0 {
				if o := e.info.ObjectOf(id); o != nil {
					e.locals[o] = e.eval(as.Rhs[0])
				}
				return true
			}
			// a non-boolean local (path := imageFile.Path()): remembered as a name for its expression
			if o := e.info.ObjectOf(id); o != nil {
				if e.exprLocals == nil {
					e.exprLocals = map[types.Object]ast.Expr{}
				}
				if _, dup := e.exprLocals[o]; dup {
					delete(e.exprLocals, o) // reassigned: no longer a fixed name
				} else {
					e.exprLocals[o] = as.Rhs[0]
				}
			}
			return true
		}
	}
	return false
}

// run interprets the statements; returns true when a return statement was executed.
func (e *bfEnv) run(stmts []ast.Stmt, out *bfOutcome) bool {
	for _, s := range stmts {
		if out.Undecided != "" {
			return true
		}
		switch x := s.(type) {
		case *ast.ReturnStmt:
			out.Returned = true
			if len(x.Results) >= 1 {
				out.Value = e.eval(x.Results[0])
				if out.Value == triUnknown {
					out.Undecided = "return value " + exprString(x.Results[0]) + " is not decided by the atoms"
				}
			}
			return true
		case *ast.AssignStmt:
			if e.onAssign != nil {
				if handled, v := e.onAssign(x); handled {
					out.Returned, out.Value = true, v
					return true
				}
			}
			if !e.bind(x, out) {
				out.Undecided = "unsupported assignment " + short(exprString(x.Lhs[0]), 40)
				return true
			}
		case *ast.DeclStmt, *ast.EmptyStmt:
		case *ast.BlockStmt:
			if e.run(x.List, out) {
				return true
			}
		case *ast.IfStmt:
			if x.Init != nil {
				as, ok := x.Init.(*ast.AssignStmt)
				if !ok || !e.bind(as, out) {
					out.Undecided = "unsupported if-init"
					return true
				}
			}
			switch e.eval(x.Cond) {
			case triTrue:
				if e.run(x.Body.List, out) {
					return true
				}
			case triFalse:
				if x.Else != nil {
					var list []ast.Stmt
					switch el := x.Else.(type) {
					case *ast.BlockStmt:
						list = el.List
					case *ast.IfStmt:
						list = []ast.Stmt{el}
					}
					if e.run(list, out) {
						return true
					}
				}
			default:
				out.Undecided = "condition " + short(exprString(x.Cond), 60) + " is not decided by the atoms"
				return true
			}
		case *ast.SwitchStmt:
			if x.Tag != nil || x.Init != nil {
				out.Undecided = "switch with tag or init"
				return true
			}
			var deflt *ast.CaseClause
			taken := false
			for _, cs := range x.Body.List {
				cc := cs.(*ast.CaseClause)
				if cc.List == nil {
					deflt = cc
					continue
				}
				v := triFalse
				for _, ce := range cc.List {
					v = triOr(v, e.eval(ce))
				}
				if v == triUnknown {
					out.Undecided = "case " + short(exprString(cc.List[0]), 60) + " is not decided by the atoms"
					return true
				}
				if v == triTrue {
					taken = true
					if bodyHasFallthrough(cc.Body) {
						out.Undecided = "fallthrough"
						return true
					}
					if e.run(cc.Body, out) {
						return true
					}
					break
				}
			}
			if !taken && deflt != nil {
				if e.run(deflt.Body, out) {
					return true
				}
			}
		case *ast.BranchStmt:
			if x.Tok == token.CONTINUE && x.Label == nil && e.continueAs != nil {
				out.Returned = true
				out.Value = *e.continueAs
				return true
			}
			out.Undecided = "unsupported branch statement " + x.Tok.String()
			return true
		case *ast.ExprStmt:
			// calls for effect are outside the fragment unless the caller's atom function accepts them
			if _, ok := e.atom(x.X); !ok {
				// a helper of the package called for its effect (`markPathAsUsed(set, path)`): its body is run in place
				if call, isCall := ast.Unparen(x.X).(*ast.CallExpr); isCall && e.inline != nil && e.depth < 3 {
					if decl, hinfo := e.inline(call); decl != nil && decl.Body != nil && decl.Type.Results == nil {
						sub := e.subEnv(call, decl, hinfo)
						var so bfOutcome
						sub.run(decl.Body.List, &so)
						if so.Undecided == "" {
							out.Effects = append(out.Effects, so.Effects...)
							continue
						}
					}
				}
				out.Undecided = "statement " + short(exprString(x.X), 40)
				return true
			}
		default:
			out.Undecided = fmt.Sprintf("unsupported statement %T", s)
			return true
		}
	}
	return false
}

func bodyHasFallthrough(stmts []ast.Stmt) bool {
	for _, s := range stmts {
		if b, ok := s.(*ast.BranchStmt); ok && b.Tok == token.FALLTHROUGH {
			return true
		}
	}
	return false
}

// bfEvalFunc evaluates body under one assignment.
func bfEvalFunc(info *types.Info, body *ast.BlockStmt, atom func(ast.Expr) (tri, bool), lookup func(ast.Expr) (tri, bool), store func(ast.Expr) (string, bool)) bfOutcome {
	e := &bfEnv{info: info, atom: atom, lookup: lookup, store: store, locals: map[types.Object]tri{}, inline: bfInline}
	var out bfOutcome
	if !e.run(body.List, &out) && out.Undecided == "" {
		out.Undecided = "function falls off its end without returning"
	}
	return out
}

// bfEvalLoopBody evaluates the body of a search loop under one assignment: `continue` yields notQualified.
func bfEvalLoopBody(info *types.Info, body *ast.BlockStmt, notQualified tri, atom func(ast.Expr) (tri, bool)) bfOutcome {
	e := &bfEnv{info: info, atom: atom, lookup: func(ast.Expr) (tri, bool) { return triUnknown, false }, store: func(ast.Expr) (string, bool) { return "", false }, locals: map[types.Object]tri{}, continueAs: &notQualified, inline: bfInline, onAssign: bfOnAssign}
	var out bfOutcome
	if !e.run(body.List, &out) && out.Undecided == "" {
		// falling off the end of a loop body is the same as continue
		out.Returned, out.Value = true, notQualified
	}
	return out
}

// bfInline is the resolver used by the evaluators; rules that want helper bodies followed set it for the duration of
// their evaluation (nil: calls that are not atoms stay undecided).
var bfInline func(call *ast.CallExpr) (*ast.FuncDecl, *types.Info)

// bfOnAssign is consulted by bfEvalLoopBody (set by a rule for the duration of its evaluation).
var bfOnAssign func(as *ast.AssignStmt) (handled bool, value tri)
