package main

import (
	"fmt"
	"go/token"
	"strings"

	"golang.org/x/tools/go/packages"
	"golang.org/x/tools/go/ssa"
)

// c15AtomicKept (ATOMIC-KEPT; C15, after round-4 seed C15-j): buf.yaml, buf.lock, buf.gen.yaml and buf.work.yaml are
// rewritten in place while editors and other buf processes read them, and the blobs of a file set are trusted by their
// presence. Both packages put their objects with storage.PutWithAtomic() today; a refactoring onto a helper that does
// not forward the option (storage.ForWriteObject(ctx, bucket, path, f) without options) keeps every error path intact
// and silently turns the write into truncate-then-write. For the packages listed, every call that creates an object -
// WriteBucket.Put, storage.PutPath, storage.ForWriteObject - passes an option that is the result of
// storage.PutWithAtomic().
var c15AtomicPackages = map[string]string{
	"private/bufpkg/bufconfig": "configuration files are replaced in place under concurrent readers",
	"private/bufpkg/bufcas":    "a blob of a file set is trusted because it is present",
}

func c15AtomicKept(c *Ctx) {
	const rule = "ATOMIC-KEPT"
	c.Rule(rule, "packages whose objects are trusted by readers as soon as they exist create every object with the atomic option", 2)
	p := c.P
	for _, rel := range sortedKeys(c15AtomicPackages) {
		pk := p.Pkg(rel)
		if pk == nil {
			c.Fail(rule, rel, token.NoPos, "package not found")
			continue
		}
		n := 0
		for _, sf := range p.SSAFuncsOf([]*packages.Package{pk}) {
			for _, f := range allSSAFuncs(sf) {
				k := 0
				for _, call := range callsIn(f) {
					creates := false
					var opts []ssa.Value
					switch {
					case call.Call.IsInvoke() && call.Call.Method.Name() == "Put" && strings.Contains(namedPath(call.Call.Value.Type()), "pkg/storage."):
						creates = true
						opts = call.Call.Args
					default:
						if o := staticCalleeObj(call.Call); o != nil && o.Pkg() != nil && strings.HasSuffix(o.Pkg().Path(), "private/pkg/storage") && (o.Name() == "PutPath" || o.Name() == "ForWriteObject") {
							creates = true
							opts = call.Call.Args
						}
					}
					if !creates {
						continue
					}
					n++
					k++
					atomic := false
					for _, a := range opts {
						for _, e := range append(variadicElems(a), a) {
							if dependsOnCall(e, func(cc *ssa.CallCommon) bool {
								return isFuncNamed(staticCalleeObj(cc), "private/pkg/storage", "", "PutWithAtomic")
							}) {
								atomic = true
							}
						}
					}
					c.Ob(rule, fmt.Sprintf("%s/put#%d", ssaFuncName(f), k), call.Pos(), atomic, true, "this call creates an object in a package where %s; storage.PutWithAtomic() is among its options: %v", c15AtomicPackages[rel], atomic)
				}
			}
		}
		if n == 0 {
			c.Fail(rule, rel, token.NoPos, "no object-creating call found in %s", rel)
		}
	}
}
