package main

import (
	"go/token"

	"golang.org/x/tools/go/packages"
	"golang.org/x/tools/go/ssa"
)

// errUnseenOnPath lists error results of calls that the function does test against nil somewhere, while some path
// leads from the call to a success return (`return …, nil`) without going through any block in which the error - or
// anything computed from it - is used at all: on that path nobody has looked at it.
//
//	err := write(w, f)
//	if data := f.ObjectData(); data != nil && err != nil { return wrap(data.Name(), err) }
//	return nil                                   // data == nil: err was never consulted
//
// The short-circuit puts the test of err behind a condition that has nothing to do with it. A use is any referrer
// (comparison, argument, store, return, conversion); values computed from the error (phis, joined or wrapped errors,
// interface conversions) carry the obligation on. Paths that leave through a panic or a non-nil error return are not
// success paths.
func errUnseenOnPath(f *ssa.Function) []ssa.Value {
	res := f.Signature.Results()
	if res.Len() == 0 || !isErrorType(res.At(res.Len()-1).Type()) || f.Recover != nil {
		return nil
	}
	var out []ssa.Value
	for _, b := range f.Blocks {
		for _, ins := range b.Instrs {
			var v ssa.Value
			switch t := ins.(type) {
			case *ssa.Call:
				v = t
			case *ssa.Extract:
				if _, isCall := t.Tuple.(*ssa.Call); isCall {
					v = t
				}
			}
			if v == nil || !isErrorType(v.Type()) || v.Referrers() == nil {
				continue
			}
			// blocks that use the error or something computed from it; is it nil-tested anywhere?
			useBlocks := map[*ssa.BasicBlock]bool{}
			tested := false
			seen := map[ssa.Value]bool{}
			var follow func(x ssa.Value)
			follow = func(x ssa.Value) {
				if seen[x] || x.Referrers() == nil {
					return
				}
				seen[x] = true
				for _, r := range *x.Referrers() {
					if _, dbg := r.(*ssa.DebugRef); dbg {
						continue
					}
					if ph, ok := r.(*ssa.Phi); ok {
						follow(ph) // a merge is not a look
						continue
					}
					if rb := r.Block(); rb != nil {
						useBlocks[rb] = true
					}
					if bo, ok := r.(*ssa.BinOp); ok {
						if _, _, isNil := nilCompare(bo); isNil {
							tested = true
						}
					}
				}
			}
			follow(v)
			if !tested || useBlocks[b] {
				continue // never nil-tested: other rules (errcheck-style) decide those; used right where it is made: seen on every path
			}
			// a success return reachable from b avoiding every use block
			reach := map[*ssa.BasicBlock]bool{b: true}
			work := []*ssa.BasicBlock{b}
			found := false
			for len(work) > 0 && !found {
				x := work[len(work)-1]
				work = work[:len(work)-1]
				if x != b || true {
					if r, ok := x.Instrs[len(x.Instrs)-1].(*ssa.Return); ok && x != b {
						last := r.Results[len(r.Results)-1]
						if isNilConst(last) {
							found = true
							break
						}
					}
				}
				for _, s := range x.Succs {
					if reach[s] || useBlocks[s] {
						continue
					}
					reach[s] = true
					work = append(work, s)
				}
			}
			if found {
				out = append(out, v)
			}
		}
	}
	return out
}

// ruleErrPathUnseen (ERR-PATH-UNSEEN): zero instances are expected.
func ruleErrPathUnseen(c *Ctx, rule string, pkgs []*packages.Package) {
	c.Rule(rule, "an error that is tested somewhere is looked at on every path from the call to a success return", 0)
	p := c.P
	n, fns := 0, 0
	for _, sf := range p.SSAFuncsOf(pkgs) {
		for _, f := range allSSAFuncs(sf) {
			fns++
			for _, v := range errUnseenOnPath(f) {
				n++
				pos := v.Pos()
				if ex, ok := v.(*ssa.Extract); ok && pos == token.NoPos {
					pos = ex.Tuple.Pos()
				}
				what := "a call"
				switch t := v.(type) {
				case *ssa.Call:
					what = calleeText(&t.Call)
				case *ssa.Extract:
					what = calleeText(&t.Tuple.(*ssa.Call).Call)
				}
				c.Ob(rule, ssaFuncName(f)+"/"+what, pos, false, true, "the error of %s is tested on some paths, but a `return nil` is reachable from the call without passing any use of it", what)
			}
		}
	}
	c.Ob(rule, "functions-scanned", token.NoPos, n == 0, fns > 0, "%d functions scanned, %d errors unseen on a success path", fns, n)
}

func calleeText(cc *ssa.CallCommon) string {
	if o := staticCalleeObj(cc); o != nil {
		return o.Name()
	}
	if cc.IsInvoke() {
		return cc.Method.Name()
	}
	return cc.Value.Name()
}
