package main

import (
	"fmt"
	"go/types"

	"golang.org/x/tools/go/packages"
	"golang.org/x/tools/go/ssa"
)

// ruleWithFlagNoop (WITH-FLAG-NOOP; C01 and C11, after round-5 seed C01-n): a function that takes a value and a bool
// and returns "the value with that flag" may hand back its argument unchanged only when the argument already has the
// requested setting - so the condition under which it does depends on the bool parameter. (Functions of exactly two
// parameters, the value and the flag: builders returning their receiver and accumulating walks are a different idiom.) `if f.IsImport() { return f }`
// in ImageFileWithIsImport(f, isImport) keeps an import an import when the caller asked for a non-import: a file named
// by --path in an image that already contains it as an import stays marked as an import (and is then dropped by
// --exclude-imports). For every function with a bool parameter that returns one of its other parameters (or its
// receiver) as is, each such return lies under a condition that reads the bool parameter.
func ruleWithFlagNoop(c *Ctx, rule string, pkgs []*packages.Package, min int) {
	c.Rule(rule, "a with-flag function returns its argument unchanged only under a condition on the requested flag", min)
	p := c.P
	for _, sf := range p.SSAFuncsOf(pkgs) {
		var flags []*ssa.Parameter
		for _, prm := range sf.Params {
			if b, ok := prm.Type().Underlying().(*types.Basic); ok && b.Kind() == types.Bool {
				flags = append(flags, prm)
			}
		}
		// the idiom: exactly the value and the flag (a receiver counts as the value)
		if len(flags) != 1 || sf.Signature.Results().Len() == 0 || len(sf.Params) != 2 {
			continue
		}
		flag := flags[0]
		k := 0
		for _, r := range returnsOf(sf) {
			if len(r.Results) == 0 {
				continue
			}
			v := stripConv(spilledResult(r, r.Results[0]))
			prm, ok := v.(*ssa.Parameter)
			if !ok || prm == flag || !types.Identical(prm.Type(), sf.Signature.Results().At(0).Type()) {
				// also `return x` where the result type is an interface the parameter implements
				if !ok || prm == flag {
					continue
				}
				if _, isIface := sf.Signature.Results().At(0).Type().Underlying().(*types.Interface); !isIface {
					continue
				}
			}
			k++
			onFlag := false
			for _, ge := range guardingEdges(r.Block()) {
				if dependsOnValue(ge.If.Cond, flag) {
					onFlag = true
				}
			}
			c.Ob(rule, fmt.Sprintf("%s/unchanged-return#%d", ssaFuncName(sf), k), r.Pos(), onFlag, true, "%s is returned unchanged under a condition that reads the requested flag %s: %v", prm.Name(), flag.Name(), onFlag)
		}
	}
}
