package main

import (
	"fmt"
	"go/token"

	"golang.org/x/tools/go/packages"
	"golang.org/x/tools/go/ssa"
)

// c16BinaryBeforeBuiltin (BINARY-BEFORE-BUILTIN; C16, after round-4 seed C16-k): a v1 plugin given by name only runs
// `protoc-gen-NAME` when such a binary is on the PATH and falls back to protoc's built-in generator otherwise. The
// executor (bufprotopluginexec) and the writer that spells the same plugin out for a v2 buf.gen.yaml must resolve the
// name in the same order, or migration changes which plugin runs. Wherever the table of protoc built-in names is
// consulted, a PATH lookup (exec.LookPath, directly or through a module wrapper) has been made on every path to it.
func c16BinaryBeforeBuiltin(c *Ctx) {
	const rule = "BINARY-BEFORE-BUILTIN"
	c.Rule(rule, "the protoc built-in table is consulted only after a PATH lookup, by the executor and by the config writer alike", 2)
	p := c.P
	reachesLookPath := func(cc *ssa.CallCommon) bool {
		if o := staticCalleeObj(cc); o != nil && o.Pkg() != nil && o.Pkg().Path() == "os/exec" && o.Name() == "LookPath" {
			return true
		}
		if g := cc.StaticCallee(); g != nil {
			for _, h := range reachSSA(g, 2) {
				for _, call := range callsIn(h) {
					if o := staticCalleeObj(call.Call); o != nil && o.Pkg() != nil && o.Pkg().Path() == "os/exec" && o.Name() == "LookPath" {
						return true
					}
				}
			}
		}
		return false
	}
	n := 0
	for _, pk := range p.ModulePkgs() {
		for _, sf := range p.SSAFuncsOf([]*packages.Package{pk}) {
			for _, f := range allSSAFuncs(sf) {
				k := 0
				for _, b := range f.Blocks {
					for _, ins := range b.Instrs {
						lk, ok := ins.(*ssa.Lookup)
						if !ok {
							continue
						}
						isTable := false
						sliceBack(lk.X, func(x ssa.Value) bool {
							if g, ok := x.(*ssa.Global); ok && g.Name() == "ProtocProxyPluginNames" {
								isTable = true
							}
							return !isTable
						})
						if !isTable {
							continue
						}
						n++
						k++
						before := false
						for _, call := range callsIn(f) {
							if reachesLookPath(call.Call) && instrDominates(call.Instr, lk) {
								before = true
							}
						}
						c.Ob(rule, fmt.Sprintf("%s/builtin-lookup#%d", ssaFuncName(f), k), lk.Pos(), before, true, "a PATH lookup dominates this consultation of ProtocProxyPluginNames: %v", before)
					}
				}
			}
		}
	}
	if n < 2 {
		c.Fail(rule, "anchor", token.NoPos, "expected the executor and the writer to consult ProtocProxyPluginNames, found %d site(s)", n)
	}
}
