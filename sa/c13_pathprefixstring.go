package main

import (
	"go/token"
	"strings"

	"golang.org/x/tools/go/packages"
	"golang.org/x/tools/go/ssa"
)

// c13PathPrefixByString (PATH-PREFIX-BY-STRING; C13 and C14, after round-6 seed C13-r): whether one file-system path
// lies below another is a question about components. In the packages that turn bucket paths into OS paths, no
// strings.HasPrefix / HasSuffix / TrimPrefix / CutPrefix is applied to a value that was produced by path arithmetic
// (path/filepath, normalpath, Getwd): `/w/proj-gen/out` has the string prefix `/w/proj` and is not below it; a
// "remainder after the working directory" computed that way sends every operation of the bucket to another directory.
func c13PathPrefixByString(c *Ctx) {
	const rule = "PATH-PREFIX-BY-STRING"
	c.Rule(rule, "OS paths produced by path arithmetic are compared and cut by components, never as strings", 0)
	p := c.P
	var pkgs []*packages.Package
	for _, rel := range []string{"private/pkg/filepathext", "private/pkg/storage/storageos", "private/pkg/osext"} {
		if q := p.Pkg(rel); q != nil {
			pkgs = append(pkgs, q)
		}
	}
	n, calls := 0, 0
	isPathProducer := func(cc *ssa.CallCommon) bool {
		o := staticCalleeObj(cc)
		if o == nil || o.Pkg() == nil {
			return false
		}
		pp := o.Pkg().Path()
		if pp == "path/filepath" || pp == "path" || strings.HasSuffix(pp, "/private/pkg/normalpath") {
			return true
		}
		return o.Name() == "Getwd"
	}
	for _, sf := range p.SSAFuncsOf(pkgs) {
		for _, f := range allSSAFuncs(sf) {
			for _, call := range callsIn(f) {
				o := staticCalleeObj(call.Call)
				if o == nil || o.Pkg() == nil || o.Pkg().Path() != "strings" {
					continue
				}
				switch o.Name() {
				case "HasPrefix", "HasSuffix", "TrimPrefix", "CutPrefix":
				default:
					continue
				}
				calls++
				onPath := 0
				for _, a := range call.Call.Args {
					if dependsOnCall(a, isPathProducer) {
						onPath++
					}
				}
				if onPath >= 2 {
					n++
					c.Ob(rule, ssaFuncName(f)+"/strings."+o.Name(), call.Pos(), false, true, "strings.%s relates two values produced by path arithmetic: a sibling that shares a spelling prefix counts as contained", o.Name())
				}
			}
		}
	}
	c.Ob(rule, "functions-scanned", token.NoPos, n == 0, len(pkgs) > 0, "%d packages, %d strings prefix/suffix calls, %d relating two path values", len(pkgs), calls, n)
}
