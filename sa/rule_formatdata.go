package main

import (
	"go/token"

	"golang.org/x/tools/go/packages"
	"golang.org/x/tools/go/ssa"
)

// formatIsData lists fmt.Printf/Fprintf/Sprintf/Errorf/Fscanf-style calls that have a non-constant format and no
// operands: with nothing to format, the "format" is the data itself, and every '%' in it is rewritten
// (`fmt.Fprintf(w, string(formatted))` turns `50%` in a comment into `50%!(NOVERB)`); Fprint/WriteString/Write was
// meant. A non-constant format WITH operands is a computed format and is left alone.
func formatIsData(f *ssa.Function) (sites int, bad []*ssa.CallCommon) {
	for _, call := range callsIn(f) {
		o := staticCalleeObj(call.Call)
		if o == nil || o.Pkg() == nil || o.Pkg().Path() != "fmt" {
			continue
		}
		idx := -1
		switch o.Name() {
		case "Sprintf", "Errorf", "Printf":
			idx = 0
		case "Fprintf":
			idx = 1
		}
		if idx < 0 || idx >= len(call.Call.Args) {
			continue
		}
		sites++
		if _, isConst := stripConv(call.Call.Args[idx]).(*ssa.Const); isConst {
			continue
		}
		// the variadic operand list: nil slice constant when there are no operands
		if idx+1 < len(call.Call.Args) {
			if cst, ok := call.Call.Args[idx+1].(*ssa.Const); ok && cst.IsNil() {
				bad = append(bad, call.Call)
			}
		}
	}
	return sites, bad
}

// ruleFormatData (FORMAT-DATA): zero instances are expected.
func ruleFormatData(c *Ctx, rule string, pkgs []*packages.Package) {
	c.Rule(rule, "data is never printed by passing it as the format of a fmt formatting call", 0)
	p := c.P
	n, fns, sites := 0, 0, 0
	for _, sf := range p.SSAFuncsOf(pkgs) {
		for _, f := range allSSAFuncs(sf) {
			fns++
			s, bad := formatIsData(f)
			sites += s
			for _, cc := range bad {
				n++
				c.Ob(rule, ssaFuncName(f)+"/fmt."+staticCalleeObj(cc).Name(), cc.Pos(), false, true, "fmt.%s is called with a computed format and no operands: the data is interpreted as a format and every %% in it is rewritten", staticCalleeObj(cc).Name())
			}
		}
	}
	c.Ob(rule, "functions-scanned", token.NoPos, n == 0, fns > 0, "%d functions scanned, %d fmt formatting calls, %d with data as the format", fns, sites, n)
}
