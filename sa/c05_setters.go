package main

import (
	"go/ast"
	"go/token"
	"go/types"

	"golang.org/x/tools/go/packages"
)

// ruleSettersCalled (SETTERS-CALLED; C05, after round-4 seed C05-k): the lint and breaking rules read what
// bufprotosource recorded about a file - IsPublic, IsWeak, IsUnused on an import, and so on - through accessors whose
// fields are filled in by small setter methods while the file is built. A setter that no longer has a call site (two
// sibling loops calling the same setter after a copy-paste) leaves its field at the zero value for every input: the
// rule that reads it never fires, and the flag that was set twice makes another rule fire instead. For every method
// whose whole body assigns fields of its receiver, the rule demands at least one call site in the package.
func ruleSettersCalled(c *Ctx, rule string, pk *packages.Package, min int) {
	c.Rule(rule, "every setter method of the source model is called somewhere (no recorded property silently stays at its zero value)", min)
	p := c.P
	info := pk.TypesInfo
	called := map[*types.Func]int{}
	for _, f := range pk.Syntax {
		ast.Inspect(f, func(n ast.Node) bool {
			switch x := n.(type) {
			case *ast.CallExpr:
				if fn := Callee(info, x); fn != nil {
					called[fn]++
				}
			case *ast.SelectorExpr:
				// method values
				if fn, ok := info.Uses[x.Sel].(*types.Func); ok {
					// a method value or method expression that is not itself the callee of a call (handed on as a value)
					if pc, isCall := p.Parent(x).(*ast.CallExpr); !isCall || ast.Unparen(pc.Fun) != ast.Expr(x) {
						called[fn]++
					}
				}
			}
			return true
		})
	}
	n := 0
	for _, fr := range p.FuncsOf(pk) {
		d := fr.Decl
		if d.Recv == nil || d.Body == nil || len(d.Body.List) == 0 || len(d.Recv.List) != 1 || len(d.Recv.List[0].Names) != 1 || d.Name.IsExported() {
			continue
		}
		recv := info.Defs[d.Recv.List[0].Names[0]]
		setter := recv != nil
		for _, st := range d.Body.List {
			as, ok := st.(*ast.AssignStmt)
			if !ok || as.Tok != token.ASSIGN {
				setter = false
				break
			}
			for _, l := range as.Lhs {
				sel, ok := ast.Unparen(l).(*ast.SelectorExpr)
				if !ok || identObj(info, sel.X) != recv {
					setter = false
				}
			}
		}
		if !setter {
			continue
		}
		n++
		c.Ob(rule, fr.ID(), d.Pos(), called[fr.Obj] > 0, true, "setter %s has %d call site(s) in the package", d.Name.Name, called[fr.Obj])
	}
	if n == 0 {
		c.Fail(rule, "anchor", token.NoPos, "no setter methods found")
	}
}
