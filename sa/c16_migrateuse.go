package main

import (
	"fmt"
	"go/token"
	"strings"

	"golang.org/x/tools/go/packages"
	"golang.org/x/tools/go/ssa"
)

// c16MigrateUseList (MIGRATE-USE-LIST; C16, written for F31): the migrator first translates use/except literally and,
// when that selects a different rule set than the old file did, *extends* the translated lists: rule IDs the old
// configuration ran and the translation lost are appended to `use`. Two things must hold for the extended list to
// mean what the old file meant, and both are visible in the code that builds it:
//
//	empty-use  an empty `use` means "the default rules"; appending IDs to it replaces the defaults instead of adding to
//	           them, so the emptiness of the list that is extended must be consulted on the way (and the defaults
//	           spelled out);
//	v2-ids     an ID can be asked for in a v2 file only if v2 has such a rule (FIELD_NO_DESCRIPTOR exists in v1beta1
//	           only): the appended IDs must have been checked against the v2 rule set (Client.AllRules for the v2 file
//	           version) - otherwise the migrated file fails with "not a known rule or category ID".
//
// Decided for every NewEnabledCheckConfig call of bufmigrate whose `use` argument is built with append.
func c16MigrateUseList(c *Ctx) {
	const rule = "MIGRATE-USE-LIST"
	c.Rule(rule, "rule IDs appended to a migrated use list exist in v2, and an empty (= default) use list is not silently replaced by them", 2)
	p := c.P
	pk := p.Pkg("private/buf/bufmigrate")
	if pk == nil {
		c.Fail(rule, "anchor", token.NoPos, "bufmigrate not found")
		return
	}
	n := 0
	for _, sf := range p.SSAFuncsOf([]*packages.Package{pk}) {
		k := 0
		for _, call := range callsIn(sf) {
			o := staticCalleeObj(call.Call)
			if o == nil || !isFuncNamed(o, "private/bufpkg/bufconfig", "", "NewEnabledCheckConfig") || len(call.Call.Args) < 3 {
				continue
			}
			use := call.Call.Args[1]
			var app *ssa.Call
			sliceBack(use, func(x ssa.Value) bool {
				if cl, ok := x.(*ssa.Call); ok && isBuiltinCall(&cl.Call, "append") && app == nil {
					app = cl
				}
				return app == nil
			})
			if app == nil || len(app.Call.Args) < 2 {
				continue
			}
			k++
			n++
			extra := app.Call.Args[1]
			inV2 := dependsOnCall(extra, func(cc *ssa.CallCommon) bool {
				if cc.IsInvoke() {
					return cc.Method.Name() == "AllRules"
				}
				co := staticCalleeObj(cc)
				return co != nil && co.Name() == "AllRules"
			})
			c.Ob(rule, fmt.Sprintf("%s/use#%d/v2-ids", ssaFuncName(sf), k), call.Pos(), inV2, true, "the IDs appended to use were checked against the v2 rule set (AllRules): %v", inV2)
			// the emptiness of a use list is consulted in this function
			emptiness := false
			for _, other := range callsIn(sf) {
				if !isBuiltinCall(other.Call, "len") || len(other.Call.Args) != 1 {
					continue
				}
				if !dependsOnCall(other.Call.Args[0], func(cc *ssa.CallCommon) bool {
					return cc.IsInvoke() && strings.HasPrefix(cc.Method.Name(), "UseIDs")
				}) {
					continue
				}
				if ov, ok := other.Instr.(ssa.Value); ok && ov.Referrers() != nil {
					for _, r := range *ov.Referrers() {
						if _, isCmp := r.(*ssa.BinOp); isCmp {
							emptiness = true
						}
					}
				}
			}
			c.Ob(rule, fmt.Sprintf("%s/use#%d/empty-use", ssaFuncName(sf), k), call.Pos(), emptiness, true, "the length of the use list that is extended is tested (empty means the defaults, which appending would replace): %v", emptiness)
		}
	}
	if n == 0 {
		c.Fail(rule, "anchor", token.NoPos, "no NewEnabledCheckConfig call with an appended use list found in bufmigrate")
	}
}
