package main

// C09 — the module cache never serves wrong content (ordering / typestate skeleton).

import (
	"go/ast"
	"go/token"
	"go/types"
	"strings"

	"golang.org/x/tools/go/packages"
	"golang.org/x/tools/go/ssa"
)

func init() {
	register(&propCheck{
		ID: "C09",
		Explanation: "Decides the ordering/typestate skeleton of the cache protocol from the SSA and CFG of bufmodulestore, bufmodule and bufmodulecache: " +
			"(1) the completion marker (storage.PutPath of externalModuleDataFileName; in tar mode the single archive Put) is written with PutWithAtomic; " +
			"(2) no write is reachable after the marker write; (3) the marker write executes only on the nil edge of the error of every fallible call that can " +
			"precede it (so a failed copy or side-file write never reaches it) — the only tolerated non-nil edge is the not-exist classification of the marker " +
			"re-read; (4) readers construct ModuleData only after a successful marker read and on the valid edge of isValid(), and collect 'found' only on err == nil; " +
			"(5) every path to the marker read / to any cache write passes a lock acquisition (or the tar branch), a marker re-check lies between Lock and the first " +
			"write, every Unlocker is released by a deferred Unlock; (6) each ModuleData accessor calls checkDigest first and uses a raw getter only on its nil edge; " +
			"checkDigest returns nil only on the true edge of DigestEqual; (7) the cache provider re-reads the store after putting and fails on a still-missing key; " +
			"plus R-DEFER and R-ERRUSE on the anchored packages. NOT decided: crash points inside a storage operation, I/O error sequences, cross-process interleavings.",
		Assumptions: []string{
			"storage.PutPath with PutWithAtomic publishes the object all-or-nothing (C15 decides the writer's typestate)",
			"filelock provides mutual exclusion between processes",
		},
		Run: runC09,
	})
}

// errValueOf returns the SSA value carrying the error result of a call (nil when none).
func errValueOf(call ssaCall) ssa.Value {
	if call.Value == nil {
		return nil
	}
	sig := call.Call.Signature()
	if !lastResultIsError(sig) {
		return nil
	}
	n := sig.Results().Len()
	if n == 1 {
		return call.Value
	}
	if refs := call.Value.Referrers(); refs != nil {
		for _, r := range *refs {
			if ex, ok := r.(*ssa.Extract); ok && ex.Index == n-1 {
				return ex
			}
		}
	}
	return nil
}

func blockReaches(from, to *ssa.BasicBlock) bool {
	if from == to {
		return true
	}
	seen := map[*ssa.BasicBlock]bool{from: true}
	work := []*ssa.BasicBlock{from}
	for len(work) > 0 {
		b := work[len(work)-1]
		work = work[:len(work)-1]
		for _, s := range b.Succs {
			if s == to {
				return true
			}
			if !seen[s] {
				seen[s] = true
				work = append(work, s)
			}
		}
	}
	return false
}

// blockReachesAvoiding: is `to` reachable from `from` without entering block avoid (from == avoid counts as entering)?
func blockReachesAvoiding(from, to, avoid *ssa.BasicBlock) bool {
	if from == avoid {
		return false
	}
	if from == to {
		return true
	}
	seen := map[*ssa.BasicBlock]bool{from: true}
	work := []*ssa.BasicBlock{from}
	for len(work) > 0 {
		b := work[len(work)-1]
		work = work[:len(work)-1]
		for _, s := range b.Succs {
			if s == avoid || seen[s] {
				continue
			}
			if s == to {
				return true
			}
			seen[s] = true
			work = append(work, s)
		}
	}
	return false
}

// instrReaches: can `to` execute after `from` (same function)?
func instrReaches(from, to ssa.Instruction) bool {
	return instrReachesAvoiding(from, to, nil)
}

// condPolarity strips logical negations.
func condPolarity(cond ssa.Value) (ssa.Value, bool) {
	pos := true
	for {
		u, ok := cond.(*ssa.UnOp)
		if !ok || u.Op != token.NOT {
			return cond, pos
		}
		cond = u.X
		pos = !pos
	}
}

// isGlobalNamed reports whether v is a load of (or the address of) the package-level variable name.
func isGlobalNamed(v ssa.Value, name string) bool {
	v = stripConv(v)
	if u, ok := v.(*ssa.UnOp); ok && u.Op == token.MUL {
		v = u.X
	}
	g, ok := v.(*ssa.Global)
	return ok && g.Name() == name
}

func isConstString(v ssa.Value, s string) bool {
	c, ok := stripConv(v).(*ssa.Const)
	return ok && c.Value != nil && c.Value.ExactString() == `"`+s+`"`
}

func runC09(c *Ctx) {
	p := c.P
	pkStore := p.Pkg("private/bufpkg/bufmodule/bufmodulestore")
	if pkStore == nil {
		c.Rule("ANCHOR", "anchored packages exist", 1)
		c.Fail("ANCHOR", "bufmodulestore", token.NoPos, "package not found")
		return
	}
	// the marker name: a package-level string used as the path of a PutPath with PutWithAtomic
	isMarkerPath := func(v ssa.Value) bool {
		return isGlobalNamed(v, "externalModuleDataFileName") || isConstString(v, "module.yaml")
	}
	isStorageFn := func(cc *ssa.CallCommon, name string) bool {
		return calleeIs(staticCalleeObj(cc), "private/pkg/storage", name)
	}

	c.Rule("MARKER-ATOMIC", "the completion marker (and the tar archive) is written with PutWithAtomic", 2)
	c.Rule("MARKER-LAST", "no cache write is reachable after the marker write", 1)
	c.Rule("MARKER-AFTER-SUCCESS", "the marker write executes only on the nil edge of the error of every fallible call that can precede it", 10)
	c.Rule("READER", "readers trust only a present, valid marker", 4)
	c.Rule("LOCKS", "marker reads and cache writes happen under the file lock; a re-check lies between Lock and the first write; unlockers are released", 6)
	c.Rule("TAMPER", "every ModuleData accessor verifies the digest before handing out content", 6)
	c.Rule("PROVIDER", "the cache provider re-reads the store after putting and fails when a key is still missing", 3)
	c.Rule("R-DEFER", "deferred assignments to named error results keep the body's error (anchored packages)", 5)
	c.Rule("R-ERRUSE", "error results are consumed (anchored packages)", 30)

	var pkgs []*packages.Package
	for _, rel := range []string{"private/bufpkg/bufmodule/bufmodulestore", "private/bufpkg/bufmodule/bufmodulecache", "private/pkg/filelock", "private/pkg/storage", "private/pkg/storage/storageos", "private/buf/bufcli"} {
		if pk := p.Pkg(rel); pk != nil {
			pkgs = append(pkgs, pk)
		}
	}
	c.Rule("R-CLOSE", "writers used by the cache store are closed on every path and report their Close error on success", 5)
	c.Rule("ATOMIC-THROUGH-WRAPPERS", "bucket wrappers forward put options, so PutWithAtomic reaches the disk bucket through the mapped cache view", 2)
	ruleClose(c, "R-CLOSE", pkgs, func(string) (bool, string) { return true, "" })
	rulePutForwarding(c, "ATOMIC-THROUGH-WRAPPERS")
	ruleDefer(c, "R-DEFER", pkgs)
	ruleStaleErr(c, "R-STALE-ERR", pkgs)
	c09FileLock(c, pkStore)
	c09EntryKey(c)
	c15PutAllGiven(c)
	c09CtxErrRecorded(c)
	{
		op := append([]*packages.Package{}, pkgs...)
		if q := p.Pkg("private/bufpkg/bufmodule"); q != nil {
			op = append(op, q)
		}
		ruleOnceResultLost(c, "ONCE-RESULT-LOST", op)
		ruleJoinedErrWhole(c, "PARALLEL-ERR-WHOLE", op, 1)
	}
	c09ExpectedFromRequest(c, pkStore)
	c09RevalidateUnconditional(c, pkStore, isMarkerPath)
	ruleErrUse(c, "R-ERRUSE", pkgs, func(string) (bool, string) { return true, "" }, c15AllowedErrUse)

	// ---- writer side
	var putFn *ssa.Function
	var marker ssaCall
	for _, sf := range p.SSAFuncsOf([]*packages.Package{pkStore}) {
		for _, call := range callsIn(sf) {
			if isStorageFn(call.Call, "PutPath") && len(call.Call.Args) >= 3 && isMarkerPath(call.Call.Args[2]) {
				putFn, marker = sf, call
			}
		}
	}
	if putFn == nil {
		c.Fail("MARKER-ATOMIC", "anchor", token.NoPos, "no storage.PutPath(…, externalModuleDataFileName, …) found in bufmodulestore")
		return
	}
	pf := ssaFuncName(putFn)
	// (1) atomic
	atomic := false
	if len(marker.Call.Args) >= 5 {
		atomic = dependsOnCall(marker.Call.Args[4], func(cc *ssa.CallCommon) bool { return isStorageFn(cc, "PutWithAtomic") })
	}
	c.Ob("MARKER-ATOMIC", pf+"/marker", marker.Pos(), atomic, true, "marker PutPath carries storage.PutWithAtomic(): %v", atomic)
	// tar: the single Put of the archive
	cacheTarPutAtomic(c, "MARKER-ATOMIC", pkStore)
	// (2) marker last + (3) marker only after success
	isWrite := func(cc *ssa.CallCommon) bool {
		fn := staticCalleeObj(cc)
		if fn == nil {
			return false
		}
		for _, n := range []string{"Copy", "CopyPath", "CopyReader", "CopyReadObject", "PutPath"} {
			if calleeIs(fn, "private/pkg/storage", n) {
				return true
			}
		}
		if cc.IsInvoke() && (fn.Name() == "Put" || fn.Name() == "Delete" || fn.Name() == "DeleteAll") {
			return strings.HasSuffix(namedPath(cc.Value.Type()), "private/pkg/storage.WriteBucket") || strings.HasSuffix(namedPath(cc.Value.Type()), "private/pkg/storage.ReadWriteBucket")
		}
		return false
	}
	after := 0
	for _, call := range callsIn(putFn) {
		if call.Instr == marker.Instr || !isWrite(call.Call) {
			continue
		}
		if instrReaches(marker.Instr, call.Instr) {
			after++
			c.Ob("MARKER-LAST", pf+"/write-after-marker", call.Pos(), false, true, "write %s is reachable after the marker write", calleeName(call.Call))
		}
	}
	if after == 0 {
		c.Ob("MARKER-LAST", pf+"/no-write-after-marker", marker.Pos(), true, true, "no write call is reachable after the marker write")
	}
	nPre := 0
	checkPre := func(putFn *ssa.Function, markerInstr ssa.Instruction, pf string) {
		for _, call := range callsIn(putFn) {
			if call.Instr == markerInstr || call.Value == nil {
				continue
			}
			ev := errValueOf(call)
			if ev == nil {
				continue
			}
			if !instrReaches(call.Instr, markerInstr) {
				continue
			}
			nPre++
			name := calleeName(call.Call)
			inst := pf + "/" + name
			// the tolerated classification: re-read of the marker itself (not-exist means "go on and write")
			isMarkerRead := isStorageFn(call.Call, "ReadPath") && len(call.Call.Args) >= 3 && isMarkerPath(call.Call.Args[2])
			tested := false
			leak := ""
			if isMarkerRead {
				// gate: a nil-test T of the error dominating the marker write whose failing edge leads to an
				// errors.Is classification; the not-classified (errors.Is false) edge must not reach the marker.
				gate := false
				for _, blk := range putFn.Blocks {
					i := ifOf(blk)
					if i == nil {
						continue
					}
					x, trueIsNonNil, ok := nilCompare(i.Cond)
					if !ok || stripConv(x) != ev || blockReachesAvoiding(call.Instr.Block(), markerInstr.Block(), blk) {
						continue // some path from the read to the marker write bypasses this test
					}
					tested = true
					nonNilSucc := blk.Succs[1]
					if trueIsNonNil {
						nonNilSucc = blk.Succs[0]
					}
					for _, cb := range putFn.Blocks {
						ci := ifOf(cb)
						if ci == nil || !nonNilSucc.Dominates(cb) {
							continue
						}
						cv, pos := condPolarity(ci.Cond)
						call, isCall := cv.(*ssa.Call)
						if !isCall || !calleeIs(staticCalleeObj(&call.Call), "errors", "Is") || stripConv(call.Call.Args[0]) != ev {
							continue
						}
						isFalseSucc := cb.Succs[1]
						if !pos {
							isFalseSucc = cb.Succs[0]
						}
						if !blockReaches(isFalseSucc, markerInstr.Block()) {
							gate = true
						}
					}
				}
				if tested && !gate {
					leak = "marker re-read error reaches the marker write without an errors.Is(err, fs.ErrNotExist) classification"
				}
			} else {
				for _, blk := range putFn.Blocks {
					i := ifOf(blk)
					if i == nil {
						continue
					}
					x, trueIsNonNil, ok := nilCompare(i.Cond)
					if !ok || stripConv(x) != ev {
						continue
					}
					tested = true
					nonNilSucc := blk.Succs[1]
					if trueIsNonNil {
						nonNilSucc = blk.Succs[0]
					}
					if blockReaches(nonNilSucc, markerInstr.Block()) && !edgeDominates(blk, !trueIsNonNil, markerInstr.Block()) {
						leak = "the marker write is reachable from the failing edge of this call"
					}
				}
			}
			switch {
			case !tested && valueConsumedOnlyByReturn(ev):
				c.Ob("MARKER-AFTER-SUCCESS", inst, call.Pos(), true, false, "error is returned directly")
			case !tested:
				c.Ob("MARKER-AFTER-SUCCESS", inst, call.Pos(), false, true, "error of %s is never tested although the marker write can follow it", name)
			case leak != "":
				c.Ob("MARKER-AFTER-SUCCESS", inst, call.Pos(), false, true, "%s", leak)
			default:
				msg := "marker write lies only on the nil edge of this call's error"
				if isMarkerRead {
					msg = "marker re-read: failing edge continues only through the errors.Is(err, fs.ErrNotExist) classification"
				}
				c.Ob("MARKER-AFTER-SUCCESS", inst, call.Pos(), true, true, "%s", msg)
			}
		}
	}
	checkPre(putFn, marker.Instr, pf)
	// the write phase may have been split off: the fallible calls that precede the call of the function holding the
	// marker write, in its (single) caller, are held to the same rule - the call stands for the marker write
	writerEntry := putFn
	holdsLock := func(f *ssa.Function) bool {
		for _, call := range callsDeep(f) {
			if call.Call.IsInvoke() && call.Call.Method.Name() == "Lock" && strings.HasSuffix(namedPath(call.Call.Value.Type()), "filelock.Locker") {
				return true
			}
		}
		return false
	}
	for level, cur := 0, putFn; level < 2 && !holdsLock(cur); level++ {
		var callers []ssaCall
		var callerFn *ssa.Function
		for _, sf := range p.SSAFuncsOf([]*packages.Package{pkStore}) {
			for _, f := range allSSAFuncs(sf) {
				for _, call := range callsIn(f) {
					if call.Call.StaticCallee() == cur {
						callers = append(callers, call)
						callerFn = f
					}
				}
			}
		}
		if len(callers) != 1 || callerFn == cur {
			break
		}
		// only continue upwards through unexported helpers
		if cur.Object() != nil && cur.Object().Exported() {
			break
		}
		checkPre(callerFn, callers[0].Instr, ssaFuncName(callerFn))
		writerEntry, cur = callerFn, callerFn
	}
	if nPre < 8 {
		c.Fail("MARKER-AFTER-SUCCESS", "count", putFn.Pos(), "only %d fallible calls precede the marker write (expected ≥ 8: dir/lock paths, locks, re-reads, DepModuleKeys, Bucket, Copy, side files, MarshalYAML)", nPre)
	}
	// every marker (re-)read's *content* is what gets unmarshalled and validated: a re-read whose data is discarded
	// re-validates a stale copy
	for _, call := range callsIn(putFn) {
		if !(isStorageFn(call.Call, "ReadPath") && len(call.Call.Args) >= 3 && isMarkerPath(call.Call.Args[2])) || call.Value == nil {
			continue
		}
		var dataV ssa.Value
		if refs := call.Value.Referrers(); refs != nil {
			for _, r := range *refs {
				if ex, ok := r.(*ssa.Extract); ok && ex.Index == 0 {
					dataV = ex
				}
			}
		}
		used := false
		if dataV != nil {
			for _, k := range callsIn(putFn) {
				fn := staticCalleeObj(k.Call)
				if fn != nil && strings.HasPrefix(fn.Name(), "UnmarshalYAML") && len(k.Call.Args) > 0 && dependsOnValue(k.Call.Args[0], dataV) && instrReaches(call.Instr, k.Instr) {
					used = true
				}
			}
		}
		c.Ob("MARKER-AFTER-SUCCESS", pf+"/marker-read-content-validated", call.Pos(), used, true, "the bytes returned by this marker read are the ones unmarshalled and validated afterwards: %v", used)
	}
	// the tar callback runs only when the body succeeded
	for _, a := range putFn.AnonFuncs {
		for _, call := range callsIn(a) {
			if call.Call.StaticCallee() == nil && !call.Call.IsInvoke() && lastResultIsError(call.Call.Signature()) {
				// dynamic call of the tar callback inside a deferred closure: must be on the nil edge of retErr
				okG := false
				for _, ge := range guardingEdges(call.Instr.Block()) {
					x, trueIsNonNil, ok := nilCompare(ge.If.Cond)
					if ok && ge.Branch != trueIsNonNil {
						if u, isLoad := x.(*ssa.UnOp); isLoad {
							if _, isFree := u.X.(*ssa.FreeVar); isFree {
								okG = true
							}
						}
					}
				}
				c.Ob("MARKER-AFTER-SUCCESS", ssaFuncName(a)+"/tar-callback", call.Pos(), okG, true, "the deferred tar publication runs only when the named result is nil: %v", okG)
			}
		}
	}

	// ---- reader side
	var getFn *ssa.Function
	var newMD ssaCall
	for _, sf := range p.SSAFuncsOf([]*packages.Package{pkStore}) {
		for _, call := range callsIn(sf) {
			if calleeIs(staticCalleeObj(call.Call), "private/bufpkg/bufmodule", "NewModuleData") {
				getFn, newMD = sf, call
			}
		}
	}
	if getFn == nil {
		c.Fail("READER", "anchor", token.NoPos, "no call of bufmodule.NewModuleData in bufmodulestore")
	} else {
		gf := ssaFuncName(getFn)
		var markerRead ssaCall
		for _, call := range callsIn(getFn) {
			if isStorageFn(call.Call, "ReadPath") && len(call.Call.Args) >= 3 && isMarkerPath(call.Call.Args[2]) {
				markerRead = call
			}
		}
		if markerRead.Instr == nil {
			c.Fail("READER", gf+"/marker-read", getFn.Pos(), "the reader never reads the marker")
		} else {
			ev := errValueOf(markerRead)
			ok := instrDominates(markerRead.Instr, newMD.Instr) && ev != nil && onNilEdgeOf(newMD.Instr.Block(), ev)
			c.Ob("READER", gf+"/marker-read-dominates", newMD.Pos(), ok, true, "NewModuleData is dominated by a successful read of the marker: %v", ok)
		}
		// valid edge
		okValid := false
		for _, ge := range guardingEdges(newMD.Instr.Block()) {
			cv, pos := condPolarity(ge.If.Cond)
			if call, ok := cv.(*ssa.Call); ok {
				if fn := staticCalleeObj(&call.Call); fn != nil && fn.Name() == "isValid" && ge.Branch == pos {
					okValid = true
				}
			}
		}
		c.Ob("READER", gf+"/valid-edge", newMD.Pos(), okValid, true, "NewModuleData lies on the edge where externalModuleData.isValid() is true: %v", okValid)
		// unmarshal error checked before
		for _, call := range callsIn(getFn) {
			fn := staticCalleeObj(call.Call)
			if fn != nil && strings.HasPrefix(fn.Name(), "UnmarshalYAML") {
				ev := errValueOf(call)
				ok := ev != nil && onNilEdgeOf(newMD.Instr.Block(), ev)
				c.Ob("READER", gf+"/unmarshal-checked", call.Pos(), ok, true, "NewModuleData lies on the nil edge of the marker's unmarshal error: %v", ok)
			}
		}
	}
	// found only on err == nil
	if fr := p.Func("private/bufpkg/bufmodule/bufmodulestore", "moduleDataStore.GetModuleDatasForModuleKeys"); fr != nil {
		sf := p.SSAFunc(fr.Obj)
		var getCall ssaCall
		for _, call := range callsIn(sf) {
			if sc := call.Call.StaticCallee(); sc != nil && sc == getFn {
				getCall = call
			}
			// the reader reached through the function that takes the lock around it
			if sc := call.Call.StaticCallee(); sc != nil && sc != getFn && getCall.Instr == nil && getFn != nil && sc.Pkg == getFn.Pkg {
				for _, inner := range callsIn(sc) {
					if inner.Call.StaticCallee() == getFn {
						getCall = call
					}
				}
			}
		}
		if getCall.Instr == nil {
			c.Fail("READER", "GetModuleDatasForModuleKeys/get-call", fr.Decl.Pos(), "does not call the marker-checking reader")
		} else {
			ev := errValueOf(getCall)
			var dataV ssa.Value
			if refs := getCall.Value.Referrers(); refs != nil {
				for _, r := range *refs {
					if ex, ok := r.(*ssa.Extract); ok && ex.Index == 0 {
						dataV = ex
					}
				}
			}
			okF, seen := true, 0
			if dataV != nil {
				if refs := dataV.Referrers(); refs != nil {
					for _, r := range *refs {
						if _, isDbg := r.(*ssa.DebugRef); isDbg {
							continue
						}
						seen++
						if !onNilEdgeOf(r.Block(), ev) {
							okF = false
						}
					}
				}
			}
			c.Ob("READER", "GetModuleDatasForModuleKeys/found-only-on-success", fr.Decl.Pos(), okF && seen > 0, true, "%d use(s) of the returned ModuleData, all on the err == nil edge: %v", seen, okF)
		}
	} else {
		c.Fail("READER", "GetModuleDatasForModuleKeys", token.NoPos, "not found")
	}

	c09Locks(c, pkStore, writerEntry, getFn)
	// the marker's atomic put relies on the disk bucket's atomic writer (shared with C15): a failed write must not be renamed into place
	c15AtomicWriter(c)
	c09Tamper(c)
	c09Provider(c)
}

func calleeName(cc *ssa.CallCommon) string {
	d, _, _ := calleeDesc(cc)
	return d
}

func valueConsumedOnlyByReturn(v ssa.Value) bool {
	refs := v.Referrers()
	if refs == nil {
		return false
	}
	n := 0
	for _, r := range *refs {
		switch r.(type) {
		case *ssa.DebugRef:
		case *ssa.Return:
			n++
		default:
			return false
		}
	}
	return n > 0
}

// ---- (5) locks ----------------------------------------------------------------------------------------

func c09Locks(c *Ctx, pk *packages.Package, putFn, getFn *ssa.Function) {
	p := c.P
	info := pk.TypesInfo
	isLockCall := func(call *ast.CallExpr, names ...string) bool {
		for _, n := range names {
			if recvCallOn(info, call, "private/pkg/filelock", "Locker", n) {
				return true
			}
		}
		return false
	}
	markerArg := func(call *ast.CallExpr) bool {
		for _, a := range call.Args {
			if id, ok := ast.Unparen(a).(*ast.Ident); ok && id.Name == "externalModuleDataFileName" {
				if _, isVar := info.Uses[id].(*types.Var); isVar {
					return true
				}
				if _, isConst := info.Uses[id].(*types.Const); isConst {
					return true
				}
			}
		}
		return false
	}
	lockFns := []*ssa.Function{putFn, getFn}
	// the part of the reader that runs under the lock may be a function of its own (the lock is taken by its caller):
	// a function that reads the marker, takes no lock itself and is only called inside the package is judged at its
	// call sites, where the call counts as the marker read
	skipDirect := map[*ssa.Function]bool{}
	if getFn != nil {
		if fd, _ := getFn.Syntax().(*ast.FuncDecl); fd != nil && !fd.Name.IsExported() {
			hasLock := false
			ast.Inspect(fd.Body, func(n ast.Node) bool {
				if call, ok := n.(*ast.CallExpr); ok && isLockCall(call, "RLock", "Lock") {
					hasLock = true
				}
				return true
			})
			if !hasLock {
				for _, cs := range p.callersIndex()[getFn] {
					if caller := cs.Instr.Parent(); caller != nil && caller != getFn && caller.Pkg == getFn.Pkg {
						for caller.Parent() != nil {
							caller = caller.Parent()
						}
						lockFns = append(lockFns, caller)
						skipDirect[getFn] = true
					}
				}
			}
		}
	}
	seenLockFn := map[*ssa.Function]bool{}
	for _, sf := range lockFns {
		if sf == nil || skipDirect[sf] || seenLockFn[sf] {
			continue
		}
		seenLockFn[sf] = true
		fd, _ := sf.Syntax().(*ast.FuncDecl)
		if fd == nil {
			continue
		}
		name := relPkg(pk.PkgPath) + "." + declName(fd)
		g := p.CFGOf(fd.Body, info)
		var rlocks, locks, tarAlt, markerReads, writes, all []ast.Node
		inspectNoFuncLit(fd.Body, func(n ast.Node) bool {
			call, ok := n.(*ast.CallExpr)
			if !ok {
				return true
			}
			switch {
			case isLockCall(call, "RLock"):
				rlocks = append(rlocks, call)
			case isLockCall(call, "Lock"):
				locks = append(locks, call)
			}
			fn := Callee(info, call)
			if fn == nil {
				return true
			}
			if fn.Pkg() != nil && fn.Pkg().Path() == pk.PkgPath && (fn.Name() == "getReadBucketForTar" || fn.Name() == "getWriteBucketAndCallbackForTar") {
				tarAlt = append(tarAlt, call)
			}
			if calleeIs(fn, "private/pkg/storage", "ReadPath") && markerArg(call) {
				markerReads = append(markerReads, call)
			} else if fn.Pkg() != nil && fn.Pkg().Path() == pk.PkgPath {
				// a package helper that reads the marker (the re-read moved into a method)
				if hd := p.DeclOf(fn); hd != nil && hd.Decl.Body != nil {
					reads := false
					ast.Inspect(hd.Decl.Body, func(m ast.Node) bool {
						if hc, ok := m.(*ast.CallExpr); ok && calleeIs(Callee(info, hc), "private/pkg/storage", "ReadPath") && markerArg(hc) {
							reads = true
						}
						return true
					})
					if reads {
						markerReads = append(markerReads, call)
					}
				}
			}
			isStorageWrite := func(f *types.Func) bool {
				for _, w := range []string{"Copy", "PutPath", "CopyPath", "CopyReader"} {
					if calleeIs(f, "private/pkg/storage", w) {
						return true
					}
				}
				return false
			}
			if isStorageWrite(fn) {
				writes = append(writes, call)
			} else if fn.Pkg() != nil && fn.Pkg().Path() == pk.PkgPath && fn.Name() != "getWriteBucketAndCallbackForTar" {
				// a package function that performs the cache writes (the write phase split off into a helper): calling
				// it is a cache write
				if hd := p.DeclOf(fn); hd != nil && hd.Decl.Body != nil && hd.Decl != fd {
					w := false
					ast.Inspect(hd.Decl.Body, func(m ast.Node) bool {
						if hc, ok := m.(*ast.CallExpr); ok && isStorageWrite(Callee(info, hc)) {
							w = true
						}
						return true
					})
					if w {
						writes = append(writes, call)
					}
				}
			}
			return true
		})
		all = append(append(append(all, rlocks...), locks...), tarAlt...)
		for _, r := range markerReads {
			unprotected := g.ReachableAvoiding(nil, r, all)
			c.Ob("LOCKS", name+"/marker-read-under-lock", r.Pos(), !unprotected, true, "every path to the marker read passes Locker.RLock/Lock or the tar branch: %v", !unprotected)
		}
		if sf == putFn {
			excl := append(append([]ast.Node{}, locks...), tarAlt...)
			for _, w := range writes {
				unprotected := g.ReachableAvoiding(nil, w, excl)
				c.Ob("LOCKS", name+"/write-under-exclusive-lock", w.Pos(), !unprotected, true, "every path to this cache write passes Locker.Lock or the tar branch: %v", !unprotected)
			}
			for _, l := range locks {
				for _, w := range writes {
					if !g.Reachable(l, w) {
						continue
					}
					skip := g.ReachableAvoiding(l, w, markerReads)
					c.Ob("LOCKS", name+"/recheck-after-lock", w.Pos(), !skip, true, "between Locker.Lock and this write every path re-reads the marker: %v", !skip)
					break // the first write suffices: later writes are dominated by it
				}
			}
			if len(locks) == 0 {
				c.Fail("LOCKS", name+"/exclusive-lock", fd.Pos(), "no Locker.Lock call in the store function")
			}
		}
		// unlockers released
		ast.Inspect(fd.Body, func(n ast.Node) bool {
			as, ok := n.(*ast.AssignStmt)
			if !ok || len(as.Rhs) != 1 || len(as.Lhs) != 2 {
				return true
			}
			call, ok := as.Rhs[0].(*ast.CallExpr)
			if !ok || !isLockCall(call, "Lock", "RLock") {
				return true
			}
			v := identObj(info, as.Lhs[0])
			released := false
			ast.Inspect(fd.Body, func(m ast.Node) bool {
				ds, ok := m.(*ast.DeferStmt)
				if !ok {
					return true
				}
				has := false
				ast.Inspect(ds, func(k ast.Node) bool {
					if kc, ok := k.(*ast.CallExpr); ok {
						if sel, ok := kc.Fun.(*ast.SelectorExpr); ok && sel.Sel.Name == "Unlock" && identObj(info, sel.X) == v {
							has = true
						}
						// `defer unlockAndJoin(unlocker, &retErr)`: a helper of the module that calls Unlock on the parameter it
						// receives the unlocker in
						if fn := Callee(info, kc); fn != nil {
							if hd := p.DeclOf(fn); hd != nil && hd.Decl.Body != nil && hd.Decl.Type.Params != nil {
								for ai, a := range kc.Args {
									if identObj(info, a) != v {
										continue
									}
									var prm types.Object
									idx := 0
									for _, fld := range hd.Decl.Type.Params.List {
										for _, nm := range fld.Names {
											if idx == ai {
												prm = hd.Info().Defs[nm]
											}
											idx++
										}
									}
									if prm == nil {
										continue
									}
									ast.Inspect(hd.Decl.Body, func(hn ast.Node) bool {
										if hc, ok := hn.(*ast.CallExpr); ok {
											if hs, ok := hc.Fun.(*ast.SelectorExpr); ok && hs.Sel.Name == "Unlock" && identObj(hd.Info(), hs.X) == prm {
												has = true
											}
										}
										return true
									})
								}
							}
						}
					}
					return true
				})
				if has && g.Dominates(as, ds) {
					// no exit between acquisition success and the defer
					released = true
					for _, r := range g.Returns() {
						if g.ReachableAvoiding(as, r, []ast.Node{ds}) && !underErrTestOf(p, info, r, identObj(info, as.Lhs[1]), fd) {
							released = false
						}
					}
				}
				return true
			})
			c.Ob("LOCKS", name+"/unlock-deferred/"+v.Name(), as.Pos(), released, true, "a deferred %s.Unlock() follows the acquisition on every path: %v", v.Name(), released)
			return true
		})
	}
}

// underErrTestOf: the return lies in an `if errVar != nil` block.
func underErrTestOf(p *Prog, info *types.Info, r ast.Node, errVar types.Object, root ast.Node) bool {
	for cur := p.Parent(r); cur != nil && cur != root; cur = p.Parent(cur) {
		if ifs, ok := cur.(*ast.IfStmt); ok {
			if o := nonNilErrTested(info, ifs.Cond); o != nil && o == errVar {
				return true
			}
		}
	}
	return false
}

// ---- (6) tamper check ---------------------------------------------------------------------------------

func c09Tamper(c *Ctx) {
	p := c.P
	pk := p.Pkg("private/bufpkg/bufmodule")
	if pk == nil {
		c.Fail("TAMPER", "anchor", token.NoPos, "package bufmodule not found")
		return
	}
	obj := pk.Types.Scope().Lookup("moduleData")
	if obj == nil {
		c.Fail("TAMPER", "anchor", token.NoPos, "type moduleData not found")
		return
	}
	nt := obj.Type().(*types.Named)
	st := nt.Underlying().(*types.Struct)
	fieldOfCall := func(cc *ssa.CallCommon) string {
		if cc.IsInvoke() || cc.StaticCallee() != nil {
			return ""
		}
		u, ok := cc.Value.(*ssa.UnOp)
		if !ok || u.Op != token.MUL {
			return ""
		}
		fa, ok := u.X.(*ssa.FieldAddr)
		if !ok {
			return ""
		}
		if namedName(fa.X.Type()) != "moduleData" {
			return ""
		}
		return st.Field(fa.Field).Name()
	}
	// the digest check itself: the closure built in newModuleData, or the function it forwards to
	checkerFns := map[*ssa.Function]bool{}
	checkerClosures := map[*ssa.Function]bool{}
	var checkBodies []*ssa.Function
	if nmf := p.Func("private/bufpkg/bufmodule", "newModuleData"); nmf != nil && nmf.Obj != nil {
		if nsf := p.SSAFunc(nmf.Obj); nsf != nil {
			for _, a := range nsf.AnonFuncs {
				reach := reachSSA(a, 3)
				isChecker := false
				for _, f := range reach {
					if f.Pkg == nil || f.Pkg.Pkg != pk.Types {
						continue
					}
					for _, call := range callsIn(f) {
						if calleeIs(staticCalleeObj(call.Call), "private/bufpkg/bufmodule", "DigestEqual") && !checkerFns[f] {
							checkerFns[f] = true
							checkBodies = append(checkBodies, f)
							isChecker = true
						}
					}
				}
				if isChecker {
					checkerClosures[a] = true
					// everything the check is made of (the closure body may have been split into methods of moduleData)
					// is the check, not an accessor that must run the check first
					for _, f := range reach {
						if f.Pkg != nil && f.Pkg.Pkg == pk.Types && f.Signature.Recv() != nil && namedName(f.Signature.Recv().Type()) == "moduleData" {
							checkerFns[f] = true
						}
					}
				}
			}
		}
	}
	// the member that holds the check: the one newModuleData stores the checker closure into (whatever it is called)
	checkField := ""
	if nmf := p.Func("private/bufpkg/bufmodule", "newModuleData"); nmf != nil && nmf.Obj != nil {
		if nsf := p.SSAFunc(nmf.Obj); nsf != nil {
			for _, b := range nsf.Blocks {
				for _, ins := range b.Instrs {
					stIns, ok := ins.(*ssa.Store)
					if !ok {
						continue
					}
					fa, ok := stIns.Addr.(*ssa.FieldAddr)
					if !ok || namedName(fa.X.Type()) != "moduleData" {
						continue
					}
					sliceBack(stIns.Val, func(x ssa.Value) bool {
						if mc, ok := x.(*ssa.MakeClosure); ok {
							if fn, _ := mc.Fn.(*ssa.Function); fn != nil && checkerClosures[fn] {
								checkField = st.Field(fa.Field).Name()
							}
						}
						return true
					})
				}
			}
		}
	}
	if checkField == "" {
		c.Fail("TAMPER", "check-member", obj.Pos(), "no member of moduleData is assigned the digest-checking closure in newModuleData")
	}
	accessors := 0
	for i := 0; i < nt.NumMethods(); i++ {
		m := nt.Method(i)
		sf := p.SSAFunc(m)
		if sf == nil || checkerFns[sf] {
			continue
		}
		var checks []ssaCall
		for _, call := range callsIn(sf) {
			if f := fieldOfCall(call.Call); f != "" && f == checkField {
				checks = append(checks, call)
			}
		}
		for _, call := range callsIn(sf) {
			f := fieldOfCall(call.Call)
			if f == "" || f == checkField {
				continue
			}
			accessors++
			ok := false
			for _, ch := range checks {
				if ch.Value != nil && instrDominates(ch.Instr, call.Instr) && onNilEdgeOf(call.Instr.Block(), ch.Value) {
					ok = true
				}
			}
			c.Ob("TAMPER", funcID(m)+"/"+f, call.Pos(), ok, true, "raw getter %s is called only on the nil edge of a preceding call of the digest check (%s): %v", f, checkField, ok)
		}
	}
	if accessors < 4 {
		c.Fail("TAMPER", "accessor-count", obj.Pos(), "only %d raw-getter uses found in moduleData methods (expected 4)", accessors)
	}
	// the checkDigest closure: nil only on the DigestEqual-true edge; mismatch error otherwise
	nm := p.Func("private/bufpkg/bufmodule", "newModuleData")
	if nm == nil {
		c.Fail("TAMPER", "newModuleData", token.NoPos, "not found")
		return
	}
	found := false
	for _, a := range checkBodies {
		var deq *ssa.Call
		for _, call := range callsIn(a) {
			if calleeIs(staticCalleeObj(call.Call), "private/bufpkg/bufmodule", "DigestEqual") {
				deq, _ = call.Value.(*ssa.Call)
			}
		}
		if deq == nil {
			continue
		}
		found = true
		okAll, nNil := true, 0
		for _, r := range returnsOf(a) {
			if len(r.Results) != 1 || !isNilConst(r.Results[0]) {
				continue
			}
			nNil++
			guarded := false
			for _, ge := range guardingEdges(r.Block()) {
				cv, pos := condPolarity(ge.If.Cond)
				if cv == ssa.Value(deq) && ge.Branch == pos {
					guarded = true
				}
			}
			if !guarded {
				okAll = false
			}
		}
		c.Ob("TAMPER", "newModuleData/checkDigest/nil-only-when-equal", a.Pos(), okAll && nNil > 0, true, "%d nil return(s) in the digest check, all on the true edge of DigestEqual(expected, actual): %v", nNil, okAll)
		// the compared values: expected from moduleKey.Digest(), actual from a digest computation over the bucket
		exp := dependsOnCall(deq.Call.Args[0], func(cc *ssa.CallCommon) bool { return cc.IsInvoke() && cc.Method.Name() == "Digest" })
		act := dependsOnCallDeep(deq.Call.Args[1], func(cc *ssa.CallCommon) bool {
			fn := staticCalleeObj(cc)
			return fn != nil && (fn.Name() == "getB5DigestForBucketAndDepModuleKeys" || fn.Name() == "getB4Digest")
		})
		c.Ob("TAMPER", "newModuleData/checkDigest/operands", deq.Pos(), exp && act, true, "DigestEqual compares the key's pinned digest (%v) with a digest recomputed from the content (%v)", exp, act)
		// the closure is stored into the checkDigest field
	}
	if !found {
		c.Fail("TAMPER", "newModuleData/checkDigest", nm.Decl.Pos(), "no closure calling DigestEqual in newModuleData")
	}
}

// ---- (7) provider ---------------------------------------------------------------------------------------

func c09Provider(c *Ctx) {
	p := c.P
	fr := p.Func("private/bufpkg/bufmodule/bufmodulecache", "baseProvider.getValuesForKeys")
	if fr == nil {
		c.Fail("PROVIDER", "anchor", token.NoPos, "baseProvider.getValuesForKeys not found")
		return
	}
	info := fr.Info()
	g := p.CFGOf(fr.Decl.Body, info)
	// the provider's function-valued fields are recognised by shape, not by name: the store read is the one that also
	// returns the keys it did not find (three results), the store put takes values and returns only an error
	fieldCall := func(call *ast.CallExpr, results int) bool {
		sel, ok := ast.Unparen(call.Fun).(*ast.SelectorExpr)
		if !ok {
			return false
		}
		v, isVar := info.Uses[sel.Sel].(*types.Var)
		if !isVar || !v.IsField() {
			return false
		}
		sig, isSig := v.Type().Underlying().(*types.Signature)
		if !isSig || sig.Results().Len() != results || sig.Params().Len() != 2 {
			return false
		}
		return types.Identical(sig.Results().At(results-1).Type(), errorType)
	}
	var gets, puts []*ast.CallExpr
	inspectNoFuncLit(fr.Decl.Body, func(n ast.Node) bool {
		if call, ok := n.(*ast.CallExpr); ok {
			if fieldCall(call, 3) {
				gets = append(gets, call)
			}
			if fieldCall(call, 1) {
				puts = append(puts, call)
			}
		}
		return true
	})
	ok := len(gets) >= 2 && len(puts) == 1
	c.Ob("PROVIDER", "getValuesForKeys/calls", fr.Decl.Pos(), ok, false, "%d store reads, %d store put", len(gets), len(puts))
	if !ok {
		return
	}
	reread := gets[len(gets)-1]
	dom := g.Dominates(puts[0], reread) && g.Dominates(gets[0], puts[0])
	c.Ob("PROVIDER", "getValuesForKeys/re-read-after-put", reread.Pos(), dom, true, "read → put → re-read ordering holds on every path: %v", dom)
	// a non-empty not-found list from the re-read returns an error
	as, _ := p.Parent(reread).(*ast.AssignStmt)
	okNF := false
	if as != nil && len(as.Lhs) == 3 {
		nf := identObj(info, as.Lhs[1])
		ast.Inspect(fr.Decl.Body, func(n ast.Node) bool {
			ifs, ok := n.(*ast.IfStmt)
			if !ok || !usesObj(info, ifs.Cond, nf) {
				return true
			}
			for _, st := range ifs.Body.List {
				if r, ok := st.(*ast.ReturnStmt); ok && classifyReturn(info, r) == retNonNil && g.Dominates(reread, ifs.Cond) {
					okNF = true
				}
			}
			return true
		})
		// the values returned come from the re-read, not from the delegate directly
		vals := identObj(info, as.Lhs[0])
		usedAfter := false
		inspectNoFuncLit(fr.Decl.Body, func(n ast.Node) bool {
			if id, ok := n.(*ast.Ident); ok && info.Uses[id] == vals && id.Pos() > as.End() {
				usedAfter = true
			}
			return true
		})
		c.Ob("PROVIDER", "getValuesForKeys/returns-re-read-values", as.Pos(), usedAfter, true, "the values handed back are those re-read from the store: %v", usedAfter)
	}
	c.Ob("PROVIDER", "getValuesForKeys/missing-after-put-is-error", reread.Pos(), okNF, true, "a key still missing after the put returns a non-nil error: %v", okNF)
}

// cacheTarPutAtomic: in tar mode a cached module is one archive object; a reader takes its presence as "the module is
// cached", so it must become visible only in full. The function of the store that calls storagearchive.Tar must write
// the object through a call that carries PutWithAtomic() - bucket.Put itself, or a storage helper that takes
// ...PutOption (ForWriteObject, PutPath): whichever it is, the option list is inspected, not the callee's name.
func cacheTarPutAtomic(c *Ctx, rule string, pkStore *packages.Package) {
	p := c.P
	isStorageFn := func(cc *ssa.CallCommon, name string) bool {
		return calleeIs(staticCalleeObj(cc), "private/pkg/storage", name)
	}
	takesPutOptions := func(cc *ssa.CallCommon) bool {
		sig := cc.Signature()
		if sig == nil || !sig.Variadic() || sig.Params().Len() == 0 {
			return false
		}
		sl, ok := sig.Params().At(sig.Params().Len() - 1).Type().(*types.Slice)
		return ok && namedName(sl.Elem()) == "PutOption"
	}
	tarSeen := false
	for _, sf := range p.SSAFuncsOf([]*packages.Package{pkStore}) {
		for _, f := range allSSAFuncs(sf) {
			usesTar := false
			for _, call := range callsDeep(f) {
				if calleeIs(staticCalleeObj(call.Call), "private/pkg/storage/storagearchive", "Tar") {
					usesTar = true
				}
			}
			if !usesTar {
				continue
			}
			for _, call := range callsIn(f) {
				if !takesPutOptions(call.Call) {
					continue
				}
				tarSeen = true
				opts := call.Call.Args[len(call.Call.Args)-1]
				atomic := false
				for _, el := range append(variadicElems(opts), opts) {
					if dependsOnCall(el, func(cc *ssa.CallCommon) bool { return isStorageFn(cc, "PutWithAtomic") }) {
						atomic = true
					}
				}
				c.Ob(rule, ssaFuncName(f)+"/tar-put", call.Pos(), atomic, true, "the archive object is written with PutWithAtomic(): %v", atomic)
			}
		}
	}
	if !tarSeen {
		c.Fail(rule, "tar-put", token.NoPos, "no write of the tar archive (a call taking ...PutOption in the function that calls storagearchive.Tar) found")
	}
}

// c09MarkerLastShared (MARKER-LAST, shared with C15): in the function of the module-data store that writes the
// completion marker (the atomic PutPath of module.yaml), no other cache write is reachable after the marker write. A
// side file written after it turns "a failed store never leaves the entry marked complete" into its opposite: the
// store reports the failure, yet the entry reads as complete and is never repaired.
func c09MarkerLastShared(c *Ctx, rule string) {
	c.Rule(rule, "the completion marker of a cached module is the last thing the store writes", 1)
	p := c.P
	pkStore := p.Pkg("private/bufpkg/bufmodule/bufmodulestore")
	if pkStore == nil {
		c.Fail(rule, "anchor", token.NoPos, "bufmodulestore not found")
		return
	}
	isStorageFn := func(cc *ssa.CallCommon, name string) bool {
		return calleeIs(staticCalleeObj(cc), "private/pkg/storage", name)
	}
	isMarkerPath := func(v ssa.Value) bool {
		return isGlobalNamed(v, "externalModuleDataFileName") || isConstString(v, "module.yaml")
	}
	isWrite := func(cc *ssa.CallCommon) bool {
		fn := staticCalleeObj(cc)
		if fn == nil {
			return false
		}
		for _, n := range []string{"Copy", "CopyPath", "CopyReader", "CopyReadObject", "PutPath"} {
			if calleeIs(fn, "private/pkg/storage", n) {
				return true
			}
		}
		if cc.IsInvoke() && (fn.Name() == "Put" || fn.Name() == "Delete" || fn.Name() == "DeleteAll") {
			return strings.HasSuffix(namedPath(cc.Value.Type()), "private/pkg/storage.WriteBucket") || strings.HasSuffix(namedPath(cc.Value.Type()), "private/pkg/storage.ReadWriteBucket")
		}
		return false
	}
	found := false
	for _, sf := range p.SSAFuncsOf([]*packages.Package{pkStore}) {
		for _, call := range callsIn(sf) {
			if !(isStorageFn(call.Call, "PutPath") && len(call.Call.Args) >= 3 && isMarkerPath(call.Call.Args[2])) {
				continue
			}
			found = true
			after := 0
			for _, w := range callsIn(sf) {
				if w.Instr == call.Instr || !isWrite(w.Call) {
					continue
				}
				if instrReaches(call.Instr, w.Instr) {
					after++
				}
			}
			c.Ob(rule, ssaFuncName(sf)+"/no-write-after-marker", call.Pos(), after == 0, true, "%d cache write(s) reachable after the marker write", after)
		}
	}
	if !found {
		c.Fail(rule, "anchor", token.NoPos, "no marker write found in the store")
	}
}
