package main

import (
	"fmt"
	"go/token"
	"strings"

	"golang.org/x/tools/go/packages"
	"golang.org/x/tools/go/ssa"
)

// c03DefaultFromDefault (DEFAULT-RESOLVED; C03 and C04, after round-5 seed C03-o): FIELD_SAME_DEFAULT compares the
// *effective* defaults of two fields. protoreflect resolves the effective default in FieldDescriptor.Default() - for
// a closed enum without an explicit default that is the first declared value, not the value numbered 0 - while
// DefaultEnumValue() only answers for explicit defaults. Every branch of the function that turns a field descriptor
// into the compared value takes it from Default(): the branches of the kind switch agree on their source. A branch
// that reads another accessor (and patches the unset case by hand) compares something else than the other branches
// and misses changes of the effective default.
func c03DefaultFromDefault(c *Ctx, rule string, pk *packages.Package) {
	c.Rule(rule, "every kind's compared default value is taken from FieldDescriptor.Default()", 3)
	p := c.P
	n := 0
	for _, sf := range p.SSAFuncsOf([]*packages.Package{pk}) {
		res := sf.Signature.Results()
		if res.Len() != 1 || !strings.HasSuffix(namedPath(res.At(0).Type()), "bufcheckserverhandle.fieldDefault") {
			continue
		}
		hasDesc := false
		for _, prm := range sf.Params {
			if strings.HasSuffix(namedPath(prm.Type()), "protoreflect.FieldDescriptor") {
				hasDesc = true
			}
		}
		if !hasDesc {
			continue
		}
		// the compared member of each value the function returns: stored into a literal here, or handed to a small
		// constructor of the package (`newFieldDefault(comparableValue, printableValue)`) that stores its parameter
		comparableOf := func(fn *ssa.Function) map[ssa.Value][]ssa.Value { // struct alloc → values stored into .comparable
			out := map[ssa.Value][]ssa.Value{}
			for _, b := range fn.Blocks {
				for _, ins := range b.Instrs {
					st, ok := ins.(*ssa.Store)
					if !ok {
						continue
					}
					fa, ok := st.Addr.(*ssa.FieldAddr)
					if !ok || !strings.HasSuffix(fieldName(fa.X.Type(), fa.Field), "fieldDefault.comparable") {
						continue
					}
					out[fa.X] = append(out[fa.X], st.Val)
				}
			}
			return out
		}
		var compared []ssa.Value
		var at []token.Pos
		for _, vals := range comparableOf(sf) {
			for _, v := range vals {
				compared = append(compared, v)
				at = append(at, v.Pos())
			}
		}
		for _, call := range callsIn(sf) {
			callee := call.Call.StaticCallee()
			if callee == nil || callee.Pkg != sf.Pkg || callee == sf || len(callee.Blocks) == 0 {
				continue
			}
			cres := callee.Signature.Results()
			if cres.Len() != 1 || !strings.HasSuffix(namedPath(cres.At(0).Type()), "bufcheckserverhandle.fieldDefault") {
				continue
			}
			for _, vals := range comparableOf(callee) {
				for _, v := range vals {
					for i, prm := range callee.Params {
						if dependsOnValue(v, prm) && i < len(call.Call.Args) {
							compared = append(compared, call.Call.Args[i])
							at = append(at, call.Pos())
						}
					}
				}
			}
		}
		k := 0
		for i, v := range compared {
			n++
			k++
			fromDefault := dependsOnCall(v, func(cc *ssa.CallCommon) bool { return cc.IsInvoke() && cc.Method.Name() == "Default" })
			c.Ob(rule, fmt.Sprintf("%s/comparable#%d", ssaFuncName(sf), k), at[i], fromDefault, true, "the compared value of this branch derives from descriptor.Default(): %v", fromDefault)
		}
	}
	if n == 0 {
		c.Fail(rule, "anchor", token.NoPos, "no function building a fieldDefault from a FieldDescriptor found")
	}
}
