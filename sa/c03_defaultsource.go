package main

import (
	"fmt"
	"go/token"
	"strings"

	"golang.org/x/tools/go/packages"
	"golang.org/x/tools/go/ssa"
)

// c03DefaultFromDefault (DEFAULT-RESOLVED; C03 and C04, after round-5 seed C03-o): FIELD_SAME_DEFAULT compares the
// *effective* defaults of two fields. protoreflect resolves the effective default in FieldDescriptor.Default() - for
// a closed enum without an explicit default that is the first declared value, not the value numbered 0 - while
// DefaultEnumValue() only answers for explicit defaults. Every branch of the function that turns a field descriptor
// into the compared value takes it from Default(): the branches of the kind switch agree on their source. A branch
// that reads another accessor (and patches the unset case by hand) compares something else than the other branches
// and misses changes of the effective default.
func c03DefaultFromDefault(c *Ctx, rule string, pk *packages.Package) {
	c.Rule(rule, "every kind's compared default value is taken from FieldDescriptor.Default()", 3)
	p := c.P
	n := 0
	for _, sf := range p.SSAFuncsOf([]*packages.Package{pk}) {
		res := sf.Signature.Results()
		if res.Len() != 1 || !strings.HasSuffix(namedPath(res.At(0).Type()), "bufcheckserverhandle.fieldDefault") {
			continue
		}
		hasDesc := false
		for _, prm := range sf.Params {
			if strings.HasSuffix(namedPath(prm.Type()), "protoreflect.FieldDescriptor") {
				hasDesc = true
			}
		}
		if !hasDesc {
			continue
		}
		k := 0
		for _, b := range sf.Blocks {
			for _, ins := range b.Instrs {
				st, ok := ins.(*ssa.Store)
				if !ok {
					continue
				}
				fa, ok := st.Addr.(*ssa.FieldAddr)
				if !ok || !strings.HasSuffix(fieldName(fa.X.Type(), fa.Field), "fieldDefault.comparable") {
					continue
				}
				n++
				k++
				fromDefault := dependsOnCall(st.Val, func(cc *ssa.CallCommon) bool { return cc.IsInvoke() && cc.Method.Name() == "Default" })
				c.Ob(rule, fmt.Sprintf("%s/comparable#%d", ssaFuncName(sf), k), st.Pos(), fromDefault, true, "the compared value of this branch derives from descriptor.Default(): %v", fromDefault)
			}
		}
	}
	if n == 0 {
		c.Fail(rule, "anchor", token.NoPos, "no function building a fieldDefault from a FieldDescriptor found")
	}
}
