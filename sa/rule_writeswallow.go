package main

import (
	"fmt"
	"go/token"
	"strings"

	"golang.org/x/tools/go/packages"
	"golang.org/x/tools/go/ssa"
)

// mayWrite reports whether f (or a module function it calls, to the given depth) creates or writes an object: a Put or
// Write on a storage/io value, os.Rename, os.WriteFile, os.Create, (*os.File).Write.
func mayWrite(f *ssa.Function, depth int, memo map[*ssa.Function]bool) bool {
	if v, ok := memo[f]; ok {
		return v
	}
	memo[f] = false
	res := false
	for _, g := range reachSSA(f, depth) {
		for _, call := range callsIn(g) {
			if call.Call.IsInvoke() {
				switch call.Call.Method.Name() {
				case "Put", "Write", "WriteString":
					res = true
				}
				continue
			}
			if o := staticCalleeObj(call.Call); o != nil && o.Pkg() != nil {
				switch o.Pkg().Path() {
				case "os":
					switch o.Name() {
					case "Rename", "WriteFile", "Create", "Write", "WriteString":
						res = true
					}
				case "io":
					if o.Name() == "Copy" || o.Name() == "WriteString" {
						res = true
					}
				}
			}
		}
	}
	memo[f] = res
	return res
}

// ruleWriteSwallow (R-WRITE-SWALLOW; C15, after round-4 seed C15-k): R-ERRSWALLOW accepts a nil return under
// `err != nil` when an inner condition classifies the error (IsNotExist, errors.Is): "the file is not there" is a
// legitimate answer of a read. It is not a legitimate answer of an operation that also writes: the destination's Put,
// Write or Close (which renames, for an atomic put) can fail with an error that satisfies the same test - a dangling
// symlink at the destination, a temporary file swept before Close - and the copy then reports success with a file
// missing. For every call of a module function that may write, no return of a nil error lies on the non-nil edge of a
// test of that call's error, classified or not.
func ruleWriteSwallow(c *Ctx, rule string, pkgs []*packages.Package, min int) {
	c.Rule(rule, "the error of an operation that writes is never turned into success, whatever it is classified as", min)
	p := c.P
	memo := map[*ssa.Function]bool{}
	for _, sf := range p.SSAFuncsOf(pkgs) {
		for _, f := range allSSAFuncs(sf) {
			res := f.Signature.Results()
			if res.Len() == 0 || !isErrorType(res.At(res.Len()-1).Type()) {
				continue
			}
			k := 0
			for _, call := range callsIn(f) {
				cv, ok := call.Instr.(*ssa.Call)
				if !ok {
					continue
				}
				callee := call.Call.StaticCallee()
				if callee == nil || callee.Pkg == nil || !strings.HasPrefix(callee.Pkg.Pkg.Path(), modPath) || !mayWrite(callee, 3, memo) {
					continue
				}
				cres := callee.Signature.Results()
				if cres.Len() == 0 || !isErrorType(cres.At(cres.Len()-1).Type()) {
					continue
				}
				var errv ssa.Value = cv
				if cres.Len() > 1 {
					errv = nil
					if cv.Referrers() != nil {
						for _, r := range *cv.Referrers() {
							if ex, ok := r.(*ssa.Extract); ok && ex.Index == cres.Len()-1 {
								errv = ex
							}
						}
					}
				}
				if errv == nil || errv.Referrers() == nil {
					continue
				}
				k++
				swallowed := token.NoPos
				tested := false
				for _, r := range *errv.Referrers() {
					bo, ok := r.(*ssa.BinOp)
					if !ok || !(isNilConst(bo.X) || isNilConst(bo.Y)) || bo.Referrers() == nil {
						continue
					}
					for _, rr := range *bo.Referrers() {
						iff, ok := rr.(*ssa.If)
						if !ok {
							continue
						}
						tested = true
						nonNil := bo.Op == token.NEQ
						for _, ret := range returnsOf(f) {
							if len(ret.Results) == 0 || !edgeDominates(iff.Block(), nonNil, ret.Block()) {
								continue
							}
							if isNilConst(spilledResult(ret, ret.Results[len(ret.Results)-1])) {
								swallowed = ret.Pos()
							}
						}
					}
				}
				if !tested {
					continue
				}
				c.Ob(rule, fmt.Sprintf("%s/%s#%d", ssaFuncName(f), callee.Name(), k), call.Pos(), swallowed == token.NoPos, true,
					"%s may write; no nil-error return lies on the failing edge of its error test: %v %s", callee.Name(), swallowed == token.NoPos, p.Pos(swallowed))
			}
		}
	}
}
