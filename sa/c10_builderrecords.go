package main

import (
	"go/ast"
	"go/token"
	"go/types"
	"strings"

	"golang.org/x/tools/go/packages"
)

// c10BuilderRecords (ADD-RECORDS; C10, after round-4 seed C10-l): the module set is resolved from everything that was
// added to the builder - the newest-commit rule and the ambiguity checks run later, in Build, over the full list. An
// Add method that returns without recording either the module or an error decides a conflict early, on partial
// information ("this dependency name was already added", whatever its commit): the first pin wins instead of the
// newest. For every exported method of a builder type (a struct with a slice field it appends to and an error slice)
// that returns the builder itself, every path from entry to exit passes an append to one of the builder's slices.
func c10BuilderRecords(c *Ctx, pk *packages.Package) {
	const rule = "ADD-RECORDS"
	c.Rule(rule, "every path through a module-set builder's Add method records the module or an error", 2)
	p := c.P
	info := pk.TypesInfo
	n := 0
	for _, fr := range p.FuncsOf(pk) {
		d := fr.Decl
		if d.Recv == nil || d.Body == nil || !d.Name.IsExported() || !strings.HasPrefix(d.Name.Name, "Add") || len(d.Recv.List) != 1 || len(d.Recv.List[0].Names) != 1 {
			continue
		}
		recv := info.Defs[d.Recv.List[0].Names[0]]
		sig, _ := fr.Obj.Type().(*types.Signature)
		if recv == nil || sig == nil || sig.Results().Len() != 1 || !strings.HasSuffix(namedPath(sig.Results().At(0).Type()), "ModuleSetBuilder") {
			continue
		}
		// recording statements: assignments to a slice field of the receiver, and calls of receiver methods that do so
		var rec func(body ast.Node, self types.Object, depth int) []ast.Node
		rec = func(body ast.Node, self types.Object, depth int) []ast.Node {
			var out []ast.Node
			ast.Inspect(body, func(m ast.Node) bool {
				switch x := m.(type) {
				case *ast.AssignStmt:
					for _, l := range x.Lhs {
						if sel, ok := ast.Unparen(l).(*ast.SelectorExpr); ok && identObj(info, sel.X) == self {
							if _, isSlice := info.TypeOf(sel).Underlying().(*types.Slice); isSlice {
								out = append(out, x)
							}
						}
					}
				case *ast.CallExpr:
					if sel, ok := x.Fun.(*ast.SelectorExpr); ok && identObj(info, sel.X) == self && depth > 0 {
						if fn := Callee(info, x); fn != nil {
							if hd := p.DeclOf(fn); hd != nil && hd.Decl.Body != nil && hd.Decl.Recv != nil && len(hd.Decl.Recv.List[0].Names) == 1 {
								hself := hd.Info().Defs[hd.Decl.Recv.List[0].Names[0]]
								if len(rec(hd.Decl.Body, hself, depth-1)) > 0 {
									out = append(out, x)
								}
							}
						}
					}
				}
				return true
			})
			return out
		}
		recs := rec(d.Body, recv, 1)
		g := p.CFGOf(d.Body, info)
		skipped := len(recs) == 0 || g.EndReachableAvoiding(recs)
		n++
		c.Ob(rule, fr.ID(), d.Pos(), !skipped, true, "%d recording statements (append to a builder slice, addError); an exit is reachable without passing any of them: %v", len(recs), skipped)
	}
	if n == 0 {
		c.Fail(rule, "anchor", token.NoPos, "no Add method returning a ModuleSetBuilder found")
	}
}
