package main

import (
	"fmt"
	"go/token"
	"go/types"
	"strings"

	"golang.org/x/tools/go/packages"
	"golang.org/x/tools/go/ssa"
)

// c12FieldTypeChecked (FIELD-TYPE-CHECKED; C12, after round-5 seed C12-b): the filtered image "contains no excluded
// element nor any reference to one". A field refers to its message or enum type, an extension as much as a regular
// field, and whether the closure walked the field or not (files of imported modules are not walked, and an exclude-only
// filter answers "kept" for everything it has not seen). In the image rewriter, a function that is handed a field
// descriptor and returns that same descriptor as kept has, on the way to that return, looked at the field's type
// (GetType / GetTypeName on that parameter).
func c12FieldTypeChecked(c *Ctx, pk *packages.Package) {
	const rule = "FIELD-TYPE-CHECKED"
	c.Rule(rule, "the image rewriter keeps a field only after looking at the type the field refers to", 1)
	p := c.P
	n := 0
	for _, sf := range p.SSAFuncsOf([]*packages.Package{pk}) {
		for _, prm := range sf.Params {
			if !strings.HasSuffix(namedPath(derefType(prm.Type())), "descriptorpb.FieldDescriptorProto") {
				continue
			}
			if sf.Signature.Results().Len() == 0 || namedPath(derefType(sf.Signature.Results().At(0).Type())) != namedPath(derefType(prm.Type())) {
				continue
			}
			var looks []ssa.Instruction
			for _, call := range callsIn(sf) {
				o := staticCalleeObj(call.Call)
				if o == nil || (o.Name() != "GetType" && o.Name() != "GetTypeName") || len(call.Call.Args) == 0 || stripConv(call.Call.Args[0]) != ssa.Value(prm) {
					continue
				}
				looks = append(looks, call.Instr)
			}
			k := 0
			for _, r := range returnsOf(sf) {
				if len(r.Results) == 0 || stripConv(r.Results[0]) != ssa.Value(prm) {
					continue
				}
				n++
				k++
				ok := false
				for _, l := range looks {
					if instrDominates(l, r) {
						ok = true
					}
				}
				c.Ob(rule, fmt.Sprintf("%s/kept#%d", ssaFuncName(sf), k), r.Pos(), ok, true, "the return that keeps the field comes after the field's type was looked at (GetType/GetTypeName on the parameter): %v", ok)
			}
		}
	}
	if n == 0 {
		c.Fail(rule, "anchor", token.NoPos, "no function returning its field-descriptor parameter found in bufimageutil")
	}
}

func derefType(t types.Type) types.Type {
	if pt, ok := t.Underlying().(*types.Pointer); ok {
		return pt.Elem()
	}
	return t
}
