package main

// C13 — no path can escape a bucket's root.

import (
	"fmt"
	"go/ast"
	"go/constant"
	"go/token"
	"go/types"
	"sort"
	"strings"

	"golang.org/x/tools/go/cfg"
	"golang.org/x/tools/go/packages"
	"golang.org/x/tools/go/ssa"
)

func init() {
	register(&propCheck{
		ID: "C13",
		Explanation: "Structural necessary conditions of bucket containment: (1) R-ABSVALID — the guards of normalpath.NormalizeAndValidate are evaluated, " +
			"three-valued, over a bounded-exhaustive enumeration of cleaned slash paths partitioned into the classes '.', '..', '../x', rooted and name-first; " +
			"no escaping or rooted member may reach the success return, and the success return yields the normalized value; (2) R-MUSTVALIDATE — for every " +
			"type implementing storage.ReadBucket/WriteBucket and each of its Get/Stat/Walk/Put/Delete/DeleteAll methods with a body, the raw path parameter " +
			"(SSA taint, inlining bound 4) reaches no map key, normalpath/os/filepath/fs call or Mapper method before a sanitizer, and is either sanitized or " +
			"delegated to the same-named method of another bucket interface; (3) every call of a sanitizer in the module tests the error before using the " +
			"result; (4) archive entry names and plugin-chosen file names reach only the sanitizing helper / bucket API / error text; (5) the disk bucket joins " +
			"only validated paths under its root and re-validates walked paths. NOT decided: symlink resolution at run time, OS behaviour for exotic names.",
		Assumptions: []string{
			"filepath.Clean/ToSlash produce a cleaned slash path (model: lexical cleaning as documented)",
			"a cleaned relative path leaves its context iff it is '..' or starts with '../'",
		},
		Run: runC13,
	})
}

func runC13(c *Ctx) {
	c13AbsValid(c, "R-ABSVALID")
	c13MustValidate(c)
	c13SanitizerUse(c)
	c13UntrustedNames(c)
	c13ValidateBeforeSkip(c)
	c13ViewWrapsArgument(c)
	c13PathPrefixByString(c)
	c13ListValidatorTotal(c)
	c13NormalizeAlwaysCleans(c)
	c13ViewRootRefused(c)
	c14DiskValidateFirst(c)
	c13DiskJoin(c)
	c13ValidatorCovers(c)
	c13ConstructorValidates(c)
	{
		var pp []*packages.Package
		for _, rel := range []string{"private/pkg/normalpath", "private/pkg/storage/storageutil", "private/pkg/storage", "private/pkg/storage/storageos", "private/pkg/storage/storagemem", "private/pkg/filepathext"} {
			if q := c.P.Pkg(rel); q != nil {
				pp = append(pp, q)
			}
		}
		c13CleanIsLast(c, pp)
	}
	c13NoAscend(c)
	// the temporary file of an atomic put is created in the final path's own directory, i.e. inside the root (shared with C15)
	c15AtomicWriter(c)
}

// ---- (1) R-ABSVALID ------------------------------------------------------------------------------

type tri int

const (
	triFalse tri = iota
	triTrue
	triUnknown
)

func triNot(a tri) tri {
	switch a {
	case triFalse:
		return triTrue
	case triTrue:
		return triFalse
	}
	return triUnknown
}

func triAnd(a, b tri) tri {
	if a == triFalse || b == triFalse {
		return triFalse
	}
	if a == triTrue && b == triTrue {
		return triTrue
	}
	return triUnknown
}

func triOr(a, b tri) tri {
	if a == triTrue || b == triTrue {
		return triTrue
	}
	if a == triFalse && b == triFalse {
		return triFalse
	}
	return triUnknown
}

func triOf(b bool) tri {
	if b {
		return triTrue
	}
	return triFalse
}

// cleanedPaths enumerates every fixed point of lexical cleaning over the alphabet {a . /} up to
// length n (the abstract domain of a normalized path). windows adds a volume-rooted variant.
func cleanedPaths(n int, windows bool) []string {
	var out []string
	var rec func(s string)
	rec = func(s string) {
		if len(s) > 0 && lexClean(s) == s {
			out = append(out, s)
		}
		if len(s) == n {
			return
		}
		for _, ch := range []string{"a", ".", "/"} {
			rec(s + ch)
		}
	}
	rec("")
	if windows {
		base := append([]string(nil), out...)
		for _, s := range base {
			if strings.HasPrefix(s, "/") {
				out = append(out, "c:"+s)
			}
		}
	}
	sort.Strings(out)
	return out
}

// lexClean is the documented lexical cleaning of path.Clean on slash paths (the trusted model of
// filepath.ToSlash(filepath.Clean(p)) for already-slash inputs).
func lexClean(p string) string {
	if p == "" {
		return "."
	}
	rooted := p[0] == '/'
	parts := strings.Split(p, "/")
	var st []string
	for _, seg := range parts {
		switch seg {
		case "", ".":
		case "..":
			if len(st) > 0 && st[len(st)-1] != ".." {
				st = st[:len(st)-1]
			} else if !rooted {
				st = append(st, "..")
			}
		default:
			st = append(st, seg)
		}
	}
	r := strings.Join(st, "/")
	if rooted {
		return "/" + r
	}
	if r == "" {
		return "."
	}
	return r
}

func pathClass(p string) string {
	switch {
	case p == ".":
		return "dot"
	case p == "..":
		return "dotdot"
	case strings.HasPrefix(p, "../"):
		return "up"
	case strings.HasPrefix(p, "/"):
		return "rooted"
	case len(p) > 2 && p[1] == ':' && p[2] == '/':
		return "volume-rooted"
	}
	return "name-first"
}

func escapes(class string) bool {
	return class == "dotdot" || class == "up" || class == "rooted" || class == "volume-rooted"
}

// evalGuard evaluates a recognised predicate over the normalized variable for a concrete member.
func evalGuard(info *types.Info, e ast.Expr, v types.Object, val string, windows bool) tri {
	e = ast.Unparen(e)
	strConst := func(x ast.Expr) (string, bool) {
		tv, ok := info.Types[x]
		if !ok || tv.Value == nil || tv.Value.Kind().String() != "String" {
			return "", false
		}
		s := tv.Value.ExactString()
		if len(s) >= 2 {
			// ExactString quotes
			var out string
			if _, err := fmt.Sscanf(s, "%q", &out); err == nil {
				return out, true
			}
		}
		return "", false
	}
	isV := func(x ast.Expr) bool { return identObj(info, x) == v }
	if tv, ok := info.Types[e]; ok && tv.Value != nil && tv.Value.Kind() == constant.Bool {
		return triOf(constant.BoolVal(tv.Value))
	}
	switch x := e.(type) {
	case *ast.UnaryExpr:
		if x.Op == token.NOT {
			return triNot(evalGuard(info, x.X, v, val, windows))
		}
	case *ast.BinaryExpr:
		switch x.Op {
		case token.LAND:
			return triAnd(evalGuard(info, x.X, v, val, windows), evalGuard(info, x.Y, v, val, windows))
		case token.LOR:
			return triOr(evalGuard(info, x.X, v, val, windows), evalGuard(info, x.Y, v, val, windows))
		case token.EQL, token.NEQ:
			var lit string
			var ok bool
			switch {
			case isV(x.X):
				lit, ok = strConst(x.Y)
			case isV(x.Y):
				lit, ok = strConst(x.X)
			default:
				// v[0] == 'c'
				if ix, isIx := ast.Unparen(x.X).(*ast.IndexExpr); isIx && isV(ix.X) {
					if itv, ok2 := info.Types[ix.Index]; ok2 && itv.Value != nil && itv.Value.ExactString() == "0" {
						if ctv, ok3 := info.Types[x.Y]; ok3 && ctv.Value != nil {
							var code int
							if _, err := fmt.Sscan(ctv.Value.ExactString(), &code); err == nil {
								if len(val) == 0 {
									return triUnknown
								}
								r := int(val[0]) == code
								if x.Op == token.NEQ {
									r = !r
								}
								return triOf(r)
							}
						}
					}
				}
				return triUnknown
			}
			if !ok {
				return triUnknown
			}
			r := val == lit
			if x.Op == token.NEQ {
				r = !r
			}
			return triOf(r)
		case token.GTR, token.GEQ, token.LSS, token.LEQ:
			// len(v) > 0 etc.
			if call, ok := ast.Unparen(x.X).(*ast.CallExpr); ok && len(call.Args) == 1 && isV(call.Args[0]) {
				if id, ok := call.Fun.(*ast.Ident); ok && id.Name == "len" {
					if tv, ok := info.Types[x.Y]; ok && tv.Value != nil {
						var n int
						if _, err := fmt.Sscan(tv.Value.ExactString(), &n); err == nil {
							switch x.Op {
							case token.GTR:
								return triOf(len(val) > n)
							case token.GEQ:
								return triOf(len(val) >= n)
							case token.LSS:
								return triOf(len(val) < n)
							case token.LEQ:
								return triOf(len(val) <= n)
							}
						}
					}
				}
			}
		}
	case *ast.CallExpr:
		fn := Callee(info, x)
		if fn == nil || fn.Pkg() == nil {
			return triUnknown
		}
		full := fn.Pkg().Path() + "." + fn.Name()
		// a predicate of the module over the normalized value (`jumpsContext(normalizedPath)`): evaluate its body
		if evalPredicateHook != nil && len(x.Args) == 1 && isV(x.Args[0]) && strings.HasPrefix(fn.Pkg().Path(), modPath) {
			if r, ok := evalPredicateHook(fn, val, windows); ok {
				return r
			}
		}
		switch full {
		case "path/filepath.IsAbs":
			if len(x.Args) == 1 && isV(x.Args[0]) {
				if windows {
					return triOf(len(val) > 2 && val[1] == ':' && val[2] == '/')
				}
				return triOf(strings.HasPrefix(val, "/"))
			}
		case "path/filepath.IsLocal":
			if len(x.Args) == 1 && isV(x.Args[0]) {
				cl := pathClass(val)
				return triOf(!escapes(cl))
			}
		case "strings.HasPrefix", "strings.HasSuffix", "strings.Contains":
			if len(x.Args) == 2 && isV(x.Args[0]) {
				if lit, ok := strConst(x.Args[1]); ok {
					switch fn.Name() {
					case "HasPrefix":
						return triOf(strings.HasPrefix(val, lit))
					case "HasSuffix":
						return triOf(strings.HasSuffix(val, lit))
					default:
						return triOf(strings.Contains(val, lit))
					}
				}
			}
		}
	}
	return triUnknown
}

func c13AbsValid(c *Ctx, rule string) {
	p := c.P
	c.Rule(rule, "no escaping or rooted class of cleaned paths reaches the success return of normalpath.NormalizeAndValidate", 5)
	fr := p.Func("private/pkg/normalpath", "NormalizeAndValidate")
	if fr == nil {
		c.Fail(rule, "anchor", token.NoPos, "normalpath.NormalizeAndValidate not found")
		return
	}
	c13AbsValidFunc(c, rule, fr, false, "")
}

func c13AbsValidFunc(c *Ctx, rule string, fr *FuncRef, windows bool, suffix string) {
	p := c.P
	info := fr.Info()
	// the normalized variable: defined from a call to Normalize(param)
	var nv types.Object
	ast.Inspect(fr.Decl.Body, func(n ast.Node) bool {
		as, ok := n.(*ast.AssignStmt)
		if !ok || len(as.Lhs) != 1 || len(as.Rhs) != 1 {
			return true
		}
		if call, ok := as.Rhs[0].(*ast.CallExpr); ok {
			if fn := Callee(info, call); fn != nil && calleeIs(fn, "private/pkg/normalpath", "Normalize") {
				nv = identObj(info, as.Lhs[0])
			}
		}
		return true
	})
	if nv == nil {
		c.Fail(rule, "normalized-variable"+suffix, fr.Decl.Pos(), "no variable assigned from normalpath.Normalize(...) in NormalizeAndValidate: cannot evaluate the guards")
		return
	}
	g := p.CFGOf(fr.Decl.Body, info)
	evalPredicateHook = makeEvalPredicate(p)
	defer func() { evalPredicateHook = nil }()
	// bounded-exhaustive over cleaned paths; the thorough tier enumerates longer spellings
	bound := 6
	if c.Tier == "thorough" {
		bound = 10
	}
	members := cleanedPaths(bound, windows)
	// per class: members reaching a success return
	reach := map[string][]string{}
	count := map[string]int{}
	retOK := true
	var walk func(b *cfg.Block, val string, seen map[int32]bool) bool
	walk = func(b *cfg.Block, val string, seen map[int32]bool) bool {
		if seen[b.Index] {
			return false
		}
		seen[b.Index] = true
		defer delete(seen, b.Index)
		for _, n := range b.Nodes {
			if r, ok := n.(*ast.ReturnStmt); ok {
				if classifyReturn(info, r) == retNil {
					if len(r.Results) != 2 || identObj(info, r.Results[0]) != nv {
						retOK = false
					}
					return true
				}
				return false
			}
		}
		cond := g.Cond(b)
		if cond != nil {
			switch evalGuard(info, cond, nv, val, windows) {
			case triTrue:
				return walk(b.Succs[0], val, seen)
			case triFalse:
				return walk(b.Succs[1], val, seen)
			default:
				return walk(b.Succs[0], val, seen) || walk(b.Succs[1], val, seen)
			}
		}
		for _, s := range b.Succs {
			if walk(s, val, seen) {
				return true
			}
		}
		return false
	}
	for _, m := range members {
		cl := pathClass(m)
		count[cl]++
		if walk(g.G.Blocks[0], m, map[int32]bool{}) {
			reach[cl] = append(reach[cl], m)
		}
	}
	for _, cl := range []string{"dot", "dotdot", "up", "rooted", "volume-rooted", "name-first"} {
		if count[cl] == 0 {
			continue
		}
		inst := "normalpath.NormalizeAndValidate" + suffix + "/class " + cl
		if escapes(cl) {
			ok := len(reach[cl]) == 0
			w := ""
			if !ok {
				w = fmt.Sprintf("; witness %q is accepted", reach[cl][0])
			}
			c.Ob(rule, inst, fr.Decl.Pos(), ok, true, "%d cleaned paths of class %s enumerated, %d reach the success return%s", count[cl], cl, len(reach[cl]), w)
		} else {
			// sanity: legitimate classes must stay accepted (otherwise the evaluation is vacuous)
			c.Ob(rule, inst, fr.Decl.Pos(), len(reach[cl]) == count[cl], true, "%d cleaned paths of class %s enumerated, %d accepted (all must be: a validator rejecting everything would make the rule vacuous)", count[cl], cl, len(reach[cl]))
		}
	}
	c.Ob(rule, "normalpath.NormalizeAndValidate"+suffix+"/returns-normalized", fr.Decl.Pos(), retOK, true, "every success return yields the normalized variable %s", nv.Name())
}

// ---- (2) R-MUSTVALIDATE --------------------------------------------------------------------------

var bucketMethods = map[string]bool{"Get": true, "Stat": true, "Walk": true, "Put": true, "Delete": true, "DeleteAll": true, "GetFile": true, "StatFileInfo": true}

func storageIface(p *Prog, name string) *types.Interface {
	pk := p.Pkg("private/pkg/storage")
	if pk == nil {
		return nil
	}
	obj := pk.Types.Scope().Lookup(name)
	if obj == nil {
		return nil
	}
	i, _ := obj.Type().Underlying().(*types.Interface)
	return i
}

func isSanitizerFunc(fn *types.Func) bool {
	return calleeIs(fn, "private/pkg/normalpath", "NormalizeAndValidate") ||
		calleeIs(fn, "private/pkg/storage/storageutil", "ValidatePath") ||
		calleeIs(fn, "private/pkg/storage/storageutil", "ValidatePrefix")
}

func c13TaintConfig(p *Prog) *TaintConfig {
	isBucketIface := func(t types.Type) bool {
		np := namedPath(t)
		if !strings.HasPrefix(np, modPath+"/private/pkg/storage.") {
			return false
		}
		_, ok := t.Underlying().(*types.Interface)
		return ok
	}
	return &TaintConfig{
		MaxDepth:       4,
		MapIndexIsSink: true,
		Sanitizer: func(cc *ssa.CallCommon, callee *types.Func) bool {
			return callee != nil && isSanitizerFunc(callee)
		},
		Propagate: func(cc *ssa.CallCommon, callee *types.Func) bool {
			if callee == nil || callee.Pkg() == nil {
				return false
			}
			sig := callee.Type().(*types.Signature)
			if sig.Results().Len() == 0 {
				return false
			}
			rt := sig.Results().At(0).Type().Underlying()
			if b, ok := rt.(*types.Basic); ok && b.Info()&types.IsString != 0 {
				return true
			}
			if sl, ok := rt.(*types.Slice); ok {
				if b, ok := sl.Elem().Underlying().(*types.Basic); ok && b.Info()&types.IsString != 0 {
					return true
				}
			}
			return false
		},
		Identity: func(callee *types.Func) bool {
			return calleeIs(callee, "private/pkg/normalpath", "Normalize") || calleeIs(callee, "private/pkg/normalpath", "Unnormalize")
		},
		Sink: func(cc *ssa.CallCommon, callee *types.Func, arg int, derived bool) string {
			if callee == nil || callee.Pkg() == nil {
				return ""
			}
			pkg := callee.Pkg().Path()
			if cc.IsInvoke() {
				recv := cc.Value.Type()
				if (isBucketIface(recv) && bucketMethods[callee.Name()]) || namedPath(recv) == modPath+"/private/bufpkg/bufmodule.ModuleReadBucket" {
					if derived {
						return "is joined/mapped and the result handed to " + typeShort(recv) + "." + callee.Name() + " without validating the raw value first"
					}
					return "+" + typeShort(recv) + "." + callee.Name()
				}
				if namedPath(recv) == modPath+"/private/pkg/storage.Mapper" {
					return "passed to Mapper." + callee.Name() + " before validation"
				}
				// a filter decides on the normalised spelling: the raw spelling of a hidden object ("./a/x") must not
				// be what the matcher sees (round 3: the sanitizer's result was discarded in filter Get/Stat)
				if namedPath(recv) == modPath+"/private/pkg/storage.Matcher" {
					return "passed to Matcher." + callee.Name() + " before validation"
				}
				return ""
			}
			switch pkg {
			case "os", "io/fs", "io/ioutil":
				return "passed to " + pkg + "." + callee.Name() + " before validation"
			case "path/filepath":
				switch callee.Name() {
				case "Walk", "WalkDir", "Glob", "EvalSymlinks", "Abs":
					return "passed to filepath." + callee.Name() + " before validation"
				}
			case modPath + "/private/pkg/filepathext":
				return "passed to filepathext." + callee.Name() + " before validation"
			case modPath + "/private/pkg/normalpath":
				switch callee.Name() {
				case "Normalize", "Unnormalize", "NewError", "NormalizeAndValidate":
					return ""
				}
				// lexical processing (Join, Rel, StripComponents, Dir, Base, EqualsOrContainsPath …) of a value that was
				// not validated yet: a later validation sees a different string than the one the caller supplied
				return "passed to normalpath." + callee.Name() + " before validation"
			}
			return ""
		},
	}
}

func c13MustValidate(c *Ctx) {
	p := c.P
	const rule = "R-MUSTVALIDATE"
	c.Rule(rule, "the raw path/prefix parameter of every bucket method is sanitized or delegated before it can reach a map key, a path join or the file system", 30)
	rb, wb := storageIface(p, "ReadBucket"), storageIface(p, "WriteBucket")
	if rb == nil || wb == nil {
		c.Fail(rule, "anchor", token.NoPos, "storage.ReadBucket / storage.WriteBucket not found")
		return
	}
	var mrb *types.Interface
	if bm := p.Pkg("private/bufpkg/bufmodule"); bm != nil {
		if obj := bm.Types.Scope().Lookup("ModuleReadBucket"); obj != nil {
			mrb, _ = obj.Type().Underlying().(*types.Interface)
		}
	}
	if mrb == nil {
		c.Fail(rule, "anchor-ModuleReadBucket", token.NoPos, "bufmodule.ModuleReadBucket not found")
		return
	}
	tcfg := c13TaintConfig(p)
	nTypes := 0
	for _, pk := range p.ModulePkgs() {
		if strings.HasSuffix(pk.PkgPath, "testing") {
			continue
		}
		scope := pk.Types.Scope()
		for _, name := range scope.Names() {
			tn, ok := scope.Lookup(name).(*types.TypeName)
			if !ok || tn.IsAlias() {
				continue
			}
			nt, ok := tn.Type().(*types.Named)
			if !ok {
				continue
			}
			if _, isIface := nt.Underlying().(*types.Interface); isIface {
				continue
			}
			ptr := types.NewPointer(nt)
			impl := types.Implements(nt, rb) || types.Implements(ptr, rb) || types.Implements(nt, wb) || types.Implements(ptr, wb) ||
				types.Implements(nt, mrb) || types.Implements(ptr, mrb)
			if !impl {
				continue
			}
			nTypes++
			declared := 0
			for i := 0; i < nt.NumMethods(); i++ {
				m := nt.Method(i)
				if !bucketMethods[m.Name()] {
					continue
				}
				sf := p.SSAFunc(m)
				if sf == nil || len(sf.Blocks) == 0 {
					continue
				}
				// the string parameter following the context
				idx := -1
				for pi, prm := range sf.Params {
					if b, ok := prm.Type().Underlying().(*types.Basic); ok && b.Kind() == types.String {
						idx = pi
						break
					}
				}
				if idx < 0 {
					continue
				}
				declared++
				c.FuncsAnalysed++
				res := p.TaintParams(sf, []int{idx}, tcfg)
				inst := funcID(m)
				if len(res.Hits) > 0 {
					h := res.Hits[0]
					c.Ob(rule, inst, h.Pos, false, true, "raw %s parameter %s (call chain %s)", sf.Params[idx].Name(), h.Desc, strings.Join(h.Chain, " → "))
					continue
				}
				switch {
				case res.Sanitized > 0:
					c.Ob(rule, inst, m.Pos(), true, true, "raw parameter reaches %d sanitizer call(s) and no sink before them", res.Sanitized)
				case len(res.Delegated) > 0:
					c.Ob(rule, inst, m.Pos(), true, true, "raw parameter is only delegated to %s (every implementation is itself a subject)", strings.Join(uniq(res.Delegated), ", "))
				default:
					// the parameter is unused for access (nop buckets)
					c.Ob(rule, inst, m.Pos(), true, false, "raw parameter reaches no sink, sanitizer or delegate (no storage access through it)")
				}
			}
			if declared == 0 {
				c.Note("%s: %s implements a bucket interface through embedding only (promoted methods resolve to subjects)", rule, relPkg(pk.PkgPath)+"."+name)
			}
		}
	}
	c.Note("%s: %d types implement storage.ReadBucket/WriteBucket/bufmodule.ModuleReadBucket", rule, nTypes)
}

func uniq(in []string) []string {
	m := map[string]bool{}
	for _, s := range in {
		m[s] = true
	}
	return sortedKeys(m)
}

// ---- (3) sanitizer results are used only after the error test ---------------------------------------

func c13SanitizerUse(c *Ctx) {
	p := c.P
	const rule = "SANITIZER-CHECKED"
	c.Rule(rule, "at every call of a path sanitizer the result is used only on the nil edge of a test of the returned error", 45)
	for _, sf := range p.SSAFuncsOf(p.ModulePkgs()) {
		for _, f := range allSSAFuncs(sf) {
			for _, call := range callsIn(f) {
				callee := staticCalleeObj(call.Call)
				if callee == nil || !isSanitizerFunc(callee) || call.Value == nil {
					continue
				}
				c.CallSites++
				inst := ssaFuncName(f) + "/" + callee.Name()
				var strV, errV ssa.Value
				if refs := call.Value.Referrers(); refs != nil {
					for _, r := range *refs {
						if ex, ok := r.(*ssa.Extract); ok {
							if ex.Index == 0 {
								strV = ex
							} else {
								errV = ex
							}
						}
					}
				}
				if errV == nil || !valueConsumed(errV, map[ssa.Value]bool{}) {
					// returned as a whole tuple (return sanitizer(x)) is fine
					whole := false
					if refs := call.Value.Referrers(); refs != nil {
						for _, r := range *refs {
							if _, ok := r.(*ssa.Return); ok {
								whole = true
							}
						}
					}
					c.Ob(rule, inst, call.Pos(), whole, true, "error of %s is not consumed", callee.Name())
					continue
				}
				if strV == nil {
					c.Ob(rule, inst, call.Pos(), true, false, "only the error of %s is used (pure validation)", callee.Name())
					continue
				}
				bad := ""
				if refs := strV.Referrers(); refs != nil {
					for _, r := range *refs {
						if _, ok := r.(*ssa.DebugRef); ok {
							continue
						}
						if ret, ok := r.(*ssa.Return); ok {
							// `return path, err` style: both propagate together
							if len(ret.Results) >= 2 && stripConv(ret.Results[len(ret.Results)-1]) == errV {
								continue
							}
						}
						if _, ok := r.(*ssa.Phi); ok {
							continue
						}
						if st, ok := r.(*ssa.Store); ok {
							// spilled local variable: check the loads / closure captures the store reaches
							if al, ok := st.Addr.(*ssa.Alloc); ok {
								if arefs := al.Referrers(); arefs != nil {
									for _, ar := range *arefs {
										switch u := ar.(type) {
										case *ssa.UnOp, *ssa.MakeClosure:
											_ = u
											if allocTaintedAt(al, []*ssa.Store{st}, ar) && !onNilEdgeOf(ar.Block(), errV) {
												bad = p.Pos(ar.Pos())
											}
										}
									}
								}
								continue
							}
						}
						if !onNilEdgeOf(r.Block(), errV) {
							bad = p.Pos(r.Pos())
						}
					}
				}
				c.Ob(rule, inst, call.Pos(), bad == "", true, "validated value is used only after `err == nil` is established%s", map[bool]string{true: "", false: " — offending use at " + bad}[bad == ""])
			}
		}
	}
}

// onNilEdgeOf reports whether block b is dominated by the nil edge of a test of errV.
func onNilEdgeOf(b *ssa.BasicBlock, errV ssa.Value) bool {
	for _, ge := range guardingEdges(b) {
		x, trueIsNonNil, ok := nilCompare(ge.If.Cond)
		if !ok {
			continue
		}
		if stripConv(x) != errV {
			continue
		}
		if ge.Branch != trueIsNonNil {
			return true
		}
	}
	return false
}

// ---- (4) untrusted names: archive entries and plugin-chosen file names ------------------------------------

func c13UntrustedNames(c *Ctx) {
	p := c.P
	const rule = "UNTRUSTED-NAME"
	c.Rule(rule, "archive entry names and plugin-chosen file names flow only into the sanitizing helper, the bucket API or error text", 4)
	tcfg := c13TaintConfig(p)
	tcfg.MapIndexIsSink = false // the duplicate-detection key of ValidatePluginResponses is a comparison, not an access
	base := tcfg.Sink
	tcfg.Sink = func(cc *ssa.CallCommon, callee *types.Func, arg int, derived bool) string {
		// handing a (joined) untrusted name to a bucket is the intended confinement: the bucket validates.
		// Editing the name's characters first is not: what the validator then sees is not what the archive or the
		// plugin named ("../../x" with its leading dots and slashes trimmed is the harmless-looking "x"), and the
		// name the property says is rejected is accepted.
		if callee != nil && callee.Pkg() != nil && !cc.IsInvoke() {
			if pp := callee.Pkg().Path(); pp == "strings" || pp == "bytes" {
				if sig, _ := callee.Type().(*types.Signature); sig != nil && sig.Results().Len() > 0 {
					if b, ok := sig.Results().At(0).Type().Underlying().(*types.Basic); !ok || b.Kind() != types.Bool && b.Info()&types.IsInteger == 0 {
						return "is edited by " + pp + "." + callee.Name() + " before it is validated: the validator no longer sees the name as given"
					}
				}
			}
		}
		return base(cc, callee, arg, false)
	}
	tcfg.Propagate = func(cc *ssa.CallCommon, callee *types.Func) bool {
		if callee != nil && callee.Pkg() != nil && callee.Pkg().Path() == "fmt" {
			return false // error text
		}
		return c13TaintConfig(p).Propagate(cc, callee)
	}
	// sources: loads of tar.Header.Name / zip.FileHeader.Name, calls of CodeGeneratorResponse_File.GetName
	n := 0
	for _, sf := range p.SSAFuncsOf(p.ModulePkgs()) {
		for _, f := range allSSAFuncs(sf) {
			if strings.Contains(f.Pkg.Pkg.Path(), "/private/buf/bufcurl") || strings.Contains(f.Pkg.Pkg.Path(), "/private/gen/") {
				continue
			}
			var seeds []ssa.Value
			var desc []string
			for _, b := range f.Blocks {
				for _, ins := range b.Instrs {
					switch x := ins.(type) {
					case *ssa.FieldAddr:
						fn := fieldName(x.X.Type(), x.Field)
						if fn == "archive/tar.Header.Name" || fn == "archive/zip.FileHeader.Name" {
							// the loads of this address
							if refs := x.Referrers(); refs != nil {
								for _, r := range *refs {
									if u, ok := r.(*ssa.UnOp); ok && u.Op == token.MUL {
										seeds = append(seeds, u)
										desc = append(desc, fn)
									}
								}
							}
						}
					case *ssa.Call:
						if callee := staticCalleeObj(&x.Call); callee != nil && callee.Name() == "GetName" && namedPath(recvOf(callee)) == "google.golang.org/protobuf/types/pluginpb.CodeGeneratorResponse_File" {
							seeds = append(seeds, x)
							desc = append(desc, "CodeGeneratorResponse_File.GetName")
						}
					}
				}
			}
			if len(seeds) == 0 {
				continue
			}
			n += len(seeds)
			r := &taintRun{p: p, cfg: tcfg, memo: map[string]*taintResult{}, stack: map[*ssa.Function]bool{}}
			res := r.analyse(f, seeds, tcfg.MaxDepth, []string{ssaFuncName(f)})
			inst := ssaFuncName(f) + "/" + strings.Join(uniq(desc), "+")
			// zip.FileHeader.Name written when *creating* archives is a store, not a load: not a source.
			if len(res.Hits) > 0 {
				h := res.Hits[0]
				c.Ob(rule, inst, h.Pos, false, true, "untrusted name %s (call chain %s)", h.Desc, strings.Join(h.Chain, " → "))
			} else {
				c.Ob(rule, inst, f.Pos(), true, true, "%d untrusted-name source(s); sanitized %d time(s), delegated to %v, no raw file-system or join use", len(seeds), res.Sanitized, uniq(res.Delegated))
			}
		}
	}
	// Untar/Unzip hand only the helper's result to the copy functions
	for _, name := range []string{"Untar", "Unzip"} {
		fr := p.Func("private/pkg/storage/storagearchive", name)
		if fr == nil {
			c.Fail(rule, "storagearchive."+name, token.NoPos, "function not found")
			continue
		}
		sf := p.SSAFunc(fr.Obj)
		okAll, seen := true, 0
		// copy helpers: functions (or literals) that hand one of their own parameters to CopyReader as the path; a call
		// of one is a write whose destination is the matching argument
		copyHelper := map[*ssa.Function]int{}
		for _, af := range archiveReaderFuncs(sf) {
			for _, call := range callsIn(af) {
				if callee := staticCalleeObj(call.Call); callee != nil && calleeIs(callee, "private/pkg/storage", "CopyReader") {
					if par, ok := stripConv(call.Call.Args[len(call.Call.Args)-1]).(*ssa.Parameter); ok && par.Parent() == af {
						for i, fp := range af.Params {
							if fp == par {
								copyHelper[af] = i
							}
						}
					}
				}
			}
		}
		helperOf := func(cc *ssa.CallCommon) (*ssa.Function, bool) {
			if sc := cc.StaticCallee(); sc != nil {
				_, ok := copyHelper[sc]
				return sc, ok
			}
			var found *ssa.Function
			if !cc.IsInvoke() {
				sliceBack(cc.Value, func(x ssa.Value) bool {
					if mc, ok := x.(*ssa.MakeClosure); ok {
						if fn, _ := mc.Fn.(*ssa.Function); fn != nil {
							if _, ok := copyHelper[fn]; ok {
								found = fn
							}
						}
					}
					return true
				})
			}
			return found, found != nil
		}
		for _, af := range archiveReaderFuncs(sf) {
			for _, call := range callsIn(af) {
				callee := staticCalleeObj(call.Call)
				h, isHelperCall := helperOf(call.Call)
				if callee == nil && !isHelperCall {
					continue
				}
				if isHelperCall || calleeIs(callee, "private/pkg/storage", "CopyReader") {
					pathArg := call.Call.Args[len(call.Call.Args)-1]
					if isHelperCall {
						idx := copyHelper[h]
						if idx >= len(call.Call.Args) {
							continue
						}
						pathArg = call.Call.Args[idx]
					} else if _, isHelperBody := copyHelper[af]; isHelperBody {
						continue // the copy helper itself: its path parameter is what the reader handed it
					}
					seen++
					from := dependsOnCall(pathArg, func(cc *ssa.CallCommon) bool {
						cf := staticCalleeObj(cc)
						return cf != nil && cf.Name() == "unmapArchivePath"
					})
					if !from {
						okAll = false
					}
				}
			}
		}
		c.Ob(rule, "storagearchive."+name+"/write-path-from-helper", fr.Decl.Pos(), okAll && seen > 0, true, "%d write call(s); each destination path derives from unmapArchivePath: %v", seen, okAll)
	}
	// unmapArchivePath: the validator call is the first use of the parameter besides the empty test, and its result is what is returned
	if fr := p.Func("private/pkg/storage/storagearchive", "unmapArchivePath"); fr != nil {
		sf := p.SSAFunc(fr.Obj)
		res := p.TaintParams(sf, []int{0}, c13TaintConfig(p))
		ok := len(res.Hits) == 0 && res.Sanitized > 0 && !res.ResultTainted
		c.Ob(rule, "storagearchive.unmapArchivePath/validates", fr.Decl.Pos(), ok, true, "raw archive path: sanitized=%d, raw sinks=%d, raw value returned=%v", res.Sanitized, len(res.Hits), res.ResultTainted)
	} else {
		c.Fail(rule, "storagearchive.unmapArchivePath", token.NoPos, "function not found")
	}
	if n == 0 {
		c.Fail(rule, "sources", token.NoPos, "no untrusted-name source found")
	}
}

func recvOf(fn *types.Func) types.Type {
	sig, _ := fn.Type().(*types.Signature)
	if sig == nil || sig.Recv() == nil {
		return nil
	}
	return sig.Recv().Type()
}

// ---- (5) disk bucket joins under the root ------------------------------------------------------------------

func c13DiskJoin(c *Ctx) {
	p := c.P
	const rule = "DISK-JOIN"
	c.Rule(rule, "storageos joins only validated relative paths under the bucket root, and Walk re-validates every relative path before the callback", 2)
	pk := p.Pkg("private/pkg/storage/storageos")
	if pk == nil {
		c.Fail(rule, "anchor", token.NoPos, "package storageos not found")
		return
	}
	joins := 0
	for _, sf := range p.SSAFuncsOf([]*packages.Package{pk}) {
		for _, f := range allSSAFuncs(sf) {
			for _, call := range callsIn(f) {
				callee := staticCalleeObj(call.Call)
				if callee == nil || !calleeIs(callee, "private/pkg/normalpath", "Join") {
					continue
				}
				joins++
				// variadic: elements stored into the backing array
				var elems []ssa.Value
				if len(call.Call.Args) == 1 {
					if sl, ok := call.Call.Args[0].(*ssa.Slice); ok {
						if al, ok := sl.X.(*ssa.Alloc); ok {
							elems = storesInto(al)
						}
					}
				}
				ok := len(elems) >= 2
				desc := ""
				for i, e := range elems {
					origins := p.Origins(e, 0)
					if i == 0 {
						// root
						continue
					}
					fromSan := c13FromSanitizer(p, e, 2)
					if !fromSan {
						ok = false
						desc = fmt.Sprintf("element %d has origins %v, not a sanitizer result", i, origins)
					}
				}
				c.Ob(rule, ssaFuncName(f)+"/normalpath.Join", call.Pos(), ok, true, "joined elements after the root derive from a sanitizer %s", desc)
			}
		}
	}
	if joins == 0 {
		c.Fail(rule, "joins", token.NoPos, "no normalpath.Join in storageos")
	}
	// Walk: the ObjectInfo handed to the callback carries a path derived from NormalizeAndValidate
	walk := p.Func("private/pkg/storage/storageos", "bucket.Walk")
	if walk == nil {
		c.Fail(rule, "bucket.Walk", token.NoPos, "not found")
		return
	}
	sf := p.SSAFunc(walk.Obj)
	okW, seenW := true, 0
	// Walk, its literals, and the bucket's own methods they call (the construction moved into a method)
	walkFns := allSSAFuncs(sf)
	for _, f := range allSSAFuncs(sf) {
		for _, call := range callsIn(f) {
			if h := call.Call.StaticCallee(); h != nil && h.Pkg == sf.Pkg && h != sf && len(h.Blocks) > 0 && h.Signature.Recv() != nil {
				walkFns = append(walkFns, allSSAFuncs(h)...)
			}
		}
	}
	for _, f := range walkFns {
		for _, call := range callsIn(f) {
			callee := staticCalleeObj(call.Call)
			if callee == nil || !calleeIs(callee, "private/pkg/storage/storageutil", "NewObjectInfo") {
				continue
			}
			seenW++
			if !dependsOnCall(call.Call.Args[0], func(cc *ssa.CallCommon) bool {
				cf := staticCalleeObj(cc)
				return cf != nil && isSanitizerFunc(cf)
			}) {
				okW = false
			}
		}
	}
	c.Ob(rule, "storageos.bucket.Walk/revalidates", walk.Decl.Pos(), okW && seenW > 0, true, "%d ObjectInfo construction(s) in Walk; each path derives from a sanitizer result: %v", seenW, okW)
}

// c13FromSanitizer: v depends on a sanitizer result in its own function, or v is (derived from) a parameter of an
// unexported function all of whose static callers pass a value that does (an extracted helper that receives the
// already validated path).
func c13FromSanitizer(p *Prog, v ssa.Value, depth int) bool {
	isSan := func(cc *ssa.CallCommon) bool {
		cf := staticCalleeObj(cc)
		return cf != nil && isSanitizerFunc(cf)
	}
	if dependsOnCall(v, isSan) {
		return true
	}
	if depth == 0 {
		return false
	}
	var params []*ssa.Parameter
	sliceBack(v, func(x ssa.Value) bool {
		if prm, ok := x.(*ssa.Parameter); ok {
			params = append(params, prm)
		}
		return true
	})
	for _, prm := range params {
		fn := prm.Parent()
		if fn.Object() == nil || fn.Object().Exported() {
			continue
		}
		if b, ok := prm.Type().Underlying().(*types.Basic); !ok || b.Kind() != types.String {
			continue // receivers, contexts
		}
		idx := -1
		for i, q := range fn.Params {
			if q == prm {
				idx = i
			}
		}
		callers := p.callersIndex()[fn]
		if idx < 0 || len(callers) == 0 {
			continue
		}
		all := true
		for _, cs := range callers {
			if idx >= len(cs.Call.Args) || !c13FromSanitizer(p, cs.Call.Args[idx], depth-1) {
				all = false
			}
		}
		if all {
			return true
		}
	}
	return false
}

// ---- (6) VALIDATOR-COVERS (added with finding F27) ---------------------------------------------------------
//
// A function that exists to validate its arguments must consult every one of them: a named parameter that the body of
// a validate* function never reads is an argument that goes unvalidated whatever the caller passes (F27: validatePaths
// validated targetPaths twice and targetExcludePaths never, so an absolute --exclude-path on a tar/zip/git input was
// re-rooted under the sub-directory instead of rejected). Decided on the type-checked syntax of every non-test
// validate*/Validate* function of the module; parameters named _ and context.Context are exempt.
func c13ValidatorCovers(c *Ctx) {
	const rule = "VALIDATOR-COVERS"
	c.Rule(rule, "every named parameter of a validate* function is consulted by its body", 40)
	p := c.P
	for _, pk := range p.ModulePkgs() {
		for _, fr := range p.FuncsOf(pk) {
			if fr.Decl.Body == nil || fr.Decl.Type.Params == nil {
				continue
			}
			name := fr.Decl.Name.Name
			if !strings.HasPrefix(strings.ToLower(name), "validate") {
				continue
			}
			file := p.Fset.Position(fr.Decl.Pos()).Filename
			if strings.HasSuffix(file, "_test.go") || strings.Contains(file, ".pb.") {
				continue
			}
			used := map[types.Object]bool{}
			ast.Inspect(fr.Decl.Body, func(n ast.Node) bool {
				if id, ok := n.(*ast.Ident); ok {
					if o := pk.TypesInfo.Uses[id]; o != nil {
						used[o] = true
					}
				}
				return true
			})
			var unused []string
			nparams := 0
			for _, f := range fr.Decl.Type.Params.List {
				if namedName(pk.TypesInfo.TypeOf(f.Type)) == "Context" {
					continue
				}
				for _, nm := range f.Names {
					if nm.Name == "_" {
						continue
					}
					nparams++
					if o := pk.TypesInfo.Defs[nm]; o != nil && !used[o] {
						unused = append(unused, nm.Name)
					}
				}
			}
			if nparams == 0 {
				continue
			}
			c.Ob(rule, relPkg(pk.PkgPath)+"."+declName(fr.Decl), fr.Decl.Pos(), len(unused) == 0, true, "%d named parameter(s); never consulted: %v", nparams, unused)
		}
	}
}

// evalPredicateHook evaluates a one-parameter boolean helper of the module on a concrete value by walking its CFG with
// evalGuard (set by c13AbsValidFunc, which owns the program; nil elsewhere, e.g. in the self-test).
var evalPredicateHook func(fn *types.Func, val string, windows bool) (tri, bool)

func makeEvalPredicate(p *Prog) func(fn *types.Func, val string, windows bool) (tri, bool) {
	depth := 0
	return func(fn *types.Func, val string, windows bool) (tri, bool) {
		fr := p.DeclOf(fn)
		if fr == nil || fr.Decl.Body == nil || fr.Decl.Type.Params == nil || len(fr.Decl.Type.Params.List) != 1 || len(fr.Decl.Type.Params.List[0].Names) != 1 || depth > 2 {
			return triUnknown, false
		}
		depth++
		defer func() { depth-- }()
		info := fr.Info()
		pv := info.Defs[fr.Decl.Type.Params.List[0].Names[0]]
		g := p.CFGOf(fr.Decl.Body, info)
		results := map[tri]bool{}
		var walk func(b *cfg.Block, seen map[int32]bool)
		walk = func(b *cfg.Block, seen map[int32]bool) {
			if seen[b.Index] {
				return
			}
			seen[b.Index] = true
			defer delete(seen, b.Index)
			for _, n := range b.Nodes {
				if r, ok := n.(*ast.ReturnStmt); ok {
					if len(r.Results) == 1 {
						results[evalGuard(info, r.Results[0], pv, val, windows)] = true
					} else {
						results[triUnknown] = true
					}
					return
				}
			}
			if cond := g.Cond(b); cond != nil {
				switch evalGuard(info, cond, pv, val, windows) {
				case triTrue:
					walk(b.Succs[0], seen)
				case triFalse:
					walk(b.Succs[1], seen)
				default:
					walk(b.Succs[0], seen)
					walk(b.Succs[1], seen)
				}
				return
			}
			for _, s := range b.Succs {
				walk(s, seen)
			}
		}
		walk(g.G.Blocks[0], map[int32]bool{})
		if len(results) == 1 {
			for r := range results {
				return r, r != triUnknown
			}
		}
		return triUnknown, false
	}
}
