package main

import (
	"fmt"
	"go/token"
	"strings"

	"golang.org/x/tools/go/packages"
	"golang.org/x/tools/go/ssa"
)

// c07CommentTokens (COMMENT-TOKENS; C07, after round-4 seed C07-k): a protobuf comment starts with `//` or `/*` and
// with nothing longer (`//x` is a line comment). Wherever the formatter classifies or strips the raw text of a comment
// by a prefix - strings.HasPrefix / CutPrefix / TrimPrefix on a value that comes from Comment.RawText() - the literal
// must be exactly one of those two tokens: with `"// "` a line comment without a space is written verbatim in the
// middle of a line and swallows the rest of that line (the output still parses, with different descriptors).
func c07CommentTokens(c *Ctx, pk *packages.Package) {
	const rule = "COMMENT-TOKENS"
	c.Rule(rule, "comment text is classified by the lexer's own comment introducers `//` and `/*`, nothing longer", 2)
	p := c.P
	n := 0
	for _, sf := range p.SSAFuncsOf([]*packages.Package{pk}) {
		for _, f := range allSSAFuncs(sf) {
			k := 0
			for _, call := range callsIn(f) {
				o := staticCalleeObj(call.Call)
				if o == nil || o.Pkg() == nil || o.Pkg().Path() != "strings" || len(call.Call.Args) != 2 {
					continue
				}
				switch o.Name() {
				case "HasPrefix", "CutPrefix", "TrimPrefix":
				default:
					continue
				}
				lit, ok := stripConv(call.Call.Args[1]).(*ssa.Const)
				if !ok || lit.Value == nil {
					continue
				}
				fromRaw := false
				for _, org := range p.Origins(call.Call.Args[0], 3) {
					if strings.HasSuffix(org, ".RawText") {
						fromRaw = true
					}
				}
				if !fromRaw {
					continue
				}
				n++
				k++
				s := strings.Trim(lit.Value.ExactString(), `"`)
				c.Ob(rule, fmt.Sprintf("%s/%s#%d", ssaFuncName(f), o.Name(), k), call.Pos(), s == "//" || s == "/*", true, "strings.%s on a comment's raw text uses the literal %q (wanted: the token // or /*)", o.Name(), s)
			}
		}
	}
	if n == 0 {
		c.Fail(rule, "anchor", token.NoPos, "no prefix test on a comment's RawText() found")
	}
}
