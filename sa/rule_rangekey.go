package main

import (
	"go/ast"
	"go/token"
	"go/types"

	"golang.org/x/tools/go/packages"
)

// rangeKeyNotIndex lists `for k := range s` loops (key only) over a slice of integers in whose body the key is never
// used to index anything: the positions of the list are iterated, its elements are never read, and the position is
// used as if it were the element. For a list of indexes into another list (FileDescriptorProto.public_dependency,
// weak_dependency, the unused-dependency indexes) that silently compares the wrong numbers:
// `for publicDepIndex := range file.GetPublicDependency()` treats 0, 1, 2 … as the public imports.
func rangeKeyNotIndex(p *Prog, pk *packages.Package) []*ast.RangeStmt {
	var out []*ast.RangeStmt
	info := pk.TypesInfo
	for _, f := range pk.Syntax {
		if isGenerated(f) {
			continue
		}
		ast.Inspect(f, func(n ast.Node) bool {
			rs, ok := n.(*ast.RangeStmt)
			if !ok || rs.Key == nil || rs.Value != nil || rs.Tok != token.DEFINE {
				return true
			}
			sl, ok := info.TypeOf(rs.X).Underlying().(*types.Slice)
			if !ok {
				return true
			}
			eb, ok := sl.Elem().Underlying().(*types.Basic)
			if !ok || eb.Info()&types.IsInteger == 0 {
				return true
			}
			key := identObj(info, rs.Key)
			if key == nil || key.Name() == "_" {
				return true
			}
			usedAsIndex, used := false, false
			ast.Inspect(rs.Body, func(m ast.Node) bool {
				switch x := m.(type) {
				case *ast.IndexExpr:
					if usesObj(info, x.Index, key) {
						usedAsIndex = true
					}
				case *ast.SliceExpr:
					for _, e := range []ast.Expr{x.Low, x.High, x.Max} {
						if e != nil && usesObj(info, e, key) {
							usedAsIndex = true
						}
					}
				case *ast.Ident:
					if info.Uses[x] == key {
						used = true
					}
				}
				return true
			})
			if used && !usedAsIndex {
				out = append(out, rs)
			}
			return true
		})
	}
	return out
}

// ruleRangeKey (RANGE-KEY-AS-ELEMENT): zero instances are expected.
func ruleRangeKey(c *Ctx, rule string, pkgs []*packages.Package) {
	c.Rule(rule, "a list of integers is not iterated by position with the position used as if it were the element", 0)
	p := c.P
	n := 0
	for _, pk := range pkgs {
		for _, rs := range rangeKeyNotIndex(p, pk) {
			n++
			fn := "?"
			if fd := p.EnclosingFuncDecl(rs); fd != nil {
				fn = relPkg(pk.PkgPath) + "." + declName(fd)
			}
			c.Ob(rule, fn+"/range-by-position", rs.Pos(), false, true, "`for %s := range %s` iterates positions of a list of integers; the body never indexes with the position and never reads the elements: the position stands in for the element", exprString(rs.Key), short(exprString(rs.X), 60))
		}
	}
	c.Ob(rule, "packages-scanned", token.NoPos, n == 0, len(pkgs) > 0, "%d packages scanned, %d position-for-element loops", len(pkgs), n)
}
