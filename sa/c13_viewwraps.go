package main

import (
	"fmt"
	"go/token"
	"go/types"
	"strings"

	"golang.org/x/tools/go/packages"
	"golang.org/x/tools/go/ssa"
)

// c13ViewWrapsArgument (VIEW-WRAPS-ARGUMENT; C13 and C14, after round-5 seed C13-a): a prefix-mapped view of a bucket
// is confined to that bucket whatever the bucket is - a disk bucket, or another view. That composes because each view
// constructor wraps exactly what it was given: the delegate handed to the package's internal constructor is the
// exported function's own bucket parameter (not something dug out of it by a type assertion), and the mapper is
// MapChain of the function's own mapper parameters (not a chain re-assembled with the mappers of an inner view, where
// the order of the chain decides which root is applied first). A constructor that does flatten nested views is
// accepted when it is written the one way that is right: the delegate is the parameter or the `delegate` member of
// what the parameter turned out to be, and the chain lists the inner view's mapper BEFORE the function's own
// (UnmapFullPath strips the inner root first; MapPath runs the list backwards).
func c13ViewWrapsArgument(c *Ctx) {
	const rule = "VIEW-WRAPS-ARGUMENT"
	c.Rule(rule, "a view constructor wraps the bucket it was given with the mappers it was given, without looking inside either", 4)
	p := c.P
	pk := p.Pkg("private/pkg/storage")
	if pk == nil {
		c.Fail(rule, "anchor", token.NoPos, "private/pkg/storage not found")
		return
	}
	isBucketIface := func(t types.Type) bool {
		np := namedPath(t)
		if !strings.HasPrefix(np, modPath+"/private/pkg/storage.") || !strings.Contains(np, "Bucket") {
			return false
		}
		_, ok := t.Underlying().(*types.Interface)
		return ok
	}
	isMapper := func(t types.Type) bool { return namedPath(t) == modPath+"/private/pkg/storage.Mapper" }
	n := 0
	for _, sf := range p.SSAFuncsOf([]*packages.Package{pk}) {
		if sf.Signature.Recv() != nil || sf.Object() == nil || !sf.Object().Exported() || len(sf.Params) == 0 {
			continue
		}
		if isBucketSlice(sf.Params[0].Type(), isBucketIface) {
			n += c13UnionWrapsArguments(c, rule, sf, isBucketIface)
			continue
		}
		if len(sf.Params) < 2 || !isBucketIface(sf.Params[0].Type()) {
			continue
		}
		// variadic mappers
		var mappers *ssa.Parameter
		for _, prm := range sf.Params[1:] {
			if sl, ok := prm.Type().Underlying().(*types.Slice); ok && isMapper(sl.Elem()) {
				mappers = prm
			}
		}
		if mappers == nil {
			continue
		}
		k := 0
		for _, call := range callsIn(sf) {
			callee := call.Call.StaticCallee()
			if callee == nil || callee.Pkg != sf.Pkg || callee.Object() == nil || callee.Object().Exported() {
				continue
			}
			for i, a := range call.Call.Args {
				switch {
				case isBucketIface(a.Type()):
					n++
					k++
					v := stripConv(a)
					for {
						if ci, ok := v.(*ssa.ChangeInterface); ok {
							v = stripConv(ci.X)
							continue
						}
						if mi, ok := v.(*ssa.MakeInterface); ok {
							v = stripConv(mi.X)
							continue
						}
						break
					}
					ok := unwrapsOnlyOwn(v, sf.Params[0], map[ssa.Value]bool{})
					c.Ob(rule, fmt.Sprintf("%s/%s#%d/delegate", sf.Name(), callee.Name(), i), call.Pos(), ok, true, "the delegate handed to %s is %s's own bucket parameter: %v", callee.Name(), sf.Name(), ok)
				case isMapper(a.Type()):
					n++
					ok := chainInnerFirst(stripConv(a), mappers, map[ssa.Value]bool{})
					c.Ob(rule, fmt.Sprintf("%s/%s#%d/mapper", sf.Name(), callee.Name(), i), call.Pos(), ok, true, "the mapper handed to %s is MapChain(%s...) of the function's own parameters: %v", callee.Name(), mappers.Name(), ok)
				}
			}
		}
	}
	if n == 0 {
		c.Fail(rule, "anchor", token.NoPos, "no view constructor found in private/pkg/storage")
	}
}

// unwrapsOnlyOwn: v is the parameter, or a member loaded from (a type assertion of) the parameter, on every path.
func unwrapsOnlyOwn(v ssa.Value, own *ssa.Parameter, seen map[ssa.Value]bool) bool {
	v = stripConv(v)
	if seen[v] {
		return true
	}
	seen[v] = true
	switch x := v.(type) {
	case *ssa.Parameter:
		return x == own
	case *ssa.ChangeInterface:
		return unwrapsOnlyOwn(x.X, own, seen)
	case *ssa.MakeInterface:
		return unwrapsOnlyOwn(x.X, own, seen)
	case *ssa.TypeAssert:
		return unwrapsOnlyOwn(x.X, own, seen)
	case *ssa.Extract:
		return unwrapsOnlyOwn(x.Tuple, own, seen)
	case *ssa.Phi:
		for _, e := range x.Edges {
			if !unwrapsOnlyOwn(e, own, seen) {
				return false
			}
		}
		return true
	case *ssa.Field:
		return unwrapsOnlyOwn(x.X, own, seen)
	case *ssa.Alloc:
		st := storesInto(x)
		for _, e := range st {
			if !unwrapsOnlyOwn(e, own, seen) {
				return false
			}
		}
		return len(st) > 0
	case *ssa.UnOp:
		if al, ok := x.X.(*ssa.Alloc); ok && x.Op == token.MUL {
			return unwrapsOnlyOwn(al, own, seen)
		}
		if fa, ok := x.X.(*ssa.FieldAddr); ok && x.Op == token.MUL {
			return unwrapsOnlyOwn(fa.X, own, seen)
		}
	}
	return false
}

// chainInnerFirst: v is MapChain(mappers...) of the own parameter, or MapChain(<member of the unwrapped bucket>,
// <such a chain>) with the inner mapper first, on every path.
func chainInnerFirst(v ssa.Value, mappers *ssa.Parameter, seen map[ssa.Value]bool) bool {
	v = stripConv(v)
	if seen[v] {
		return true
	}
	seen[v] = true
	switch x := v.(type) {
	case *ssa.Phi:
		for _, e := range x.Edges {
			if !chainInnerFirst(e, mappers, seen) {
				return false
			}
		}
		return true
	case *ssa.Call:
		o := staticCalleeObj(&x.Call)
		if o == nil || o.Name() != "MapChain" || len(x.Call.Args) != 1 {
			return false
		}
		arg := stripConv(x.Call.Args[0])
		if arg == ssa.Value(mappers) {
			return true
		}
		sl, ok := arg.(*ssa.Slice)
		if !ok {
			return false
		}
		al, ok := sl.X.(*ssa.Alloc)
		if !ok {
			return false
		}
		elems := storesInto(al)
		if len(elems) != 2 {
			return false
		}
		// first: a member of something else (the inner view's mapper); second: the own chain
		_, innerIsOwn := stripConv(elems[0]).(*ssa.Call)
		return !innerIsOwn && chainInnerFirst(elems[1], mappers, seen)
	}
	return false
}

func isBucketSlice(t types.Type, isBucketIface func(types.Type) bool) bool {
	sl, ok := t.Underlying().(*types.Slice)
	return ok && isBucketIface(sl.Elem())
}

// c13UnionWrapsArguments: the union/overlay constructors hand the list they were given to the internal constructor.
// A member that is itself a union may only be replaced by its own members when the two agree on what a path present
// in two members means (both unions, or both overlays): splicing the members of an overlay into a union turns "the
// first one wins" into "reported as a duplicate", and the other way round hides a duplicate the inner union reports.
// Accepted: the own parameter as is; or a list built by appends where a member list dug out of an element is appended
// only under a test of a boolean member of that same element.
func c13UnionWrapsArguments(c *Ctx, rule string, sf *ssa.Function, isBucketIface func(types.Type) bool) int {
	n := 0
	for _, call := range callsIn(sf) {
		callee := call.Call.StaticCallee()
		if callee == nil || callee.Pkg != sf.Pkg || callee.Object() == nil || callee.Object().Exported() {
			continue
		}
		for i, a := range call.Call.Args {
			if !isBucketSlice(a.Type(), isBucketIface) {
				continue
			}
			n++
			var bad []string
			if stripConv(a) != ssa.Value(sf.Params[0]) {
				// every load of a bucket-list member of some other value that feeds the list
				sliceBack(a, func(x ssa.Value) bool {
					u, ok := x.(*ssa.UnOp)
					if !ok || u.Op != token.MUL || !isBucketSlice(u.Type(), isBucketIface) {
						return true
					}
					fa, ok := u.X.(*ssa.FieldAddr)
					if !ok {
						return true
					}
					guarded := false
					for _, ge := range guardingEdges(u.Block()) {
						sliceBack(ge.If.Cond, func(y ssa.Value) bool {
							if fb, ok := y.(*ssa.FieldAddr); ok && fb.X == fa.X {
								if pt, ok := fb.Type().Underlying().(*types.Pointer); ok && isBoolType(pt.Elem()) {
									guarded = true
								}
							}
							return true
						})
					}
					if !guarded {
						bad = append(bad, "members of a nested "+typeShort(fa.X.Type())+" spliced in without comparing its mode")
					}
					return true
				})
			}
			c.Ob(rule, fmt.Sprintf("%s/%s#%d/members", sf.Name(), callee.Name(), i), call.Pos(), len(bad) == 0, true, "the list handed to %s is %s's own list, or nested members are spliced in only under a test of the nested bucket's mode: %v", callee.Name(), sf.Name(), uniq(bad))
		}
	}
	return n
}
