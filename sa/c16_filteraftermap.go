package main

import (
	"fmt"
	"go/token"

	"golang.org/x/tools/go/packages"
	"golang.org/x/tools/go/ssa"
)

// c16FilterAfterMap (FILTER-AFTER-MAP; C16 and C10, after round-4 seed C16-j): a v1beta1 module lists its excludes
// relative to a root. The per-root view of the module bucket is therefore built as filter(map(bucket, root), excludes):
// the exclude matchers see root-relative paths. Composed the other way round, root-relative matchers are applied to
// module-relative paths and never match - the v1beta1 workspace builds the excluded directory while the migrated v2
// workspace does not. Wherever a function of bufworkspace applies both a prefix mapping and a filter to one bucket,
// the filter's input is the mapped bucket, not the reverse.
func c16FilterAfterMap(c *Ctx, rule string) {
	c.Rule(rule, "root-relative exclude filters are applied to the root-mapped bucket", 1)
	p := c.P
	pk := p.Pkg("private/buf/bufworkspace")
	if pk == nil {
		c.Fail(rule, "anchor", token.NoPos, "bufworkspace not found")
		return
	}
	is := func(cc *ssa.CallCommon, name string) bool {
		return isFuncNamed(staticCalleeObj(cc), "private/pkg/storage", "", name)
	}
	n := 0
	for _, sf := range p.SSAFuncsOf([]*packages.Package{pk}) {
		for _, f := range allSSAFuncs(sf) {
			var maps, filters []ssaCall
			for _, call := range callsIn(f) {
				switch {
				case is(call.Call, "MapReadBucket"):
					maps = append(maps, call)
				case is(call.Call, "FilterReadBucket"):
					filters = append(filters, call)
				}
			}
			if len(maps) == 0 || len(filters) == 0 {
				continue
			}
			for i, fl := range filters {
				if len(fl.Call.Args) == 0 {
					continue
				}
				// only filters that are composed with a mapping at all
				onMapped := dependsOnCall(fl.Call.Args[0], func(cc *ssa.CallCommon) bool { return is(cc, "MapReadBucket") })
				mappedOnFiltered := false
				for _, m := range maps {
					if len(m.Call.Args) > 0 && dependsOnValue(m.Call.Args[0], fl.Instr.(ssa.Value)) {
						mappedOnFiltered = true
					}
				}
				if !onMapped && !mappedOnFiltered {
					continue
				}
				n++
				c.Ob(rule, fmt.Sprintf("%s/filter#%d", ssaFuncName(f), i+1), fl.Pos(), onMapped && !mappedOnFiltered, true, "the filter's input is the mapped bucket: %v; a mapping is applied on top of the filtered bucket: %v", onMapped, mappedOnFiltered)
			}
		}
	}
	if n == 0 {
		c.Fail(rule, "anchor", token.NoPos, "no composition of MapReadBucket and FilterReadBucket found in bufworkspace")
	}
}
