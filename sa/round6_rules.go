package main

import (
	"fmt"
	"go/token"
	"go/types"
	"strings"

	"golang.org/x/tools/go/packages"
	"golang.org/x/tools/go/ssa"
)

// ---- C08 (after round-6 seed C08-q) --------------------------------------------------------------------------------

// c08SortedFieldSorted (SORTED-FIELD-SORTED): a struct member whose name says it is sorted (`sortedUniqueFileNodes`) is
// what String(), ManifestToDigest and every reader rely on for the canonical order. Every store into such a member, in
// the content-addressing packages, stores a slice that the same function has handed to a sorter (or that is the
// result of a function that sorts on all paths). "The text we parsed is already in order" is an assumption about the
// input, not a property of the value.
func c08SortedFieldSorted(c *Ctx) {
	const rule = "SORTED-FIELD-SORTED"
	c.Rule(rule, "what is stored into a member named sorted… was sorted by the function that stores it", 1)
	p := c.P
	n := 0
	for _, rel := range []string{"private/bufpkg/bufcas", "private/bufpkg/bufmodule"} {
		pk := p.Pkg(rel)
		if pk == nil {
			continue
		}
		for _, sf := range p.SSAFuncsOf([]*packages.Package{pk}) {
			for _, f := range allSSAFuncs(sf) {
				for _, b := range f.Blocks {
					for _, ins := range b.Instrs {
						st, ok := ins.(*ssa.Store)
						if !ok {
							continue
						}
						fa, ok := st.Addr.(*ssa.FieldAddr)
						if !ok {
							continue
						}
						fn := fieldName(fa.X.Type(), fa.Field)
						short := fn[strings.LastIndex(fn, ".")+1:]
						if !strings.HasPrefix(strings.ToLower(short), "sorted") {
							continue
						}
						if _, isSlice := st.Val.Type().Underlying().(*types.Slice); !isSlice {
							continue
						}
						n++
						sorted := false
						v := stripConv(st.Val)
						// handed to an in-place sorter in this function, before the store
						for _, call := range callsIn(f) {
							o := staticCalleeObj(call.Call)
							if o == nil || len(call.Call.Args) == 0 {
								continue
							}
							if callSortsObj(p, o) && (stripConv(call.Call.Args[0]) == v || sameCell(call.Call.Args[0], v)) && instrDominates(call.Instr, st) {
								sorted = true
							}
						}
						// or produced by something that sorts
						if cl, ok := v.(*ssa.Call); ok {
							if o := staticCalleeObj(&cl.Call); o != nil && callSortsObj(p, o) {
								sorted = true
							}
						}
						// or a parameter of an unexported constructor all of whose callers pass a sorted value: undecided → ask the callers
						if prm, ok := v.(*ssa.Parameter); ok && !sorted {
							sorted = dominatedByCallUp(p, st, func(cc *ssa.CallCommon) bool {
								o := staticCalleeObj(cc)
								return o != nil && callSortsObj(p, o)
							}, 1) && prm != nil
						}
						c.Ob(rule, fmt.Sprintf("%s/%s", ssaFuncName(f), short), st.Pos(), sorted, true, "the slice stored into %s was sorted in this function (or comes from a sorting function): %v", fn, sorted)
					}
				}
			}
		}
	}
	if n == 0 {
		c.Fail(rule, "anchor", token.NoPos, "no store into a member named sorted… found in bufcas/bufmodule")
	}
}

// callSortsObj: the function is an in-place sorter of the standard library or a module function that sorts.
func callSortsObj(p *Prog, o *types.Func) bool {
	if o == nil || o.Pkg() == nil {
		return false
	}
	switch o.Pkg().Path() {
	case "sort":
		return o.Name() == "Slice" || o.Name() == "SliceStable" || o.Name() == "Strings" || o.Name() == "Sort" || o.Name() == "Stable"
	case "slices":
		return strings.HasPrefix(o.Name(), "Sort")
	}
	return callSorts(p, o, 1)
}

// ---- generic (after round-6 seed C02-q) ----------------------------------------------------------------------------

// indexedReturnedUnsorted lists returns that hand the caller slicesext.IndexedToValues(…) directly: values gathered
// under their request index (cache hits first, fetched ones after) leave the function in gathering order.
// IndexedToSortedValues puts them back in request order; IndexedToValues is for feeding a further request, where order
// does not matter.
func indexedReturnedUnsorted(f *ssa.Function) []*ssa.Return {
	var out []*ssa.Return
	if f.Pkg != nil && strings.HasSuffix(f.Pkg.Pkg.Path(), "/private/pkg/slicesext") {
		return nil // IndexedToSortedValues itself: sorts a copy, then converts
	}
	if o := f.Origin(); o != nil && o.Pkg != nil && strings.HasSuffix(o.Pkg.Pkg.Path(), "/private/pkg/slicesext") {
		return nil
	}
	for _, r := range returnsOf(f) {
		for _, res := range r.Results {
			if cl, ok := stripConv(res).(*ssa.Call); ok {
				if o := staticCalleeObj(&cl.Call); o != nil && o.Pkg() != nil && strings.HasSuffix(o.Pkg().Path(), "/private/pkg/slicesext") && o.Name() == "IndexedToValues" {
					out = append(out, r)
				}
			}
		}
	}
	return out
}

func ruleIndexedReturn(c *Ctx, rule string, pkgs []*packages.Package) {
	c.Rule(rule, "values gathered under their request index are returned in request order (IndexedToSortedValues)", 0)
	p := c.P
	n, sites := 0, 0
	for _, sf := range p.SSAFuncsOf(pkgs) {
		for _, f := range allSSAFuncs(sf) {
			for _, call := range callsIn(f) {
				if o := staticCalleeObj(call.Call); o != nil && o.Pkg() != nil && strings.HasSuffix(o.Pkg().Path(), "/private/pkg/slicesext") && strings.HasPrefix(o.Name(), "IndexedTo") {
					sites++
				}
			}
			for _, r := range indexedReturnedUnsorted(f) {
				n++
				c.Ob(rule, ssaFuncName(f)+"/return", r.Pos(), false, true, "%s returns IndexedToValues(…): the values leave in the order they were gathered, not in the order of the request", ssaFuncName(f))
			}
		}
	}
	c.Ob(rule, "functions-scanned", token.NoPos, n == 0, true, "%d IndexedTo… calls scanned, %d unsorted returns", sites, n)
}

// ---- C02/C01 (after round-6 seed C02-r) ----------------------------------------------------------------------------

// c02ImageListsSorted (IMAGE-LISTS-SORTED): the order of the files in an image - and with it the bytes of every
// encoding - is the order of the path list handed to the compiler (checkAndSortFiles re-orders the compiled files INTO
// that order, it does not sort). The image builder takes that list from the sorted accessors of bufmodule
// (GetTargetFileInfos / GetFileInfos), never from the raw WalkFileInfos, whose order is the storage backend's and the
// --path arguments'.
func c02ImageListsSorted(c *Ctx) {
	const rule = "IMAGE-LISTS-SORTED"
	c.Rule(rule, "the image builder takes its file lists from the sorted accessors, never from the raw walk", 1)
	p := c.P
	pk := p.Pkg("private/bufpkg/bufimage")
	if pk == nil {
		c.Fail(rule, "anchor", token.NoPos, "bufimage not found")
		return
	}
	raw, sorted := 0, 0
	for _, sf := range p.SSAFuncsOf([]*packages.Package{pk}) {
		for _, f := range allSSAFuncs(sf) {
			for _, call := range callsIn(f) {
				if call.Call.IsInvoke() && call.Call.Method.Name() == "WalkFileInfos" {
					raw++
					c.Ob(rule, ssaFuncName(f)+"/WalkFileInfos", call.Pos(), false, true, "%s walks the module's files itself: the order is the backend's, not sorted", ssaFuncName(f))
				}
				if o := staticCalleeObj(call.Call); o != nil && (o.Name() == "GetTargetFileInfos" || o.Name() == "GetFileInfos") {
					sorted++
				}
			}
		}
	}
	c.Ob(rule, "bufimage/sorted-accessors", token.NoPos, sorted > 0 && raw == 0, true, "%d use(s) of the sorted accessors, %d raw walk(s)", sorted, raw)
}

// ---- generic (after round-6 seed C09-q) ----------------------------------------------------------------------------

// memoDropsResult lists memoising closures that remember THAT they ran but not WHAT they returned: a captured boolean
// is tested first and, when set, a constant is returned; elsewhere the boolean is set after a call whose result is
// returned to the first caller only and stored nowhere. `sync.OnceValue` replaced by a hand-written "once it completed"
// wrapper of this shape reports a digest mismatch to the first accessor and success to every later one.
func memoDropsResult(f *ssa.Function) bool {
	if f.Parent() == nil || len(f.FreeVars) == 0 {
		return false
	}
	for _, fv := range f.FreeVars {
		pt, ok := fv.Type().Underlying().(*types.Pointer)
		if !ok || !isBoolType(pt.Elem()) {
			continue
		}
		// set to true somewhere
		var set *ssa.Store
		for _, r := range *fv.Referrers() {
			if st, ok := r.(*ssa.Store); ok && st.Addr == ssa.Value(fv) {
				if cst, ok := st.Val.(*ssa.Const); ok && cst.Value != nil && cst.Value.String() == "true" {
					set = st
				}
			}
		}
		if set == nil {
			continue
		}
		// tested, with a constant return on the set edge
		constOnSet := false
		for _, b := range f.Blocks {
			i := ifOf(b)
			if i == nil {
				continue
			}
			cv, pos := condPolarity(i.Cond)
			ld, ok := cv.(*ssa.UnOp)
			if !ok || ld.X != ssa.Value(fv) {
				continue
			}
			succ := b.Succs[0]
			if !pos {
				succ = b.Succs[1]
			}
			if r, ok := succ.Instrs[len(succ.Instrs)-1].(*ssa.Return); ok && len(r.Results) > 0 {
				allConst := true
				for _, res := range r.Results {
					if _, isC := stripConv(spilledResult(r, res)).(*ssa.Const); !isC {
						allConst = false
					}
				}
				if allConst {
					constOnSet = true
				}
			}
		}
		if !constOnSet {
			continue
		}
		// the computed result: a call result that is returned and never stored into a captured variable
		for _, r := range returnsOf(f) {
			for _, res := range r.Results {
				v := stripConv(spilledResult(r, res))
				var call ssa.Value
				switch t := v.(type) {
				case *ssa.Call:
					call = t
				case *ssa.Extract:
					call = t
				}
				if call == nil || call.Referrers() == nil {
					continue
				}
				kept := false
				for _, ref := range *call.Referrers() {
					if st, ok := ref.(*ssa.Store); ok {
						if _, toFree := st.Addr.(*ssa.FreeVar); toFree {
							kept = true
						}
					}
				}
				if !kept {
					return true
				}
			}
		}
	}
	return false
}

func ruleMemoDropsResult(c *Ctx, rule string, pkgs []*packages.Package) {
	c.Rule(rule, "a memoising closure remembers the result it computed, not only that it ran", 0)
	p := c.P
	n, fns := 0, 0
	for _, sf := range p.SSAFuncsOf(pkgs) {
		for _, f := range allSSAFuncs(sf) {
			fns++
			if memoDropsResult(f) {
				n++
				c.Ob(rule, ssaFuncName(f)+"/memo", f.Pos(), false, true, "%s returns a constant once its done-flag is set, and the result it computed the first time is stored nowhere: later callers get the constant", ssaFuncName(f))
			}
		}
	}
	c.Ob(rule, "functions-scanned", token.NoPos, n == 0, fns > 0, "%d functions scanned, %d memoising closures that drop their result", fns, n)
}

// sameCell: both values are loads of one local cell (a variable captured by the comparison closure is spilled, and
// every use of it is a separate load).
func sameCell(a, b ssa.Value) bool {
	ua, ok1 := stripConv(a).(*ssa.UnOp)
	ub, ok2 := stripConv(b).(*ssa.UnOp)
	if !ok1 || !ok2 || ua.Op != token.MUL || ub.Op != token.MUL {
		return false
	}
	al, isAlloc := ua.X.(*ssa.Alloc)
	return isAlloc && ub.X == ssa.Value(al)
}

// ---- C10 (after round-6 seed C10-q) --------------------------------------------------------------------------------

// c10NodeAlwaysConsidered (NODE-ALWAYS-CONSIDERED): "each module's reported dependencies are exactly the modules
// reachable…" starts with every module being a node of the graph, edges or not: a stand-alone target module has no
// dependent whose AddEdge would add it. In every function that adds nodes to a dag.Graph, no success return is
// reached without passing the point where the decision to add the node is taken (the outermost condition guarding
// AddNode, or the call itself when it is unguarded).
func c10NodeAlwaysConsidered(c *Ctx) {
	const rule = "NODE-ALWAYS-CONSIDERED"
	c.Rule(rule, "a graph builder decides about adding the node before any success return", 1)
	p := c.P
	n := 0
	for _, rel := range []string{"private/bufpkg/bufmodule", "private/buf/bufworkspace"} {
		pk := p.Pkg(rel)
		if pk == nil {
			continue
		}
		for _, sf := range p.SSAFuncsOf([]*packages.Package{pk}) {
			var add *ssa.Call
			for _, call := range callsIn(sf) {
				if o := staticCalleeObj(call.Call); o != nil && o.Name() == "AddNode" && o.Pkg() != nil && strings.HasSuffix(o.Pkg().Path(), "/private/pkg/dag") {
					if cv, ok := call.Instr.(*ssa.Call); ok {
						add = cv
					}
				}
			}
			if add == nil {
				continue
			}
			// the decision point: the outermost guard of the call
			decision := add.Block()
			if len(decision.Preds) > 0 {
				// conditional: go up to where the (possibly short-circuit) condition starts
				decision = decision.Idom()
				for decision != nil && decision.Idom() != nil && (decision.Comment == "cond.true" || decision.Comment == "cond.false" || decision.Comment == "binop.rhs") {
					decision = decision.Idom()
				}
			}
			if decision == nil {
				decision = add.Block()
			}
			n++
			var early []string
			for _, r := range returnsOf(sf) {
				success := true
				for _, res := range r.Results {
					if isErrorType(res.Type()) && !isNilConst(spilledResult(r, res)) {
						success = false
					}
				}
				if success && !decision.Dominates(r.Block()) {
					early = append(early, p.Pos(r.Pos()))
				}
			}
			c.Ob(rule, ssaFuncName(sf)+"/AddNode", add.Pos(), len(early) == 0, true, "every success return comes after the decision about AddNode (returns before it: %v)", early)
		}
	}
	if n == 0 {
		c.Fail(rule, "anchor", token.NoPos, "no function adding nodes to a dag.Graph found")
	}
}

// c10TrackerTracksAll (TRACKER-TRACKS-ALL): "a path provided by two modules … is reported as an error rather than
// resolved arbitrarily" is decided by the proto file tracker, which can only see what it is told about: its track*
// methods record every module and file they are handed, whatever the module's kind. No return of a tracking method is
// control-dependent on IsLocal / IsTarget of what is being tracked.
func c10TrackerTracksAll(c *Ctx) {
	const rule = "TRACKER-TRACKS-ALL"
	c.Rule(rule, "the proto file tracker records every module and file it is handed, local or remote", 2)
	p := c.P
	pk := p.Pkg("private/bufpkg/bufmodule")
	if pk == nil {
		c.Fail(rule, "anchor", token.NoPos, "bufmodule not found")
		return
	}
	n := 0
	for _, sf := range p.SSAFuncsOf([]*packages.Package{pk}) {
		if sf.Signature.Recv() == nil || !strings.HasSuffix(namedPath(derefType(sf.Signature.Recv().Type())), "bufmodule.protoFileTracker") || !strings.HasPrefix(sf.Name(), "track") {
			continue
		}
		n++
		var kinds []string
		for _, b := range sf.Blocks {
			i := ifOf(b)
			if i == nil {
				continue
			}
			sliceBack(i.Cond, func(x ssa.Value) bool {
				if cl, ok := x.(*ssa.Call); ok && cl.Call.IsInvoke() && (cl.Call.Method.Name() == "IsLocal" || cl.Call.Method.Name() == "IsTarget") {
					kinds = append(kinds, cl.Call.Method.Name())
				}
				return true
			})
		}
		c.Ob(rule, ssaFuncName(sf)+"/kind-blind", sf.Pos(), len(kinds) == 0, true, "no branch of the tracking method asks for the kind of what it tracks (asked: %v)", uniq(kinds))
	}
	if n == 0 {
		c.Fail(rule, "anchor", token.NoPos, "no track* method of protoFileTracker found")
	}
}

// ---- C12 (after round-6 seeds C12-q, C12-r) ------------------------------------------------------------------------

// c12PackageMeansPackage (PACKAGE-MEANS-PACKAGE): a package name in a filter means that package - the include side and
// the exclude side must agree on it, or `include: acme.pay.v1.Payment, exclude: acme` contradicts itself. Whoever
// resolves a name through imageIndex.Packages reads the same members of the package entry: if one reader follows
// subPackages, all do. (Today none does.)
func c12PackageMeansPackage(c *Ctx, pk *packages.Package) {
	const rule = "PACKAGE-MEANS-PACKAGE"
	c.Rule(rule, "the include and exclude sides resolve a package name to the same set of files", 1)
	p := c.P
	type reader struct {
		f    *ssa.Function
		subs bool
	}
	var readers []reader
	for _, sf := range p.SSAFuncsOf([]*packages.Package{pk}) {
		looksUp := false
		subs := false
		for _, f := range allSSAFuncs(sf) {
			for _, b := range f.Blocks {
				for _, ins := range b.Instrs {
					switch t := ins.(type) {
					case *ssa.Lookup:
						if u, ok := stripConv(t.X).(*ssa.UnOp); ok {
							if fa, ok := u.X.(*ssa.FieldAddr); ok && strings.HasSuffix(fieldName(fa.X.Type(), fa.Field), "imageIndex.Packages") {
								looksUp = true
							}
						}
					case *ssa.FieldAddr:
						if strings.HasSuffix(fieldName(t.X.Type(), t.Field), "packageInfo.subPackages") {
							subs = true
						}
					}
				}
			}
		}
		if looksUp && sf.Signature.Recv() != nil {
			readers = append(readers, reader{sf, subs})
		}
	}
	if len(readers) < 2 {
		c.Fail(rule, "anchor", token.NoPos, "expected an include and an exclude reader of imageIndex.Packages, found %d", len(readers))
		return
	}
	any := false
	for _, r := range readers {
		any = any || r.subs
	}
	for _, r := range readers {
		c.Ob(rule, ssaFuncName(r.f)+"/sub-packages", r.f.Pos(), r.subs == any, true, "follows sub-packages: %v; some reader of imageIndex.Packages does: %v", r.subs, any)
	}
}

// c12KeptUnlessExcluded (KEPT-UNLESS-EXCLUDED): with no include list, every non-import file of the image is added to
// the closure unless it was excluded - a file that declares no types (options only, or a hub of `import public`) is
// still a file of the image and is kept by being added. In the loop of the filter that adds whole files, the only
// branches that pass over a file ask whether it is an import or whether its mode is `excluded`.
func c12KeptUnlessExcluded(c *Ctx, pk *packages.Package) {
	const rule = "KEPT-UNLESS-EXCLUDED"
	c.Rule(rule, "the exclude-only filter passes over a file only because it is an import or excluded", 1)
	p := c.P
	n := 0
	for _, sf := range p.SSAFuncsOf([]*packages.Package{pk}) {
		for _, call := range callsIn(sf) {
			o := staticCalleeObj(call.Call)
			if o == nil || o.Name() != "addElement" || sf.Name() == "addElement" {
				continue
			}
			u := call.Instr.Block()
			var h *ssa.BasicBlock
			var loop map[*ssa.BasicBlock]bool
			for _, b := range sf.Blocks {
				if l := loopBlocks(b); l != nil && l[u] && (loop == nil || len(l) < len(loop)) {
					h, loop = b, l
				}
			}
			if h == nil || (h.Comment != "rangeindex.loop" && h.Comment != "rangeiter.loop") {
				continue
			}
			// a loop over the image's files: the ranged value comes from an invoke of Files()
			overFiles := false
			for _, b := range sf.Blocks {
				for _, ins := range b.Instrs {
					if cl, ok := ins.(*ssa.Call); ok && cl.Call.IsInvoke() && cl.Call.Method.Name() == "Files" && b.Dominates(h) {
						overFiles = true
					}
				}
			}
			if !overFiles {
				continue
			}
			n++
			var bad []string
			for b := range loop {
				i := ifOf(b)
				if i == nil || b == u || u.Dominates(b) || b == h {
					continue
				}
				reaches, skips := false, false
				for _, s := range b.Succs {
					if !loop[s] {
						continue
					}
					if s == u || blockReachesAvoiding(s, u, h) {
						reaches = true
					} else {
						skips = true
					}
				}
				if !(reaches && skips) {
					continue
				}
				cv, _ := condPolarity(i.Cond)
				okCond := false
				if cl, isCall := stripConv(cv).(*ssa.Call); isCall && cl.Call.IsInvoke() && cl.Call.Method.Name() == "IsImport" {
					okCond = true
				}
				if bo, isBin := cv.(*ssa.BinOp); isBin && (bo.Op == token.EQL || bo.Op == token.NEQ) {
					for _, op := range []ssa.Value{bo.X, bo.Y} {
						if cst, ok := op.(*ssa.Const); ok && strings.HasSuffix(namedPath(cst.Type()), "closureInclusionMode") {
							okCond = true
						}
					}
				}
				if !okCond {
					at := i.Cond.Pos()
					for k := len(b.Instrs) - 1; k >= 0 && at == token.NoPos; k-- {
						at = b.Instrs[k].Pos()
					}
					bad = append(bad, p.Pos(at))
				}
			}
			c.Ob(rule, ssaFuncName(sf)+"/whole-file-loop", call.Pos(), len(bad) == 0, true, "branches that pass over a file for another reason than IsImport / excluded: %v", bad)
		}
	}
	if n == 0 {
		c.Fail(rule, "anchor", token.NoPos, "no loop over image.Files() adding whole files to the closure found")
	}
}

// ---- C19 (after round-6 seeds C19-q, C19-r) ------------------------------------------------------------------------

// c19NoHeaderForwarding (HEADER-WRITER, redirects and bulk copies; C19): the Authorization header is attached by the
// interceptor for the host the client was made for, and net/http drops it when a redirect leaves that host. Two
// things would undo that: a redirect policy of our own (http.Client.CheckRedirect), and copying one request's headers
// onto another wholesale (a store into a Header map under a key that is not a constant). In the module's HTTP
// transport and client-building packages neither occurs.
func c19NoHeaderForwarding(c *Ctx) {
	const rule = "HEADER-WRITER"
	p := c.P
	var pkgs []*packages.Package
	for _, pk := range p.ModulePkgs() {
		rel := relPkg(pk.PkgPath)
		if strings.HasPrefix(rel, "private/pkg/transport/http") || rel == "private/pkg/connectclient" || rel == "private/bufpkg/bufconnect" || rel == "private/buf/bufcli" || rel == "private/bufpkg/buftransport" {
			pkgs = append(pkgs, pk)
		}
	}
	var redirect, bulk []string
	for _, sf := range p.SSAFuncsOf(pkgs) {
		for _, f := range allSSAFuncs(sf) {
			for _, b := range f.Blocks {
				for _, ins := range b.Instrs {
					switch t := ins.(type) {
					case *ssa.Store:
						if fa, ok := t.Addr.(*ssa.FieldAddr); ok && fieldName(fa.X.Type(), fa.Field) == "net/http.Client.CheckRedirect" {
							redirect = append(redirect, ssaFuncName(f))
						}
					case *ssa.MapUpdate:
						if namedPath(t.Map.Type()) == "net/http.Header" {
							if _, isConst := stripConv(t.Key).(*ssa.Const); !isConst {
								bulk = append(bulk, ssaFuncName(f))
							}
						}
					}
				}
			}
		}
	}
	c.Ob(rule, "transport/no-own-redirect-policy", token.NoPos, len(redirect) == 0, len(pkgs) > 0, "no http.Client of the transport packages sets CheckRedirect (net/http's default drops Authorization when a redirect leaves the host): %v", uniq(redirect))
	c.Ob(rule, "transport/no-bulk-header-copy", token.NoPos, len(bulk) == 0, len(pkgs) > 0, "no store into an http.Header under a computed key (headers copied from another request): %v", uniq(bulk))
}

// c19OneNetrcFile (NETRC-LOOKUP, one file; C19): "the .netrc machine for that host (or its default entry)" is a lookup
// in the netrc file in force - $NETRC when set, the home file otherwise - and in no other: an empty $NETRC is how one
// switches netrc credentials off. The function that resolves the file and looks the machine up performs exactly one
// lookup on every path.
func c19OneNetrcFile(c *Ctx) {
	const rule = "NETRC-LOOKUP"
	p := c.P
	fr := p.Func("private/pkg/netrc", "GetMachineForName")
	if fr == nil || fr.Obj == nil {
		c.Fail(rule, "GetMachineForName", token.NoPos, "not found")
		return
	}
	sf := p.SSAFunc(fr.Obj)
	var lookups []*ssa.BasicBlock
	for _, call := range callsIn(sf) {
		if o := staticCalleeObj(call.Call); o != nil && o.Name() == "GetMachineForNameAndFilePath" {
			lookups = append(lookups, call.Instr.Block())
		}
	}
	// two lookups are fine only if they are alternatives (neither reaches the other)
	chained := false
	for i, a := range lookups {
		for j, b := range lookups {
			if i != j && blockReaches(a, b) {
				chained = true
			}
		}
	}
	c.Ob(rule, "GetMachineForName/one-file", fr.Decl.Pos(), len(lookups) >= 1 && !chained, true, "%d lookup(s) by file; one is tried after another: %v", len(lookups), chained)
}

// ---- C20 (after round-6 seeds C20-p, C20-r) ------------------------------------------------------------------------

// c20AccessorsPlain (ACCESSORS-PLAIN): the printers of the five formats read an annotation partly through its accessors
// (json, msvs, github-actions) and partly through the members themselves (String(), which the text and junit formats
// use). They agree because an accessor is a plain read of its member. Every argument-less accessor of the annotation
// type returns a member of the receiver as it is - no call in between.
func c20AccessorsPlain(c *Ctx) {
	const rule = "ACCESSORS-PLAIN"
	c.Rule(rule, "the accessors of a file annotation return the stored member unchanged", 4)
	p := c.P
	pk := p.Pkg("private/bufpkg/bufanalysis")
	if pk == nil {
		c.Fail(rule, "anchor", token.NoPos, "bufanalysis not found")
		return
	}
	for _, sf := range p.SSAFuncsOf([]*packages.Package{pk}) {
		if sf.Signature.Recv() == nil || !strings.HasSuffix(namedPath(derefType(sf.Signature.Recv().Type())), "bufanalysis.fileAnnotation") {
			continue
		}
		if sf.Signature.Params().Len() != 0 || sf.Signature.Results().Len() != 1 || sf.Name() == "String" || strings.HasPrefix(sf.Name(), "is") {
			continue
		}
		// the accessors are what the interface offers to the printers; unexported helpers of String() are part of String()
		if !token.IsExported(sf.Name()) {
			continue
		}
		plain := true
		for _, r := range returnsOf(sf) {
			v := stripConv(r.Results[0])
			if mi, ok := v.(*ssa.MakeInterface); ok {
				v = stripConv(mi.X)
			}
			u, ok := v.(*ssa.UnOp)
			if !ok || u.Op != token.MUL {
				plain = false
				continue
			}
			if fa, ok := u.X.(*ssa.FieldAddr); !ok || stripConv(fa.X) != ssa.Value(sf.Params[0]) {
				plain = false
			}
		}
		c.Ob(rule, ssaFuncName(sf)+"/plain", sf.Pos(), plain, true, "%s returns a member of the receiver as stored: %v", sf.Name(), plain)
	}
}

// c20ClampByConstantOnly (POSITION-CLAMPED, independent components): positions are made printable by clamping each
// component against a constant (`atLeast1`), the same way in every format. A component is never clamped against
// another component: a range that ends on a later line may well end in an earlier column.
func c20ClampByConstantOnly(c *Ctx) {
	const rule = "POSITION-CLAMPED"
	p := c.P
	pk := p.Pkg("private/bufpkg/bufanalysis")
	if pk == nil {
		return
	}
	isPos := func(cc *ssa.CallCommon) string {
		if cc.IsInvoke() {
			switch cc.Method.Name() {
			case "StartLine", "StartColumn", "EndLine", "EndColumn":
				return cc.Method.Name()
			}
		}
		return ""
	}
	var mixed []string
	n := 0
	for _, sf := range p.SSAFuncsOf([]*packages.Package{pk}) {
		for _, f := range allSSAFuncs(sf) {
			for _, call := range callsIn(f) {
				bi, ok := call.Call.Value.(*ssa.Builtin)
				if !ok || (bi.Name() != "max" && bi.Name() != "min") {
					continue
				}
				comps := map[string]bool{}
				for _, a := range call.Call.Args {
					sliceBack(a, func(x ssa.Value) bool {
						if cl, ok := x.(*ssa.Call); ok {
							if nm := isPos(&cl.Call); nm != "" {
								comps[nm] = true
							}
						}
						return true
					})
				}
				if len(comps) > 0 {
					n++
				}
				if len(comps) > 1 {
					mixed = append(mixed, ssaFuncName(f)+": "+strings.Join(sortedKeys(comps), "+"))
				}
			}
		}
	}
	c.Ob(rule, "bufanalysis/components-independent", token.NoPos, len(mixed) == 0, true, "no min/max relates two position components (%d min/max calls over positions): %v", n, mixed)
}

// ---- C03/C04 (after round-6 seeds C03-q, C04-p) --------------------------------------------------------------------

// c03CompareFirst (COMPARE-FIRST): a "same value" helper is handed the current and the previous value and reports when
// they differ. Whether there is a source location to point at (images built without source info have none) or whether
// the current value is empty (the package statement was removed) decides where the annotation points, never whether
// the comparison takes place. In the breaking-rule handlers, a function that compares two of its own parameters with
// == / != returns success only after that comparison.
func c03CompareFirst(c *Ctx, rule string, pk *packages.Package) {
	c.Rule(rule, "a helper that compares two of its parameters does so before any success return", 1)
	p := c.P
	n := 0
	for _, sf := range p.SSAFuncsOf([]*packages.Package{pk}) {
		var cmp *ssa.BinOp
		for _, b := range sf.Blocks {
			for _, ins := range b.Instrs {
				bo, ok := ins.(*ssa.BinOp)
				if !ok || (bo.Op != token.EQL && bo.Op != token.NEQ) {
					continue
				}
				px, okx := stripConv(bo.X).(*ssa.Parameter)
				py, oky := stripConv(bo.Y).(*ssa.Parameter)
				if okx && oky && px != py && types.Identical(px.Type(), py.Type()) && !isBoolType(px.Type()) {
					if cmp == nil || bo.Block().Dominates(cmp.Block()) {
						cmp = bo
					}
				}
			}
		}
		if cmp == nil {
			continue
		}
		n++
		var early []string
		for _, r := range returnsOf(sf) {
			success := true
			for _, res := range r.Results {
				if isErrorType(res.Type()) && !isNilConst(spilledResult(r, res)) {
					success = false
				}
			}
			if success && !cmp.Block().Dominates(r.Block()) {
				early = append(early, p.Pos(r.Pos()))
			}
		}
		c.Ob(rule, ssaFuncName(sf)+"/"+cmp.X.Name()+"-"+cmp.Y.Name(), cmp.Pos(), len(early) == 0, true, "every success return comes after the comparison of %s with %s (returns before it: %v)", cmp.X.Name(), cmp.Y.Name(), early)
	}
	if n == 0 {
		c.Fail(rule, "anchor", token.NoPos, "no helper comparing two of its parameters found")
	}
}

// c03ReservedMeansReserved (RESERVED-MEANS-RESERVED; C03, after round-6 seed C03-r): "unless the number is reserved"
// means listed in a `reserved` statement. An extension range is the opposite of a reservation: it invites other files
// to use the number, with any type. Wherever the handlers ask NumberInReservedRanges / NameInReservedNames, the
// ranges and names they pass come from the Reserved… accessors of the element and from nothing else.
func c03ReservedMeansReserved(c *Ctx, rule string, pk *packages.Package) {
	c.Rule(rule, "the reservation exemptions consult the element's reserved ranges and names only", 2)
	p := c.P
	n := 0
	for _, sf := range p.SSAFuncsOf([]*packages.Package{pk}) {
		for _, f := range allSSAFuncs(sf) {
			k := 0
			for _, call := range callsIn(f) {
				o := staticCalleeObj(call.Call)
				if o == nil || (o.Name() != "NumberInReservedRanges" && o.Name() != "NameInReservedNames") || len(call.Call.Args) < 2 {
					continue
				}
				n++
				k++
				var other []string
				reserved := false
				for _, a := range call.Call.Args[1:] {
					sliceBack(a, func(x ssa.Value) bool {
						if cl, ok := x.(*ssa.Call); ok && cl.Call.IsInvoke() {
							nm := cl.Call.Method.Name()
							switch {
							case strings.HasPrefix(nm, "Reserved"):
								reserved = true
							case strings.Contains(nm, "Range") || strings.Contains(nm, "Names") || strings.Contains(nm, "Extension"):
								other = append(other, nm)
							}
						}
						return true
					})
				}
				c.Ob(rule, fmt.Sprintf("%s/%s#%d", ssaFuncName(f), o.Name(), k), call.Pos(), reserved && len(other) == 0, true, "the list searched comes from a Reserved… accessor (%v) and from no other range/name accessor: %v", reserved, uniq(other))
			}
		}
	}
	if n == 0 {
		c.Fail(rule, "anchor", token.NoPos, "no reservation lookup found")
	}
}

// ---- C08 (after round-6 seed C08-p) --------------------------------------------------------------------------------

// c08DigestStateless (DIGEST-STATELESS): a digest "depends on exactly the set of (path, content) pairs": not on what the
// process hashed before. The functions reachable from the digest entry points hold no memory between calls: they
// neither write a package-level variable nor call a method on one (a package-level sync.Map or cache keyed by local
// path, size and mtime answers for bytes it has not read).
func c08DigestStateless(c *Ctx) {
	const rule = "DIGEST-STATELESS"
	c.Rule(rule, "digest computation keeps no state between calls: no package-level variable is written or used as a cache", 2)
	p := c.P
	n := 0
	for _, name := range []string{"getB4Digest", "getFilesDigestForB5Digest", "getB5DigestForBucketAndModuleDeps"} {
		fr := p.Func("private/bufpkg/bufmodule", name)
		if fr == nil || fr.Obj == nil {
			continue
		}
		n++
		var state []string
		for _, f := range reachSSAWithValues(p.SSAFunc(fr.Obj), 3) {
			if f.Pkg != nil {
				rel := relPkg(f.Pkg.Pkg.Path())
				if rel != "private/bufpkg/bufmodule" && rel != "private/bufpkg/bufcas" && rel != "private/pkg/shake256" {
					continue
				}
			}
			for _, b := range f.Blocks {
				for _, ins := range b.Instrs {
					switch t := ins.(type) {
					case *ssa.Store:
						if g, ok := t.Addr.(*ssa.Global); ok {
							state = append(state, "write of "+g.Name()+" in "+f.Name())
						}
					case *ssa.MapUpdate:
						if u, ok := stripConv(t.Map).(*ssa.UnOp); ok {
							if g, ok := u.X.(*ssa.Global); ok {
								state = append(state, "map store into "+g.Name()+" in "+f.Name())
							}
						}
					case *ssa.Call:
						if !t.Call.IsInvoke() && len(t.Call.Args) > 0 {
							if g, ok := t.Call.Args[0].(*ssa.Global); ok && t.Call.StaticCallee() != nil && t.Call.StaticCallee().Signature.Recv() != nil {
								state = append(state, "method "+t.Call.StaticCallee().Name()+" on "+g.Name()+" in "+f.Name())
							}
						}
					}
				}
			}
		}
		c.Ob(rule, name+"/no-state", fr.Decl.Pos(), len(state) == 0, true, "package-level state touched on the way: %v", uniq(state))
	}
	if n == 0 {
		c.Fail(rule, "anchor", token.NoPos, "digest entry points not found")
	}
}

// ---- C15/C09 (after round-6 seed C15-p) ----------------------------------------------------------------------------

// c15PutAllGiven (PUT-ALL-GIVEN): a store's Put… method that is handed a list stores every element of it or returns an
// error - "it never reports success while output is missing". In the cache store packages, the per-element put inside
// the loop of an exported Put… method is not guarded by a membership test in a set made in the same method: a set keyed
// by less than the element's identity (module name without commit) silently drops the second commit of a module.
func c15PutAllGiven(c *Ctx) {
	const rule = "PUT-ALL-GIVEN"
	c.Rule(rule, "a store's Put… method puts every element it was handed", 2)
	p := c.P
	n := 0
	for _, pk := range p.ModulePkgs() {
		rel := relPkg(pk.PkgPath)
		if !strings.HasSuffix(rel, "store") || !strings.HasPrefix(rel, "private/bufpkg/") {
			continue
		}
		for _, sf := range p.SSAFuncsOf([]*packages.Package{pk}) {
			if sf.Signature.Recv() == nil || !strings.HasPrefix(sf.Name(), "Put") {
				continue
			}
			k := 0
			for _, call := range callsIn(sf) {
				callee := call.Call.StaticCallee()
				if callee == nil || callee.Pkg != sf.Pkg || !strings.HasPrefix(strings.ToLower(callee.Name()), "put") {
					continue
				}
				inLoop := false
				for _, h := range sf.Blocks {
					if l := loopBlocks(h); l != nil && l[call.Instr.Block()] {
						inLoop = true
					}
				}
				if !inLoop {
					continue
				}
				n++
				k++
				var sets []string
				for _, ge := range guardingEdges(call.Instr.Block()) {
					sliceBack(ge.If.Cond, func(x ssa.Value) bool {
						if lk, ok := x.(*ssa.Lookup); ok {
							if mm, ok := stripConv(lk.X).(*ssa.MakeMap); ok && mm.Parent() == sf {
								sets = append(sets, "map made at "+p.Pos(mm.Pos()))
							}
						}
						return true
					})
				}
				c.Ob(rule, fmt.Sprintf("%s/%s#%d", ssaFuncName(sf), callee.Name(), k), call.Pos(), len(sets) == 0, true, "every element reaches %s (membership tests in a local set guarding it: %v)", callee.Name(), uniq(sets))
			}
		}
	}
	if n == 0 {
		c.Fail(rule, "anchor", token.NoPos, "no per-element put in a loop of a store's Put… method found")
	}
}

// ---- C09/C15/C02 (after round-6 seed C09-p) ------------------------------------------------------------------------

// c09CtxErrRecorded (CTX-ERR-RECORDED): thread.Parallelize is what storage.Copy and the module store use; the jobs they
// hand in do not look at the context themselves. When the context ends, Parallelize stops handing out jobs - and must
// say so: a caller that gets nil goes on to write the marker that declares a half-copied entry complete. Wherever
// Parallelize records ctx.Err(), it does so whenever it gets there: the recording is not subject to a further
// condition (such as "no job has been launched yet").
func c09CtxErrRecorded(c *Ctx) {
	const rule = "CTX-ERR-RECORDED"
	c.Rule(rule, "thread.Parallelize reports the context's error whenever it stops dispatching because of it", 1)
	p := c.P
	fr := p.Func("private/pkg/thread", "Parallelize")
	if fr == nil || fr.Obj == nil {
		c.Fail(rule, "anchor", token.NoPos, "thread.Parallelize not found")
		return
	}
	n := 0
	for _, f := range allSSAFuncs(p.SSAFunc(fr.Obj)) {
		k := 0
		for _, call := range callsIn(f) {
			fromCtxErr := false
			for _, a := range call.Call.Args {
				if cl, ok := stripConv(a).(*ssa.Call); ok && cl.Call.IsInvoke() && cl.Call.Method.Name() == "Err" && namedPath(cl.Call.Value.Type()) == "context.Context" {
					fromCtxErr = true
				}
			}
			if !fromCtxErr {
				continue
			}
			n++
			k++
			// the select that saw the context done: the nearest one that dominates the recording. Only what is tested
			// between it and the recording can keep the error from being recorded; if the recording sits in a helper
			// closure without a select of its own, every condition in that closure counts.
			var sel *ssa.BasicBlock
			for _, b := range f.Blocks {
				for _, ins := range b.Instrs {
					if _, ok := ins.(*ssa.Select); ok && b.Dominates(call.Instr.Block()) && (sel == nil || sel.Dominates(b)) {
						sel = b
					}
				}
			}
			var conds []string
			for _, ge := range guardingEdges(call.Instr.Block()) {
				ib := ge.If.Block()
				if sel != nil && !sel.Dominates(ib) {
					continue // decided before the select: why we are dispatching at all
				}
				fromSelect := false
				sliceBack(ge.If.Cond, func(x ssa.Value) bool {
					if _, ok := x.(*ssa.Select); ok {
						fromSelect = true
					}
					return true
				})
				if !fromSelect {
					at := ge.If.Cond.Pos()
					for q := len(ib.Instrs) - 1; q >= 0 && at == token.NoPos; q-- {
						at = ib.Instrs[q].Pos()
					}
					conds = append(conds, p.Pos(at))
				}
			}
			c.Ob(rule, fmt.Sprintf("%s/record#%d", ssaFuncName(f), k), call.Pos(), len(conds) == 0, true, "ctx.Err() is recorded unconditionally once the context is seen done (further conditions: %v)", conds)
		}
	}
	if n == 0 {
		c.Fail(rule, "anchor", token.NoPos, "no recording of ctx.Err() found in Parallelize")
	}
}

// ---- C16/C06 (after round-6 seed C16-p) ----------------------------------------------------------------------------

// c16RebaseKeepsAll (REBASE-KEEPS-ALL): ignore and ignore_only paths of a buf.yaml are re-based onto the module they
// belong to. A path is left out for one reason only: it lies outside that module (and the caller allows that). A path
// that IS the module directory - `ignore_only: {RULE: [proto]}` for the module at `proto` - re-bases to "." and means
// "the whole module"; dropping it loses the entry on the first read. In the re-basing function, the branches that
// pass over a path ask about containment (or the caller's flag) and nothing else.
func c16RebaseKeepsAll(c *Ctx) {
	const rule = "REBASE-KEEPS-ALL"
	c.Rule(rule, "re-basing lint/breaking paths onto a module drops a path only because it lies outside the module", 1)
	p := c.P
	pk := p.Pkg("private/bufpkg/bufconfig")
	if pk == nil {
		c.Fail(rule, "anchor", token.NoPos, "bufconfig not found")
		return
	}
	n := 0
	for _, sf := range p.SSAFuncsOf([]*packages.Package{pk}) {
		// the function: a []string parameter, a []string result, a call of normalpath.Rel whose result is appended in a loop
		var app *ssa.Call
		for _, call := range callsIn(sf) {
			if !isBuiltinCall(call.Call, "append") {
				continue
			}
			if dependsOnCall(call.Call.Args[len(call.Call.Args)-1], func(cc *ssa.CallCommon) bool {
				return calleeIs(staticCalleeObj(cc), "private/pkg/normalpath", "Rel")
			}) {
				if cv, ok := call.Instr.(*ssa.Call); ok {
					app = cv
				}
			}
		}
		if app == nil {
			continue
		}
		h, decisions := loopSkipDecisions(sf, app.Block())
		if h == nil {
			continue
		}
		n++
		var bad []string
		for _, i := range decisions {
			okCond := false
			sliceBack(i.Cond, func(x ssa.Value) bool {
				switch t := x.(type) {
				case *ssa.Call:
					if o := staticCalleeObj(&t.Call); o != nil && (o.Name() == "EqualsOrContainsPath" || o.Name() == "ContainsPath") {
						okCond = true
					}
				case *ssa.Parameter:
					if isBoolType(t.Type()) {
						okCond = true
					}
				}
				return true
			})
			if !okCond {
				at := i.Cond.Pos()
				for q := len(i.Block().Instrs) - 1; q >= 0 && at == token.NoPos; q-- {
					at = i.Block().Instrs[q].Pos()
				}
				bad = append(bad, p.Pos(at))
			}
		}
		c.Ob(rule, ssaFuncName(sf)+"/skips", app.Pos(), len(bad) == 0, true, "%d branch(es) pass over a path; those that do not ask about containment: %v", len(decisions), bad)
	}
	if n == 0 {
		c.Fail(rule, "anchor", token.NoPos, "no path re-basing loop found in bufconfig")
	}
}

// ---- C16 (after round-6 seed C16-r) --------------------------------------------------------------------------------

// c16NameFromWholeRef (PLUGIN-NAME-WHOLE-REF): the writer of buf.yaml serialises every check plugin from its Name().
// For a remote plugin that name must therefore be the whole reference, label or commit included; a name built from
// the reference's FullName alone writes `buf.build/acme/x` for `buf.build/acme/x:v1.4.0` and the pin is gone on the
// next read. In the constructor that takes a reference, what is stored as the name derives from the reference's own
// String() and does not pass through FullName().
func c16NameFromWholeRef(c *Ctx) {
	const rule = "PLUGIN-NAME-WHOLE-REF"
	c.Rule(rule, "a remote plugin's name is its whole reference (the writer serialises the name)", 1)
	p := c.P
	pk := p.Pkg("private/bufpkg/bufconfig")
	if pk == nil {
		c.Fail(rule, "anchor", token.NoPos, "bufconfig not found")
		return
	}
	n := 0
	for _, sf := range p.SSAFuncsOf([]*packages.Package{pk}) {
		var ref *ssa.Parameter
		for _, prm := range sf.Params {
			if strings.HasSuffix(namedPath(prm.Type()), "bufparse.Ref") {
				ref = prm
			}
		}
		if ref == nil {
			continue
		}
		for _, b := range sf.Blocks {
			for _, ins := range b.Instrs {
				st, ok := ins.(*ssa.Store)
				if !ok {
					continue
				}
				fa, ok := st.Addr.(*ssa.FieldAddr)
				if !ok || !strings.HasSuffix(fieldName(fa.X.Type(), fa.Field), "pluginConfig.name") {
					continue
				}
				n++
				whole, viaFullName := false, false
				sliceBack(st.Val, func(x ssa.Value) bool {
					if cl, ok := x.(*ssa.Call); ok && cl.Call.IsInvoke() {
						switch cl.Call.Method.Name() {
						case "String":
							if stripConv(cl.Call.Value) == ssa.Value(ref) {
								whole = true
							}
						case "FullName":
							viaFullName = true
						}
					}
					return true
				})
				c.Ob(rule, ssaFuncName(sf)+"/name", st.Pos(), whole && !viaFullName, true, "the stored name is %s.String() (%v) and does not go through FullName() (%v)", ref.Name(), whole, !viaFullName)
			}
		}
	}
	if n == 0 {
		c.Fail(rule, "anchor", token.NoPos, "no plugin-config constructor taking a reference found")
	}
}

// ---- C17 (after round-6 seed C17-q) --------------------------------------------------------------------------------

// c17ByDirByFiles (BY-DIR-BY-FILES): with strategy `directory` each request lists the non-import files of ONE directory.
// Selecting by the directory's *name* would also take everything below it (a nested targeted directory ends up in two
// requests) and imports that happen to live there. In ImageByDir the list handed to the path filter for a directory is
// what the directory→files table holds for it.
func c17ByDirByFiles(c *Ctx) {
	const rule = "BY-DIR-BY-FILES"
	c.Rule(rule, "the per-directory images are selected by the directory's file list, not by the directory name", 1)
	p := c.P
	fr := p.Func("private/bufpkg/bufimage", "ImageByDir")
	if fr == nil || fr.Obj == nil {
		c.Fail(rule, "anchor", token.NoPos, "bufimage.ImageByDir not found")
		return
	}
	sf := p.SSAFunc(fr.Obj)
	n := 0
	for _, call := range callsIn(sf) {
		callee := call.Call.StaticCallee()
		if callee == nil || callee.Pkg != sf.Pkg || len(call.Call.Args) < 2 {
			continue
		}
		// the call that filters the image by paths: first argument the image, a []string after it
		if !strings.HasSuffix(namedPath(call.Call.Args[0].Type()), "bufimage.Image") {
			continue
		}
		sl, ok := call.Call.Args[1].Type().Underlying().(*types.Slice)
		if !ok {
			continue
		}
		if b, ok := sl.Elem().Underlying().(*types.Basic); !ok || b.Kind() != types.String {
			continue
		}
		n++
		okAll := true
		var walk func(v ssa.Value, seen map[ssa.Value]bool)
		walk = func(v ssa.Value, seen map[ssa.Value]bool) {
			v = stripConv(v)
			if seen[v] {
				return
			}
			seen[v] = true
			switch t := v.(type) {
			case *ssa.Phi:
				for _, e := range t.Edges {
					walk(e, seen)
				}
			case *ssa.Extract:
				walk(t.Tuple, seen)
			case *ssa.Lookup:
				// the table: result of a call (normalpath.ByDir) or a local map
			default:
				okAll = false
			}
		}
		walk(call.Call.Args[1], map[ssa.Value]bool{})
		c.Ob(rule, "ImageByDir/"+callee.Name(), call.Pos(), okAll, true, "on every path the list handed to %s is a lookup in the directory→files table: %v", callee.Name(), okAll)
	}
	if n == 0 {
		c.Fail(rule, "anchor", token.NoPos, "no path-filter call found in ImageByDir")
	}
}

// ---- C18 (after round-6 seeds C18-p, C18-q) ------------------------------------------------------------------------

// c18PrefixSuffixIndependent (PREFIX-SUFFIX-INDEPENDENT): a managed-mode value with a prefix and a suffix
// (java_package) applies each when it is set. Whether the suffix is applied does not depend on whether a prefix is:
// no read of the suffix member is control-dependent on a test of the prefix member.
func c18PrefixSuffixIndependent(c *Ctx, pk *packages.Package) {
	const rule = "PREFIX-SUFFIX-INDEPENDENT"
	c.Rule(rule, "the suffix override is applied whether or not there is a prefix", 1)
	p := c.P
	n := 0
	for _, sf := range p.SSAFuncsOf([]*packages.Package{pk}) {
		for _, f := range allSSAFuncs(sf) {
			for _, b := range f.Blocks {
				for _, ins := range b.Instrs {
					var name string
					switch t := ins.(type) {
					case *ssa.FieldAddr:
						name = fieldName(t.X.Type(), t.Field)
					case *ssa.Field:
						name = fieldName(t.X.Type(), t.Field)
					}
					if !strings.HasSuffix(name, ".suffix") {
						continue
					}
					n++
					onPrefix := false
					for _, ge := range guardingEdges(b) {
						sliceBack(ge.If.Cond, func(x ssa.Value) bool {
							var fn string
							switch t := x.(type) {
							case *ssa.FieldAddr:
								fn = fieldName(t.X.Type(), t.Field)
							case *ssa.Field:
								fn = fieldName(t.X.Type(), t.Field)
							}
							if strings.HasSuffix(fn, ".prefix") {
								onPrefix = true
							}
							return true
						})
					}
					c.Ob(rule, fmt.Sprintf("%s/suffix-read@%s", ssaFuncName(f), b.Comment), ins.Pos(), !onPrefix, true, "this read of the suffix is reached whatever the prefix is: %v", !onPrefix)
				}
			}
		}
	}
	if n == 0 {
		c.Fail(rule, "anchor", token.NoPos, "no read of a suffix override found")
	}
}

// c18SweepScansAll (SWEEP-SCANS-ALL): "source-info entries are removed exactly for the options that were rewritten"
// is decided by one pass over all locations that also registers every option that stays with its parent. The pass is
// complete: the loops of the sweeper leave only when the list is exhausted or with an error, never because "everything
// that was marked has been seen".
func c18SweepScansAll(c *Ctx, pkI *packages.Package) {
	const rule = "SWEEP-SCANS-ALL"
	c.Rule(rule, "the sweeper's passes over the locations run to the end of the list", 1)
	p := c.P
	n := 0
	for _, sf := range p.SSAFuncsOf([]*packages.Package{pkI}) {
		for _, h := range sf.Blocks {
			if h.Comment != "rangeindex.loop" {
				continue
			}
			loop := loopBlocks(h)
			if loop == nil {
				continue
			}
			// over a list of locations
			overLocations := false
			for b := range loop {
				for _, ins := range b.Instrs {
					if ia, ok := ins.(*ssa.IndexAddr); ok {
						if sl, ok := ia.X.Type().Underlying().(*types.Slice); ok && strings.HasSuffix(namedPath(derefType(sl.Elem())), "SourceCodeInfo_Location") {
							overLocations = true
						}
					}
				}
			}
			if !overLocations {
				continue
			}
			n++
			var early []string
			for b := range loop {
				if b == h {
					continue
				}
				for _, s := range b.Succs {
					if loop[s] {
						continue
					}
					// leaving the loop from the body: fine only as a non-nil error return
					isErr := false
					if r, ok := s.Instrs[len(s.Instrs)-1].(*ssa.Return); ok {
						for _, res := range r.Results {
							if isErrorType(res.Type()) && !isNilConst(spilledResult(r, res)) {
								isErr = true
							}
						}
					}
					if !isErr {
						at := token.NoPos
						for q := len(b.Instrs) - 1; q >= 0 && at == token.NoPos; q-- {
							at = b.Instrs[q].Pos()
						}
						early = append(early, p.Pos(at))
					}
				}
			}
			c.Ob(rule, fmt.Sprintf("%s/loop#%d", ssaFuncName(sf), n), sf.Pos(), len(early) == 0, true, "the loop over the locations is left only at the end of the list or with an error (other exits: %v)", early)
		}
	}
	if n == 0 {
		c.Fail(rule, "anchor", token.NoPos, "no loop over source code info locations found in the sweeper")
	}
}

// ---- C05 (after round-6 seed C05-p) --------------------------------------------------------------------------------

// c05CaseAlwaysNormalised (CASE-ALWAYS-NORMALISED): the naming rules compare a name with its canonical spelling, and the
// canonical spelling is what the one normalising routine produces - which also strips leading and trailing underscores
// and collapses runs of them. The exported To…SnakeCase functions return nothing that has not been through it: a fast
// path for names that "already look right" (all caps, digits and underscores) lets `TEST__DOUBLE` and `_LEADING` pass.
func c05CaseAlwaysNormalised(c *Ctx) {
	const rule = "CASE-ALWAYS-NORMALISED"
	c.Rule(rule, "the snake-case converters return only what the normalising routine produced", 2)
	p := c.P
	pk := p.Pkg("private/pkg/stringutil")
	if pk == nil {
		c.Fail(rule, "anchor", token.NoPos, "stringutil not found")
		return
	}
	n := 0
	for _, sf := range p.SSAFuncsOf([]*packages.Package{pk}) {
		if sf.Signature.Recv() != nil || sf.Object() == nil || !sf.Object().Exported() || !strings.HasSuffix(sf.Name(), "SnakeCase") || !strings.HasPrefix(sf.Name(), "To") {
			continue
		}
		k := 0
		for _, r := range returnsOf(sf) {
			if len(r.Results) != 1 {
				continue
			}
			n++
			k++
			ok := dependsOnCall(r.Results[0], func(cc *ssa.CallCommon) bool {
				sc := cc.StaticCallee()
				return sc != nil && sc.Pkg == sf.Pkg && sc.Object() != nil && !sc.Object().Exported()
			})
			c.Ob(rule, fmt.Sprintf("stringutil.%s/return#%d", sf.Name(), k), r.Pos(), ok, true, "the returned string went through the package's normalising routine: %v", ok)
		}
	}
	if n == 0 {
		c.Fail(rule, "anchor", token.NoPos, "no To…SnakeCase function found")
	}
}

// ---- C20/C07 (after round-6 seed C20-q) ----------------------------------------------------------------------------

// c20DiffRawBytes (DIFF-RAW-BYTES): `format --exit-code` and `format -d` take their verdict from the diff text, `-w`
// rewrites what differs byte for byte. The two agree because the differ is handed the bytes as they were read: between
// reading the two objects and the call of the diff routine nothing rewrites the data (no bytes./strings. function).
func c20DiffRawBytes(c *Ctx) {
	const rule = "DIFF-RAW-BYTES"
	c.Rule(rule, "the bucket differ compares the bytes as read: nothing rewrites them on the way to the diff routine", 1)
	p := c.P
	pk := p.Pkg("private/pkg/storage")
	if pk == nil {
		c.Fail(rule, "anchor", token.NoPos, "private/pkg/storage not found")
		return
	}
	n := 0
	for _, sf := range p.SSAFuncsOf([]*packages.Package{pk}) {
		for _, f := range allSSAFuncs(sf) {
			k := 0
			for _, call := range callsIn(f) {
				o := staticCalleeObj(call.Call)
				if o == nil || o.Pkg() == nil || !strings.HasSuffix(o.Pkg().Path(), "/private/pkg/diff") || o.Name() != "Diff" {
					continue
				}
				n++
				k++
				var rewrites []string
				for _, a := range call.Call.Args {
					if sl, ok := a.Type().Underlying().(*types.Slice); !ok || !isByteElem(sl) {
						continue
					}
					sliceBack(a, func(x ssa.Value) bool {
						if cl, ok := x.(*ssa.Call); ok {
							if co := staticCalleeObj(&cl.Call); co != nil && co.Pkg() != nil && (co.Pkg().Path() == "bytes" || co.Pkg().Path() == "strings") {
								rewrites = append(rewrites, co.Pkg().Name()+"."+co.Name())
								return true
							}
							if sc := cl.Call.StaticCallee(); sc != nil && sc.Pkg == f.Pkg && len(sc.Blocks) > 0 && sc.Signature.Results().Len() > 0 {
								if rsl, ok := sc.Signature.Results().At(0).Type().Underlying().(*types.Slice); ok && isByteElem(rsl) {
									// a helper of the package returning bytes: what it does to them counts
									for _, cc := range callsIn(sc) {
										if co := staticCalleeObj(cc.Call); co != nil && co.Pkg() != nil && (co.Pkg().Path() == "bytes" || co.Pkg().Path() == "strings") {
											rewrites = append(rewrites, co.Pkg().Name()+"."+co.Name()+" in "+sc.Name())
										}
									}
								}
							}
							return false // a read: where the path it reads came from is not the data
						}
						return true
					})
				}
				c.Ob(rule, fmt.Sprintf("%s/diff#%d", ssaFuncName(f), k), call.Pos(), len(rewrites) == 0, true, "the data handed to diff.Diff is what was read (rewriting calls on the way: %v)", uniq(rewrites))
			}
		}
	}
	if n == 0 {
		c.Fail(rule, "anchor", token.NoPos, "no call of diff.Diff found in private/pkg/storage")
	}
}

func isByteElem(sl *types.Slice) bool {
	b, ok := sl.Elem().Underlying().(*types.Basic)
	return ok && (b.Kind() == types.Byte || b.Kind() == types.Uint8)
}

// ---- C04 (after round-6 seed C04-r) --------------------------------------------------------------------------------

// attributes a WIRE handler reads and its WIRE_JSON sibling does not, reviewed one by one
var c04WireOnlyReviewed = map[string]string{
	"handleBreakingFieldWireCompatibleType.Type": "selects which type-name comparison runs (enum / message / group) after the group check; the WIRE_JSON sibling selects the same three cases through descriptor.Kind(): the same attribute under another accessor, nothing is reported about Type itself",
}

// c04WireSiblingsAgree (WIRE-SIBLINGS-AGREE): FILE ⇒ PACKAGE ⇒ WIRE_JSON ⇒ WIRE: whatever the weakest category
// reports, the stronger ones report too. The WIRE and WIRE_JSON variants of one rule are written as sibling handlers;
// the WIRE variant reads no attribute of the field that its WIRE_JSON sibling does not read (an attribute only the
// weakest sibling looks at - `packed` - is reported under WIRE alone).
func c04WireSiblingsAgree(c *Ctx, pk *packages.Package) {
	const rule = "WIRE-SIBLINGS-AGREE"
	c.Rule(rule, "a WIRE handler reads no attribute that its WIRE_JSON sibling ignores", 1)
	p := c.P
	accessors := func(f *ssa.Function) map[string]bool {
		out := map[string]bool{}
		for _, g := range reachSSA(f, 3) {
			if g.Pkg != f.Pkg && (g.Parent() == nil || g.Parent().Pkg != f.Pkg) {
				continue
			}
			for _, call := range callsIn(g) {
				if call.Call.IsInvoke() && strings.HasPrefix(namedPath(call.Call.Value.Type()), modPath+"/private/bufpkg/bufprotosource.") {
					out[call.Call.Method.Name()] = true
				}
			}
		}
		return out
	}
	byName := map[string]*ssa.Function{}
	for _, sf := range p.SSAFuncsOf([]*packages.Package{pk}) {
		byName[sf.Name()] = sf
	}
	n := 0
	for name, wire := range byName {
		if !strings.HasPrefix(name, "handleBreaking") || !strings.Contains(name, "Wire") || strings.Contains(name, "WireJSON") {
			continue
		}
		sib := byName[strings.Replace(name, "Wire", "WireJSON", 1)]
		if sib == nil {
			continue
		}
		n++
		wa, ja := accessors(wire), accessors(sib)
		var only []string
		for a := range wa {
			if !ja[a] {
				if why := c04WireOnlyReviewed[name+"."+a]; why != "" {
					c.Ob(rule, name+"/reviewed-"+a, wire.Pos(), true, false, "reviewed: %s", why)
					continue
				}
				only = append(only, a)
			}
		}
		c.Ob(rule, name, wire.Pos(), len(only) == 0, true, "attributes read by %s and not by %s: %v", name, sib.Name(), uniq(only))
	}
	if n == 0 {
		c.Fail(rule, "anchor", token.NoPos, "no Wire/WireJSON handler pair found")
	}
}

// ---- C01 (after round-6 seeds C01-p, C01-q) ------------------------------------------------------------------------

// c01TargetWalkTargeted (TARGET-WALK-TARGETED): building a workspace looks only at what is targeted and at what the
// targeted files import. Listing the target files by walking EVERY file of every module and filtering afterwards gives
// the same list - when it returns: the full walk fails on a path shared by two non-target modules that nothing imports,
// and on a non-target module without .proto files. The function that lists target files walks with the
// only-target-files option.
func c01TargetWalkTargeted(c *Ctx) {
	const rule = "TARGET-WALK-TARGETED"
	c.Rule(rule, "target files are listed by a walk restricted to target files, not by a full walk filtered afterwards", 1)
	p := c.P
	fr := p.Func("private/bufpkg/bufmodule", "GetTargetFileInfos")
	if fr == nil || fr.Obj == nil {
		c.Fail(rule, "anchor", token.NoPos, "bufmodule.GetTargetFileInfos not found")
		return
	}
	sf := p.SSAFunc(fr.Obj)
	targeted, full := false, []string{}
	hasOpt := func(cc *ssa.CallCommon) bool {
		o := staticCalleeObj(cc)
		return o != nil && o.Name() == "WalkFileInfosWithOnlyTargetFiles"
	}
	// the entry point, its literals, and the package's own helpers it calls directly
	type rooted struct{ f, root *ssa.Function }
	var funcs []rooted
	for _, f := range allSSAFuncs(sf) {
		funcs = append(funcs, rooted{f, sf})
	}
	for _, ec := range callsIn(sf) {
		if h := ec.Call.StaticCallee(); h != nil && h.Pkg == sf.Pkg && h != sf && h.Name() != "GetFileInfos" && len(h.Blocks) > 0 {
			for _, f := range allSSAFuncs(h) {
				funcs = append(funcs, rooted{f, h})
			}
		}
	}
	for _, rf := range funcs {
		f := rf.f
		for _, call := range callsIn(f) {
			if call.Call.IsInvoke() && call.Call.Method.Name() == "WalkFileInfos" {
				ok := false
				for _, a := range call.Call.Args {
					if dependsOnCall(a, hasOpt) {
						ok = true
					}
				}
				if !ok && rf.root != sf && f == rf.root {
					// the options are a parameter of a shared helper: the entry point's call to it supplies them
					for _, a := range call.Call.Args {
						sliceBack(a, func(x ssa.Value) bool {
							par, isPar := x.(*ssa.Parameter)
							if !isPar || par.Parent() != f {
								return true
							}
							idx := -1
							for i, fp := range f.Params {
								if fp == par {
									idx = i
								}
							}
							nCalls, nOpt := 0, 0
							for _, ec := range callsIn(sf) {
								if ec.Call.StaticCallee() != f || idx < 0 || idx >= len(ec.Call.Args) {
									continue
								}
								nCalls++
								if dependsOnCall(ec.Call.Args[idx], hasOpt) {
									nOpt++
								}
							}
							if nCalls > 0 && nCalls == nOpt {
								ok = true
							}
							return true
						})
					}
				}
				if ok {
					targeted = true
				} else {
					full = append(full, "WalkFileInfos without the option")
				}
			}
			if o := staticCalleeObj(call.Call); o != nil && o.Name() == "GetFileInfos" {
				full = append(full, "GetFileInfos")
			}
		}
	}
	c.Ob(rule, "GetTargetFileInfos/walk", fr.Decl.Pos(), targeted && len(full) == 0, true, "walks with WalkFileInfosWithOnlyTargetFiles (%v); full walks: %v", targeted, uniq(full))
}

// c01ExcludesKeptWhole (EXCLUDES-KEPT-WHOLE): a file is a target when it lies inside a target path and not inside an
// exclude path - any exclude path, also one that CONTAINS a target path. The exclude paths a module read bucket keeps
// are the ones it was given: what is stored into its exclude-path member did not pass through a selecting call (a
// function taking a predicate).
func c01ExcludesKeptWhole(c *Ctx) {
	const rule = "EXCLUDES-KEPT-WHOLE"
	c.Rule(rule, "the exclude paths of a module read bucket are stored as given, none selected away", 1)
	p := c.P
	pk := p.Pkg("private/bufpkg/bufmodule")
	if pk == nil {
		c.Fail(rule, "anchor", token.NoPos, "bufmodule not found")
		return
	}
	n := 0
	for _, sf := range p.SSAFuncsOf([]*packages.Package{pk}) {
		for _, b := range sf.Blocks {
			for _, ins := range b.Instrs {
				st, ok := ins.(*ssa.Store)
				if !ok {
					continue
				}
				fa, ok := st.Addr.(*ssa.FieldAddr)
				if !ok {
					continue
				}
				fn := strings.ToLower(fieldName(fa.X.Type(), fa.Field))
				if !strings.Contains(fn, "modulereadbucket.") || !strings.Contains(fn, "exclude") {
					continue
				}
				n++
				var selecting []string
				sliceBack(st.Val, func(x ssa.Value) bool {
					if cl, ok := x.(*ssa.Call); ok {
						for _, a := range cl.Call.Args {
							if sig, ok := a.Type().Underlying().(*types.Signature); ok && sig.Results().Len() == 1 && isBoolType(sig.Results().At(0).Type()) {
								if o := staticCalleeObj(&cl.Call); o != nil {
									selecting = append(selecting, o.Name())
								}
							}
						}
					}
					return true
				})
				c.Ob(rule, ssaFuncName(sf)+"/"+fn[strings.LastIndex(fn, ".")+1:], st.Pos(), len(selecting) == 0, true, "selecting calls on the way to the stored exclude paths: %v", uniq(selecting))
			}
		}
	}
	if n == 0 {
		c.Fail(rule, "anchor", token.NoPos, "no store into an exclude-path member of the module read bucket found")
	}
}

// ---- C07 (after round-6 seed C07-p) --------------------------------------------------------------------------------

// c07HasCommentCoversTokens (HAS-COMMENT-COVERS-TOKENS): duplicate imports are removed unless they carry a comment, so
// "does this import have a comment" must look at every token of the statement - a comment can hang on the `;` as well
// as on the keyword or the path. A formatter method that answers such a question for a node by calling nodeHasComment
// on members of the node passes every member of the node that is itself a node (keyword, modifiers, name, semicolon).
func c07HasCommentCoversTokens(c *Ctx, pk, pa *packages.Package, nodeIface *types.Interface) {
	const rule = "HAS-COMMENT-COVERS-TOKENS"
	c.Rule(rule, "a has-comment question about a statement looks at every token of the statement", 1)
	p := c.P
	n := 0
	for _, sf := range p.SSAFuncsOf([]*packages.Package{pk}) {
		if sf.Signature.Recv() == nil || sf.Signature.Results().Len() != 1 || !isBoolType(sf.Signature.Results().At(0).Type()) || len(sf.Params) != 2 {
			continue
		}
		node := sf.Params[1]
		st, ok := derefType(node.Type()).Underlying().(*types.Struct)
		if !ok || !strings.Contains(namedPath(derefType(node.Type())), "protocompile/ast.") {
			continue
		}
		asked := map[int]bool{}
		calls := 0
		for _, call := range callsIn(sf) {
			o := staticCalleeObj(call.Call)
			if o == nil || o.Name() != "nodeHasComment" {
				continue
			}
			calls++
			for _, a := range call.Call.Args {
				sliceBack(a, func(x ssa.Value) bool {
					if fa, ok := x.(*ssa.FieldAddr); ok && stripConv(fa.X) == ssa.Value(node) {
						asked[fa.Field] = true
					}
					return true
				})
			}
		}
		if calls == 0 || len(asked) == 0 {
			continue
		}
		n++
		var missing []string
		for i := 0; i < st.NumFields(); i++ {
			ft := st.Field(i).Type()
			if !st.Field(i).Exported() {
				continue
			}
			if _, isPtr := ft.Underlying().(*types.Pointer); !isPtr {
				if _, isIface := ft.Underlying().(*types.Interface); !isIface {
					continue
				}
			}
			if !types.Implements(ft, nodeIface) {
				continue
			}
			if !asked[i] {
				missing = append(missing, st.Field(i).Name())
			}
		}
		c.Ob(rule, ssaFuncName(sf)+"/"+typeShort(node.Type()), sf.Pos(), len(missing) == 0, true, "members of the node that are nodes themselves and are not asked about: %v", missing)
	}
	if n == 0 {
		c.Fail(rule, "anchor", token.NoPos, "no has-comment method over the members of a node found")
	}
}

// ---- C06 (after round-6 seeds C06-p, C06-r) ------------------------------------------------------------------------

// c06AnnotationJudgedAlone (ANNOTATION-JUDGED-ALONE): rule selection and suppression "compose set-theoretically": whether
// an annotation is suppressed depends on that annotation (its rule, its locations) and on the configuration - not on
// which annotations were looked at before it. The predicate that filters annotations keeps no memory: the function
// literal handed to the filter, and what it calls in the package, write no variable or map captured from outside.
func c06AnnotationJudgedAlone(c *Ctx, pk *packages.Package) {
	const rule = "ANNOTATION-JUDGED-ALONE"
	c.Rule(rule, "the annotation filter decides each annotation on its own: its predicate keeps no state", 1)
	p := c.P
	n := 0
	for _, sf := range p.SSAFuncsOf([]*packages.Package{pk}) {
		for _, call := range callsIn(sf) {
			o := staticCalleeObj(call.Call)
			if o == nil || !strings.HasPrefix(o.Name(), "Filter") || len(call.Call.Args) != 2 {
				continue
			}
			sl, ok := call.Call.Args[0].Type().Underlying().(*types.Slice)
			if !ok || !strings.HasSuffix(namedPath(derefType(sl.Elem())), "bufcheck.annotation") {
				continue
			}
			var pred *ssa.Function
			switch t := call.Call.Args[1].(type) {
			case *ssa.MakeClosure:
				pred, _ = t.Fn.(*ssa.Function)
			case *ssa.Function:
				pred = t
			}
			if pred == nil {
				continue
			}
			n++
			var writes []string
			for _, b := range pred.Blocks {
				for _, ins := range b.Instrs {
					switch t := ins.(type) {
					case *ssa.Store:
						if _, ok := t.Addr.(*ssa.FreeVar); ok {
							writes = append(writes, "store into captured "+t.Addr.Name())
						}
					case *ssa.MapUpdate:
						m := stripConv(t.Map)
						if u, ok := m.(*ssa.UnOp); ok {
							m = u.X
						}
						if _, ok := m.(*ssa.FreeVar); ok {
							writes = append(writes, "map store into captured "+m.Name())
						}
					}
				}
			}
			c.Ob(rule, ssaFuncName(sf)+"/predicate", call.Pos(), len(writes) == 0, true, "the predicate writes nothing it captured (%v)", uniq(writes))
		}
	}
	if n == 0 {
		// the hand-written form: a loop that appends the kept annotations
		for _, sf := range p.SSAFuncsOf([]*packages.Package{pk}) {
			if sf.Signature.Results().Len() == 0 {
				continue
			}
			sl, ok := sf.Signature.Results().At(0).Type().Underlying().(*types.Slice)
			if !ok || !strings.HasSuffix(namedPath(derefType(sl.Elem())), "bufcheck.annotation") {
				continue
			}
			if loop := findAnnFilterLoop(sf); loop != nil && loop.OnlyInput {
				n++
				st := loop.stateful()
				c.Ob(rule, ssaFuncName(sf)+"/predicate", sf.Pos(), len(st) == 0, true, "whether an annotation is appended does not depend on earlier iterations (%v)", st)
			}
		}
	}
	if n == 0 {
		c.Fail(rule, "anchor", token.NoPos, "no filter over annotations with a function literal found")
	}
}

// c06UndeprecateUngated (UNDEPRECATE-UNGATED): deprecated rule IDs reach the configuration written out (`use:
// [FIELD_SAME_LABEL]`) or through a category whose members include a deprecated rule; either way they are replaced by
// their successors before rules are selected. The replacement passes run whenever the rules configuration is built -
// they are not skipped because no deprecated ID was *written out*.
func c06UndeprecateUngated(c *Ctx, pk *packages.Package) {
	const rule = "UNDEPRECATE-UNGATED"
	c.Rule(rule, "the replace-deprecated-IDs passes of the rules configuration run unconditionally", 2)
	p := c.P
	n := 0
	for _, sf := range p.SSAFuncsOf([]*packages.Package{pk}) {
		k := 0
		for _, call := range callsIn(sf) {
			callee := call.Call.StaticCallee()
			if callee == nil || callee.Pkg != sf.Pkg || !strings.HasSuffix(callee.Name(), "ToUndeprecated") {
				continue
			}
			n++
			k++
			// conditions the pass is subject to and the function's normal completion is not: the early exits every
			// later step shares (no rules of this type at all, errors) are not gates of this pass
			shared := map[*ssa.If]bool{}
			for _, r := range returnsOf(sf) {
				ok := len(r.Results) > 0
				for _, res := range r.Results {
					if isErrorType(res.Type()) && !isNilConst(spilledResult(r, res)) {
						ok = false
					}
				}
				if ok && call.Instr.Block().Dominates(r.Block()) {
					for _, ge := range guardingEdges(r.Block()) {
						shared[ge.If] = true
					}
				}
			}
			var gates []string
			for _, ge := range guardingEdges(call.Instr.Block()) {
				if shared[ge.If] {
					continue
				}
				cv, _ := condPolarity(ge.If.Cond)
				if x, _, isNil := nilCompare(cv); isNil && isErrorType(x.Type()) {
					continue
				}
				at := ge.If.Cond.Pos()
				for q := len(ge.If.Block().Instrs) - 1; q >= 0 && at == token.NoPos; q-- {
					at = ge.If.Block().Instrs[q].Pos()
				}
				gates = append(gates, p.Pos(at))
			}
			c.Ob(rule, fmt.Sprintf("%s/%s#%d", ssaFuncName(sf), callee.Name(), k), call.Pos(), len(gates) == 0, true, "%s is reached whenever the configuration is built (conditions on the way other than error checks: %v)", callee.Name(), gates)
		}
	}
	if n == 0 {
		c.Fail(rule, "anchor", token.NoPos, "no …ToUndeprecated pass found")
	}
}

// ---- generic (after round-6 seed C02-p) ----------------------------------------------------------------------------

// mapAliasMutated lists functions that put a map they were handed (a map-typed parameter) into a table of maps AND, in
// the same function, write into a map they got back out of that table: the second time the key comes round, the writes
// go into the caller's map - and into every other key that was given the same map (all replacements of one deprecated
// rule share one path set; which of them inherits a sibling's own paths depends on map order).
func mapAliasMutated(f *ssa.Function) []*ssa.MapUpdate {
	var stores []*ssa.MapUpdate
	for _, b := range f.Blocks {
		for _, ins := range b.Instrs {
			mu, ok := ins.(*ssa.MapUpdate)
			if !ok {
				continue
			}
			if prm, ok := stripConv(mu.Value).(*ssa.Parameter); ok {
				if _, isMap := prm.Type().Underlying().(*types.Map); isMap {
					stores = append(stores, mu)
				}
			}
		}
	}
	if len(stores) == 0 {
		return nil
	}
	var out []*ssa.MapUpdate
	for _, st := range stores {
		mutated := false
		for _, b := range f.Blocks {
			for _, ins := range b.Instrs {
				mu, ok := ins.(*ssa.MapUpdate)
				if !ok || mu == st {
					continue
				}
				// the map written into was looked up in the table
				sliceBack(mu.Map, func(x ssa.Value) bool {
					if lk, ok := x.(*ssa.Lookup); ok && sameSSAExpr(lk.X, st.Map, 3) {
						mutated = true
					}
					return !mutated
				})
			}
		}
		if mutated {
			out = append(out, st)
		}
	}
	return out
}

func ruleMapAliasMutated(c *Ctx, rule string, pkgs []*packages.Package) {
	c.Rule(rule, "a map handed in by the caller is copied before it is kept in a table whose entries are written into", 0)
	p := c.P
	n, fns := 0, 0
	for _, sf := range p.SSAFuncsOf(pkgs) {
		for _, f := range allSSAFuncs(sf) {
			fns++
			for _, mu := range mapAliasMutated(f) {
				n++
				c.Ob(rule, ssaFuncName(f)+"/alias", mu.Pos(), false, true, "%s stores the map it was handed under a key and also writes into maps taken from the same table: the caller's map, shared by every key it was stored under, gets written into", ssaFuncName(f))
			}
		}
	}
	c.Ob(rule, "functions-scanned", token.NoPos, n == 0, fns > 0, "%d functions scanned, %d handed-in maps kept and written into", fns, n)
}

// ---- C12 (after round-6 seed C12-p) --------------------------------------------------------------------------------

// c12ImportAfterSurvival (IMPORT-AFTER-SURVIVAL): the closure records "file A needs file B" when an element of B that A
// refers to is kept. An element can still turn out excluded while it is being added (an extension whose extendee or
// own type is excluded); the import must not have been recorded by then, or the filtered A keeps an import of a file
// that is gone. In the function that adds an element, once the import has been recorded no path leads on to a store of
// the `excluded` mode.
func c12ImportAfterSurvival(c *Ctx, pk *packages.Package) {
	const rule = "IMPORT-AFTER-SURVIVAL"
	c.Rule(rule, "an import is recorded only when the element it is for can no longer turn out excluded", 1)
	p := c.P
	exc, _ := pk.Types.Scope().Lookup("inclusionModeExcluded").(*types.Const)
	if exc == nil {
		c.Fail(rule, "anchor", token.NoPos, "inclusionModeExcluded not found")
		return
	}
	n := 0
	for _, sf := range p.SSAFuncsOf([]*packages.Package{pk}) {
		var excludes []*ssa.BasicBlock
		for _, b := range sf.Blocks {
			for _, ins := range b.Instrs {
				if mu, ok := ins.(*ssa.MapUpdate); ok {
					if cst, ok := mu.Value.(*ssa.Const); ok && cst.Value != nil && cst.Value.ExactString() == exc.Val().ExactString() && strings.HasSuffix(namedPath(cst.Type()), "closureInclusionMode") {
						excludes = append(excludes, b)
					}
				}
			}
		}
		k := 0
		for _, call := range callsIn(sf) {
			if o := staticCalleeObj(call.Call); o == nil || o.Name() != "addImport" {
				continue
			}
			if len(excludes) == 0 {
				continue
			}
			n++
			k++
			later := false
			for _, eb := range excludes {
				if eb == call.Instr.Block() {
					// same block: after the call?
					seenCall := false
					for _, ins2 := range eb.Instrs {
						if ins2 == call.Instr {
							seenCall = true
							continue
						}
						if mu, ok := ins2.(*ssa.MapUpdate); ok && seenCall {
							if cst, ok := mu.Value.(*ssa.Const); ok && cst.Value != nil && cst.Value.ExactString() == exc.Val().ExactString() {
								later = true
							}
						}
					}
					continue
				}
				for _, s := range call.Instr.Block().Succs {
					if blockReaches(s, eb) {
						later = true
					}
				}
			}
			c.Ob(rule, fmt.Sprintf("%s/addImport#%d", ssaFuncName(sf), k), call.Pos(), !later, true, "no store of the excluded mode is reachable after this import was recorded: %v", !later)
		}
	}
	if n == 0 {
		c.Fail(rule, "anchor", token.NoPos, "no function recording imports and excluding elements found")
	}
}

// ---- C13 (after round-6 seed C13-q) --------------------------------------------------------------------------------

// c13ListValidatorTotal (LIST-VALIDATOR-TOTAL): a validator of a list of paths validates every element of the list. In
// the exported Validate… functions of normalpath that take a list, the per-element validator is called inside a `range`
// over the list (or a copy of it) with the element that the range yields - not inside a counting loop that looks at a
// neighbour (`sorted[i-1]` for i = 1 … n-1 never looks at the last element, nor at the only one).
func c13ListValidatorTotal(c *Ctx) {
	const rule = "LIST-VALIDATOR-TOTAL"
	c.Rule(rule, "a validator of a list of paths validates each element the range over the list yields", 1)
	p := c.P
	pk := p.Pkg("private/pkg/normalpath")
	if pk == nil {
		c.Fail(rule, "anchor", token.NoPos, "normalpath not found")
		return
	}
	n := 0
	for _, sf := range p.SSAFuncsOf([]*packages.Package{pk}) {
		if sf.Signature.Recv() != nil || !strings.HasPrefix(sf.Name(), "Validate") || len(sf.Params) == 0 {
			continue
		}
		if _, isSlice := sf.Params[0].Type().Underlying().(*types.Slice); !isSlice {
			continue
		}
		for _, call := range callsIn(sf) {
			callee := call.Call.StaticCallee()
			if callee == nil || callee.Pkg != sf.Pkg || !strings.Contains(callee.Name(), "Validate") || len(call.Call.Args) == 0 {
				continue
			}
			n++
			// the innermost loop around the call
			var h *ssa.BasicBlock
			var loop map[*ssa.BasicBlock]bool
			for _, b := range sf.Blocks {
				if l := loopBlocks(b); l != nil && l[call.Instr.Block()] && (loop == nil || len(l) < len(loop)) {
					h, loop = b, l
				}
			}
			okLoop := h != nil && h.Comment == "rangeindex.loop"
			// the element: a load of &list[k] where k is the range's own index (the +1 of the header φ), not k-1
			okElem := false
			if okLoop {
				if u, ok := stripConv(call.Call.Args[0]).(*ssa.UnOp); ok {
					if ia, ok := u.X.(*ssa.IndexAddr); ok {
						if bo, ok := ia.Index.(*ssa.BinOp); ok && bo.Op == token.ADD && bo.Block() == h {
							okElem = true
						}
					}
				}
			}
			c.Ob(rule, fmt.Sprintf("normalpath.%s/%s", sf.Name(), callee.Name()), call.Pos(), okLoop && okElem, true, "%s is called in a range over the list (%v) with the element the range yields (%v)", callee.Name(), okLoop, okElem)
		}
	}
	if n == 0 {
		c.Fail(rule, "anchor", token.NoPos, "no list validator calling an element validator found in normalpath")
	}
}

// ---- C18 (after round-6 seed C18-r) --------------------------------------------------------------------------------

// c18EnabledAsGiven (ENABLED-AS-GIVEN): "with managed mode disabled the image is untouched": whether managed mode is on
// is what the configuration says under `enabled` (or `managed` in v1beta1) and nothing else - not "on if any option is
// set". Every store into the enabled member of the managed configuration stores a parameter or a member of the
// external configuration as it is: no φ, no computation.
func c18EnabledAsGiven(c *Ctx) {
	const rule = "ENABLED-AS-GIVEN"
	c.Rule(rule, "the managed-mode switch is stored as the configuration gives it", 2)
	p := c.P
	pk := p.Pkg("private/bufpkg/bufconfig")
	if pk == nil {
		c.Fail(rule, "anchor", token.NoPos, "bufconfig not found")
		return
	}
	n := 0
	for _, sf := range p.SSAFuncsOf([]*packages.Package{pk}) {
		k := 0
		for _, b := range sf.Blocks {
			for _, ins := range b.Instrs {
				st, ok := ins.(*ssa.Store)
				if !ok {
					continue
				}
				fa, ok := st.Addr.(*ssa.FieldAddr)
				if !ok || !strings.HasSuffix(fieldName(fa.X.Type(), fa.Field), "generateManagedConfig.enabled") {
					continue
				}
				n++
				k++
				v := stripConv(st.Val)
				plain := false
				switch t := v.(type) {
				case *ssa.Parameter:
					plain = true
				case *ssa.UnOp:
					if _, isField := t.X.(*ssa.FieldAddr); isField && t.Op == token.MUL {
						plain = true
					}
				case *ssa.Field:
					plain = true
				case *ssa.Call:
					// an accessor of another configuration object (copying a config)
					plain = t.Call.IsInvoke() && len(t.Call.Args) == 0
				}
				c.Ob(rule, fmt.Sprintf("%s/enabled#%d", ssaFuncName(sf), k), st.Pos(), plain, true, "the stored switch is a parameter or a member read as is: %v (%T)", plain, v)
			}
		}
	}
	if n == 0 {
		c.Fail(rule, "anchor", token.NoPos, "no store into generateManagedConfig.enabled found")
	}
}
