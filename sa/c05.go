package main

// C05 — lint reports exactly the violations present (registry, import skipping, traversal, option plumbing).

import (
	"go/ast"
	"go/constant"
	"go/token"
	"go/types"
	"sort"
	"strings"

	"golang.org/x/tools/go/packages"
	"golang.org/x/tools/go/ssa"
)

func init() {
	register(&propCheck{
		ID: "C05",
		Explanation: "Narrow structural part of the lint property: (1) registry integrity for the lint builders (handler/ID/builder-variable agreement, presence in each spec " +
			"version, replacements); (2) imports are never linted — every lint handler is built by a NewLint* adapter whose static call chain ends in NewLintFilesRuleHandler, " +
			"where the slice handed to the callback is appended to only under !file.IsImport(); handlers built with the raw NewRuleHandler are a frozen list and must test " +
			"IsImport() themselves; (3) traversal reaches nested declarations — ForEachMessage/ForEachEnum/ForEachExtension recurse into Messages() and visit their own " +
			"level, and each element adapter calls the accessors its element kind needs (fields and extensions of messages and of the file, enum values, oneofs, methods); " +
			"(4) every lint handler can reach an annotation call; (5) option plumbing — the literals that copy lint options between LintConfig, optionsConfigSpec and " +
			"bufcheckopt.OptionsSpec wire like-named fields/accessors, each option key stored by ToOptions is the key its Get* reader uses, and each reader has a caller " +
			"among the handlers. NOT decided: the case-conversion and suffix/prefix predicates, exact line/column, absence of annotations for unrelated rules.",
		Assumptions: []string{"a handler can only see what its adapter passes to it"},
		Run:         runC05,
	})
}

var c05RawHandlers = map[string]string{
	"HandleLintPackageNoImportCycle":          "needs all files (imports included) to build the package graph; skips import files when annotating",
	"HandleLintProtovalidate":                 "needs the whole request for extension resolution; delegates to buflintvalidate per non-import file",
	"HandleLintStablePackageNoImportUnstable": "needs all files to learn each import's package",
}

func runC05(c *Ctx) {
	c05CaseAlwaysNormalised(c)
	p := c.P
	c.Rule("REGISTRY", "lint rule builders, handlers, IDs and spec tables are mutually consistent", 150)
	c.Rule("IMPORTS-SKIPPED", "lint handlers only ever see non-import files", 45)
	c.Rule("TRAVERSAL", "element iterators recurse into nested messages and adapters visit every place an element kind can occur", 11)
	c.Rule("CAN-REPORT", "an annotation call is reachable from every registered lint handler", 40)
	c.Rule("OPTION-PLUMBING", "lint options flow field-to-field from LintConfig to the option readers used by the handlers", 18)
	c.Rule("FILES-COMPLETE", "every input file is converted for the rule handlers whatever the parallelism (jobs cover all chunks, shared mutex, sorted after the barrier)", 1)

	c05KeyInjective(c)
	c05ReqRespPairing(c)
	c05ResolvedKindGroup(c)
	c05VersionLevelTable(c)
	{
		var lp []*packages.Package
		for _, rel := range []string{pkgCheckHandle, pkgCheckUtil, "private/bufpkg/bufprotosource", "private/pkg/stringutil", "private/pkg/protoversion"} {
			if q := p.Pkg(rel); q != nil {
				lp = append(lp, q)
			}
		}
		ruleFlagLoop(c, "R-FLAGLOOP", lp)
		c03LoopEarlySuccess(c)
		c05UnstableIsNotStable(c, "UNSTABLE-IS-NOT-STABLE", lp)
		rulePathSetFresh(c, "PATH-SET-FRESH", lp, 1)
		if q := p.Pkg("private/bufpkg/bufprotosource"); q != nil {
			ruleSettersCalled(c, "SETTERS-CALLED", q, 3)
		}
	}
	c05RekeyByIdentity(c)

	t := extractCheckTables(p)
	for _, e := range t.Errors {
		c.Fail("REGISTRY", "extract", token.NoPos, "%s", e)
	}
	registryIntegrity(c, "REGISTRY", t, "lint")

	pkU, pkH, pkS := p.Pkg(pkgCheckUtil), p.Pkg(pkgCheckHandle), p.Pkg("private/bufpkg/bufprotosource")
	if pkU == nil || pkH == nil || pkS == nil {
		c.Fail("IMPORTS-SKIPPED", "anchor", token.NoPos, "packages not found")
		return
	}
	// (2a) adapter family per handler
	for _, name := range sortedKeys(t.Builders) {
		b := t.Builders[name]
		if b.Type != "lint" {
			continue
		}
		hb := t.Handlers[b.HandlerVar]
		if hb == nil {
			continue
		}
		switch {
		case strings.HasPrefix(hb.Adapter, "NewLint"):
			c.Ob("IMPORTS-SKIPPED", "rule "+b.ID+"/adapter", hb.Pos, true, false, "built by %s", hb.Adapter)
		case hb.Adapter == "NewRuleHandler" && c05RawHandlers[hb.Var] != "":
			// must test IsImport itself (in its closure)
			tests := false
			if hb.Func != nil {
				cl := newCallClosure(p, checkPkgsPlusValidate(p))
				for fn := range cl.reach(hb.Func) {
					if fr := cl.decls[fn]; fr != nil {
						ast.Inspect(fr.Decl.Body, func(n ast.Node) bool {
							if call, ok := n.(*ast.CallExpr); ok {
								if sel, ok := call.Fun.(*ast.SelectorExpr); ok && sel.Sel.Name == "IsImport" {
									tests = true
								}
							}
							return !tests
						})
					}
				}
			}
			c.Ob("IMPORTS-SKIPPED", "rule "+b.ID+"/raw-handler", hb.Pos, tests, true, "raw handler (%s) tests IsImport() itself: %v", c05RawHandlers[hb.Var], tests)
		default:
			c.Ob("IMPORTS-SKIPPED", "rule "+b.ID+"/adapter", hb.Pos, false, true, "lint handler %s is built by %s, which does not skip imports, and is not in the reviewed raw-handler list", hb.Var, hb.Adapter)
		}
	}
	// (2b) every NewLint* adapter reaches NewLintFilesRuleHandler
	cl := newCallClosure(p, checkPkgs(p))
	var filesAdapter *FuncRef
	for _, fr := range p.FuncsOf(pkU) {
		if fr.Decl.Name.Name == "NewLintFilesRuleHandler" {
			filesAdapter = fr
		}
	}
	if filesAdapter == nil {
		c.Fail("IMPORTS-SKIPPED", "NewLintFilesRuleHandler", token.NoPos, "not found")
		return
	}
	for _, fr := range p.FuncsOf(pkU) {
		n := fr.Decl.Name.Name
		if !strings.HasPrefix(n, "NewLint") || fr.Obj == filesAdapter.Obj {
			continue
		}
		ok := cl.reach(fr.Obj)[filesAdapter.Obj]
		// and does not call NewRuleHandler directly
		direct := false
		ast.Inspect(fr.Decl.Body, func(m ast.Node) bool {
			if call, isCall := m.(*ast.CallExpr); isCall {
				if fn := Callee(fr.Info(), call); fn != nil && fn.Name() == "NewRuleHandler" {
					direct = true
				}
			}
			return true
		})
		c.Ob("IMPORTS-SKIPPED", "adapter "+n+"/via-files-adapter", fr.Decl.Pos(), ok && !direct, true, "static call chain reaches NewLintFilesRuleHandler: %v; bypasses it with NewRuleHandler: %v", ok, direct)
	}
	// (2c) the files adapter filters — decided on SSA: the slice handed to the callback is built only by appends of a
	// file that lie on the false edge of that same file's IsImport() (in the adapter or in a helper it calls)
	{
		fr := filesAdapter
		sf := p.SSAFunc(fr.Obj)
		reach := reachSSA(sf, 2)
		isFileSlice := func(t types.Type) bool {
			sl, ok := t.Underlying().(*types.Slice)
			return ok && namedName(sl.Elem()) == "File" && strings.HasSuffix(namedPath(sl.Elem()), "bufprotosource.File")
		}
		appends, guardedAppends := 0, 0
		var appendVals []ssa.Value
		for _, f := range reach {
			if f.Pkg == nil || f.Pkg != sf.Pkg {
				continue
			}
			for _, call := range callsIn(f) {
				b, isB := call.Call.Value.(*ssa.Builtin)
				if !isB || b.Name() != "append" || len(call.Call.Args) != 2 || !isFileSlice(call.Call.Args[0].Type()) {
					continue
				}
				appends++
				if call.Value != nil {
					appendVals = append(appendVals, call.Value)
				}
				// the appended element(s)
				var elems []ssa.Value
				if sl, ok := call.Call.Args[1].(*ssa.Slice); ok {
					if al, ok := sl.X.(*ssa.Alloc); ok {
						elems = storesInto(al)
					}
				}
				ok := len(elems) > 0
				for _, e := range elems {
					g := false
					for _, ge := range guardingEdges(call.Instr.Block()) {
						cond, pos := condPolarity(ge.If.Cond)
						cc, isCall := cond.(*ssa.Call)
						if !isCall || !cc.Call.IsInvoke() || cc.Call.Method.Name() != "IsImport" {
							continue
						}
						// taken edge means IsImport() == false
						if (ge.Branch == pos) == false && stripConv(cc.Call.Value) == stripConv(e) {
							g = true
						}
					}
					if !g {
						ok = false
					}
				}
				if ok {
					guardedAppends++
				}
			}
		}
		// the callback's file argument depends on those appends
		fed := false
		for _, f := range reach {
			for _, call := range callsIn(f) {
				if call.Call.IsInvoke() || staticCalleeObj(call.Call) != nil || len(call.Call.Args) != 3 || !isFileSlice(call.Call.Args[2].Type()) {
					continue
				}
				for _, av := range appendVals {
					if dependsOnValueDeep(call.Call.Args[2], av) {
						fed = true
					}
				}
			}
		}
		c.Ob("IMPORTS-SKIPPED", "NewLintFilesRuleHandler/filters", fr.Decl.Pos(), appends > 0 && appends == guardedAppends && fed, true,
			"%d append(s) build a file slice in the adapter and its helpers, %d of them on the false edge of that file's IsImport(); the callback's file argument is built from them: %v", appends, guardedAppends, fed)
	}

	// (3) traversal
	for _, it := range []struct{ fn, own string }{{"ForEachMessage", "Messages"}, {"ForEachEnum", "Enums"}, {"ForEachExtension", "Extensions"}} {
		fr := p.Func("private/bufpkg/bufprotosource", it.fn)
		if fr == nil {
			c.Fail("TRAVERSAL", it.fn, token.NoPos, "not found")
			continue
		}
		info := fr.Info()
		fobj := info.Defs[fr.Decl.Type.Params.List[0].Names[0]]
		visitsOwn, recurses := false, false
		ast.Inspect(fr.Decl.Body, func(n ast.Node) bool {
			rs, ok := n.(*ast.RangeStmt)
			if !ok {
				return true
			}
			call, ok := rs.X.(*ast.CallExpr)
			if !ok {
				return true
			}
			sel, ok := call.Fun.(*ast.SelectorExpr)
			if !ok {
				return true
			}
			ast.Inspect(rs.Body, func(m ast.Node) bool {
				c2, ok := m.(*ast.CallExpr)
				if !ok {
					return true
				}
				if identObj(info, c2.Fun) == fobj && sel.Sel.Name == it.own {
					visitsOwn = true
				}
				if Callee(info, c2) == fr.Obj && sel.Sel.Name == "Messages" && len(c2.Args) == 2 && identObj(info, c2.Args[1]) == identObj(info, rs.Value) {
					recurses = true
				}
				return true
			})
			return true
		})
		c.Ob("TRAVERSAL", "bufprotosource."+it.fn, fr.Decl.Pos(), visitsOwn && recurses, true, "calls f on each of .%s() and recurses into each of .Messages(): own=%v recursion=%v", it.own, visitsOwn, recurses)
	}
	adapterNeeds := map[string][]string{
		"NewLintMessageRuleHandler":    {"ForEachMessage"},
		"NewLintEnumRuleHandler":       {"ForEachEnum"},
		"NewLintEnumValueRuleHandler":  {"ForEachEnum", "Values"},
		"NewLintFieldRuleHandler":      {"ForEachMessage", "Fields", "Extensions"},
		"NewLintOneofRuleHandler":      {"ForEachMessage", "Oneofs"},
		"NewLintServiceRuleHandler":    {"Services"},
		"NewLintMethodRuleHandler":     {"Services", "Methods"},
		"NewLintFileImportRuleHandler": {"FileImports"},
	}
	for _, an := range sortedKeys(adapterNeeds) {
		fr := p.Func(pkgCheckUtil, an)
		if fr == nil {
			c.Fail("TRAVERSAL", an, token.NoPos, "adapter not found")
			continue
		}
		called := map[string]int{}
		// closure within util (adapters may build on each other)
		for fn := range cl.reach(fr.Obj) {
			if d := cl.decls[fn]; d != nil && d.Pkg == pkU {
				ast.Inspect(d.Decl.Body, func(n ast.Node) bool {
					if call, ok := n.(*ast.CallExpr); ok {
						switch f := call.Fun.(type) {
						case *ast.SelectorExpr:
							called[f.Sel.Name]++
						}
					}
					return true
				})
			}
		}
		var missing []string
		for _, need := range adapterNeeds[an] {
			if called[need] == 0 {
				missing = append(missing, need)
			}
		}
		// fields: extensions must be visited both on messages and on the file (two Extensions() calls)
		if an == "NewLintFieldRuleHandler" && called["Extensions"] < 2 {
			missing = append(missing, "Extensions (message-level and file-level)")
		}
		c.Ob("TRAVERSAL", "adapter "+an, fr.Decl.Pos(), len(missing) == 0, true, "required iterator/accessor calls %v; missing %v", adapterNeeds[an], missing)
	}

	// (4) can report
	clAll := newCallClosure(p, checkPkgsPlusValidate(p))
	for _, name := range sortedKeys(t.Builders) {
		b := t.Builders[name]
		if b.Type != "lint" {
			continue
		}
		hb := t.Handlers[b.HandlerVar]
		if hb == nil || hb.Func == nil {
			continue
		}
		can := false
		for fn := range clAll.reach(hb.Func) {
			if clAll.annotates[fn] {
				can = true
			}
		}
		c.Ob("CAN-REPORT", "rule "+b.ID, hb.Pos, can, true, "an annotation call is reachable from %s: %v", hb.Func.Name(), can)
	}

	c05Options(c)
	goAggRule(c, "FILES-COMPLETE", func(rel string) bool { return rel == "private/bufpkg/bufprotosource" })
}

func checkPkgsPlusValidate(p *Prog) []*packages.Package {
	out := checkPkgs(p)
	if pk := p.Pkg("private/bufpkg/bufcheck/bufcheckserver/internal/buflintvalidate"); pk != nil {
		out = append(out, pk)
	}
	return out
}

// c05Options checks the field-to-field wiring of lint options.
func c05Options(c *Ctx) {
	p := c.P
	const rule = "OPTION-PLUMBING"
	pkC, pkO, pkH := p.Pkg("private/bufpkg/bufcheck"), p.Pkg("private/bufpkg/bufcheck/internal/bufcheckopt"), p.Pkg(pkgCheckHandle)
	if pkC == nil || pkO == nil {
		c.Fail(rule, "anchor", token.NoPos, "bufcheck / bufcheckopt not found")
		return
	}
	// literals in bufcheck whose keys name option fields
	optFields := map[string]bool{}
	if obj := pkO.Types.Scope().Lookup("OptionsSpec"); obj != nil {
		st := obj.Type().Underlying().(*types.Struct)
		for i := 0; i < st.NumFields(); i++ {
			optFields[st.Field(i).Name()] = true
		}
	}
	if len(optFields) < 5 {
		c.Fail(rule, "OptionsSpec", token.NoPos, "bufcheckopt.OptionsSpec not found")
		return
	}
	info := pkC.TypesInfo
	for _, f := range pkC.Syntax {
		ast.Inspect(f, func(n ast.Node) bool {
			cl, ok := n.(*ast.CompositeLit)
			if !ok {
				return true
			}
			tn := namedName(info.TypeOf(cl))
			if tn != "OptionsSpec" && tn != "optionsConfigSpec" {
				return true
			}
			fd := p.EnclosingFuncDecl(cl)
			fname := "?"
			if fd != nil {
				fname = declName(fd)
			}
			for _, el := range cl.Elts {
				kv, ok := el.(*ast.KeyValueExpr)
				if !ok {
					continue
				}
				key := kv.Key.(*ast.Ident).Name
				if !optFields[key] {
					continue
				}
				// constants (breaking config has no lint options) are fine
				if tv, ok := info.Types[kv.Value]; ok && tv.Value != nil {
					c.Ob(rule, fname+"/"+tn+"."+key, kv.Pos(), true, false, "constant %s", tv.Value.ExactString())
					continue
				}
				src := ""
				switch v := ast.Unparen(kv.Value).(type) {
				case *ast.SelectorExpr:
					src = v.Sel.Name
				case *ast.CallExpr:
					if sel, ok := v.Fun.(*ast.SelectorExpr); ok {
						src = sel.Sel.Name
					}
				case *ast.Ident:
					// a local prepared before the literal (`commentExcludes := …`): its name is what is compared
					if _, isVar := info.Uses[v].(*types.Var); isVar {
						src = v.Name
					}
				}
				c.Ob(rule, fname+"/"+tn+"."+key, kv.Pos(), strings.EqualFold(src, key), true, "field %s is filled from %q (want the like-named field/accessor)", key, src)
			}
			return true
		})
	}
	// ToOptions key ↔ Get<Field> key; readers have callers
	oinfo := pkO.TypesInfo
	toOpts := p.Func("private/bufpkg/bufcheck/internal/bufcheckopt", "OptionsSpec.ToOptions")
	if toOpts == nil {
		c.Fail(rule, "ToOptions", token.NoPos, "not found")
		return
	}
	fieldKey := map[string]types.Object{}
	ast.Inspect(toOpts.Decl.Body, func(n ast.Node) bool {
		ifs, ok := n.(*ast.IfStmt)
		if !ok {
			return true
		}
		var field string
		check := func(e ast.Node) {
			ast.Inspect(e, func(m ast.Node) bool {
				if sel, ok := m.(*ast.SelectorExpr); ok && optFields[sel.Sel.Name] {
					if _, isField := oinfo.Selections[sel]; isField {
						field = sel.Sel.Name
					}
				}
				return true
			})
		}
		if ifs.Init != nil {
			check(ifs.Init)
		}
		check(ifs.Cond)
		if field == "" {
			return true
		}
		for _, st := range ifs.Body.List {
			if as, ok := st.(*ast.AssignStmt); ok && len(as.Lhs) == 1 {
				if ix, ok := as.Lhs[0].(*ast.IndexExpr); ok {
					fieldKey[field] = identObj(oinfo, ix.Index)
				}
			}
		}
		return true
	})
	for _, fld := range sortedKeys(optFields) {
		key := fieldKey[fld]
		getter := p.Func("private/bufpkg/bufcheck/internal/bufcheckopt", "Get"+fld)
		if key == nil || getter == nil {
			c.Ob(rule, "bufcheckopt."+fld+"/key", toOpts.Decl.Pos(), false, true, "option field %s: stored key found=%v, reader Get%s found=%v", fld, key != nil, fld, getter != nil)
			continue
		}
		same := usesObj(oinfo, getter.Decl.Body, key)
		c.Ob(rule, "bufcheckopt."+fld+"/key", getter.Decl.Pos(), same, true, "ToOptions stores %s under %s and Get%s reads the same key: %v", fld, key.Name(), fld, same)
		// reader has a caller among handlers
		callers := 0
		if pkH != nil {
			for _, pk := range checkPkgsPlusValidate(p) {
				for id, obj := range pk.TypesInfo.Uses {
					_ = id
					if obj == types.Object(getter.Obj) {
						callers++
					}
				}
			}
		}
		c.Ob(rule, "bufcheckopt.Get"+fld+"/consulted", getter.Decl.Pos(), callers > 0, true, "Get%s is consulted by %d handler site(s)", fld, callers)
	}
}

// c05KeyInjective (KEY-INJECTIVE, added after seeded change C05-a): locations are looked up through a string key
// built from the source path ([]int32). The key is injective only if every byte of every element is written: for an
// element variable of an integer type W bits wide the shifts applied before the byte() truncation must be exactly
// {0, 8, …, W-8} and the buffer advances W/8 bytes per element. With fewer bytes two different paths (index 1 and
// index 65537) share a key and a lint annotation is attached to, or looked up at, the wrong declaration. Widths
// come from go/types, not from the text.
func c05KeyInjective(c *Ctx) {
	ruleKeyInjective(c, "KEY-INJECTIVE", "private/bufpkg/bufprotosource")
}

// ruleKeyInjective is KEY-INJECTIVE for one package (shared with C18 for the mark-and-sweep location keys).
func ruleKeyInjective(c *Ctx, rule string, rel string) {
	c.Rule(rule, "string keys built from integer slices keep every byte of every element", 1)
	p := c.P
	pk := p.Pkg(rel)
	if pk == nil {
		c.Fail(rule, "anchor", token.NoPos, "%s not found", rel)
		return
	}
	info := pk.TypesInfo
	n := 0
	for _, fr := range p.FuncsOf(pk) {
		if fr.Decl.Body == nil {
			continue
		}
		ast.Inspect(fr.Decl.Body, func(x ast.Node) bool {
			rs, ok := x.(*ast.RangeStmt)
			if !ok || rs.Value == nil {
				return true
			}
			ev, _ := identObj(info, rs.Value).(*types.Var)
			if ev == nil {
				return true
			}
			bt, ok := ev.Type().Underlying().(*types.Basic)
			if !ok || bt.Info()&types.IsInteger == 0 {
				return true
			}
			width := map[types.BasicKind]int{types.Int8: 8, types.Uint8: 8, types.Int16: 16, types.Uint16: 16, types.Int32: 32, types.Uint32: 32, types.Int64: 64, types.Uint64: 64, types.Int: 64, types.Uint: 64}[bt.Kind()]
			if width <= 8 {
				return true
			}
			// byte(elem) / byte(elem >> k) stored into a []byte
			shifts := map[int64]bool{}
			stores := 0
			ast.Inspect(rs.Body, func(m ast.Node) bool {
				as, ok := m.(*ast.AssignStmt)
				if !ok || len(as.Lhs) != 1 || len(as.Rhs) != 1 {
					return true
				}
				if _, isIdx := as.Lhs[0].(*ast.IndexExpr); !isIdx {
					return true
				}
				call, ok := ast.Unparen(as.Rhs[0]).(*ast.CallExpr)
				if !ok || len(call.Args) != 1 {
					return true
				}
				if tv, ok := info.Types[call.Fun]; !ok || !tv.IsType() {
					return true
				}
				if b, ok := info.TypeOf(call).Underlying().(*types.Basic); !ok || (b.Kind() != types.Uint8 && b.Kind() != types.Byte) {
					return true
				}
				arg := ast.Unparen(call.Args[0])
				if identObj(info, arg) == types.Object(ev) {
					shifts[0] = true
					stores++
					return true
				}
				if be, ok := arg.(*ast.BinaryExpr); ok && be.Op == token.SHR && identObj(info, be.X) == types.Object(ev) {
					if tv := info.Types[be.Y]; tv.Value != nil {
						if k, ok := constant.Int64Val(constant.ToInt(tv.Value)); ok {
							shifts[k] = true
							stores++
						}
					}
				}
				return true
			})
			if stores == 0 {
				return true
			}
			n++
			var missing []int64
			for k := int64(0); k < int64(width); k += 8 {
				if !shifts[k] {
					missing = append(missing, k)
				}
			}
			c.Ob(rule, fr.ID()+"/"+ev.Name(), rs.Pos(), len(missing) == 0, true,
				"element %s is %d bits wide; byte(%s >> k) is stored for k in %v; missing shifts %v (a dropped byte makes distinct elements share a key)", ev.Name(), width, ev.Name(), sortedInt64Keys(shifts), missing)
			return true
		})
	}
	if n == 0 {
		c.Fail(rule, "sites", token.NoPos, "no integer-slice-to-bytes key builder found in bufprotosource (getPathKey moved or rewritten: undecided)")
	}
}

func sortedInt64Keys(m map[int64]bool) []int64 {
	var out []int64
	for k := range m {
		out = append(out, k)
	}
	sort.Slice(out, func(i, j int) bool { return out[i] < out[j] })
	return out
}
