package main

// C15 — write failures are always reported; atomic puts are all-or-nothing.

import (
	"fmt"
	"go/ast"
	"go/token"
	"go/types"
	"strings"

	"golang.org/x/tools/go/packages"
	"golang.org/x/tools/go/ssa"
)

// Packages whose dropped errors are outside the operations the property names; their sites are
// counted and listed in the evidence, never failed.
var c15OutOfScope = []struct{ prefix, reason string }{
	{"private/buf/bufcurl", "buf curl: interactive RPC client, not a write path named by the property"},
	{"private/buf/buflsp", "language server: best-effort notifications to the editor"},
	{"private/buf/bufstudioagent", "studio agent HTTP handler"},
	{"private/buf/bufwkt/cmd", "code generator run at development time"},
	{"private/bufpkg/bufstyle", "development-time lint tool"},
	{"private/bufpkg/bufcobra", "hidden docs generator"},
	{"private/buf/cmd/buf/command/beta", "beta registry commands printing to stdout"},
	{"private/buf/cmd/buf/command/registry", "registry commands printing to stdout"},
	{"private/buf/cmd/buf/command/curl", "buf curl command"},
	{"private/pkg/oauth2", "device-flow login"},
	{"private/pkg/storage/storagetesting", "test-suite helper package"},
	{"private/pkg/prototesting", "test helper package"},
	{"private/bufpkg/bufremoteplugin", "remote plugin docker tooling"},
	{"private/bufpkg/bufplugin/bufpluginapi", "plugin upload to the registry"},
	{"cmd/", "stand-alone development tools"},
}

func c15Scope(pkgRel string) (bool, string) {
	for _, o := range c15OutOfScope {
		if strings.HasPrefix(pkgRel, o.prefix) {
			return false, o.reason
		}
	}
	return true, ""
}

// In-memory sinks whose Write methods cannot fail (decided by static receiver type).
func infallibleSink(recv types.Type) bool {
	switch namedPath(recv) {
	case "bytes.Buffer", "strings.Builder", "hash.Hash", "hash.Hash32", "hash.Hash64",
		"golang.org/x/crypto/sha3.ShakeHash", "text/tabwriter.Writer":
		return true
	}
	return false
}

// Reviewed (function, callee) pairs whose dropped error is deliberate. One reason per entry.
var c15ErrUseAllowed = map[string]string{
	"(*private/bufpkg/bufprotoplugin.generator).Generate$1|fmt.Fprintln":       "plugin stderr relay to the user's stderr; failure to print a diagnostic is not a write of output",
	"private/pkg/app.printError|fmt.Fprintln":                                  "last-resort error printing to stderr",
	"private/pkg/app/appcmd.printUsage|(io.Writer).Write":                      "usage text to stdout/stderr",
	"(*private/pkg/verbose.writePrinter).Printf|(io.Writer).Write":             "verbose logging",
	"private/pkg/diff.doDiff$1|os.Remove":                                      "cleanup of a temp file in a defer; the diff result does not depend on it",
	"private/pkg/diff.doDiff$2|os.Remove":                                      "cleanup of a temp file in a defer",
	"private/pkg/diff.writeTempFile|os.Remove":                                 "cleanup after an already failing write; the write error is what is returned",
	"private/pkg/tmp.NewFile$2|dynamic:func() error":                           "context-cancel cleanup goroutine: nobody to report to",
	"private/pkg/tmp.NewDir$2|dynamic:func() error":                            "context-cancel cleanup goroutine: nobody to report to",
	"private/buf/cmd/buf/command/generate.readBufGenYAMLFile|(*os.File).Close": "file opened read-only",
	"private/pkg/app/appcmd.MarkFlagRequired":                                  "cobra flag wiring at start-up",
}

func c15AllowedErrUse(fn, callee string) (string, bool) {
	if r, ok := c15ErrUseAllowed[fn+"|"+callee]; ok {
		return r, true
	}
	if strings.Contains(callee, "github.com/spf13/pflag.FlagSet).Mark") || strings.HasSuffix(callee, "appcmd.MarkFlagRequired") {
		return "cobra flag wiring at start-up: fails only for unknown flag names", true
	}
	return "", false
}

var c15SwallowAllowed = map[string]string{
	"private/bufpkg/bufimage.parserAccessorHandler.Open": "the nil return is the successful well-known-type fallback, reached only after errors.Is(moduleErr, fs.ErrNotExist) (earlier sibling guard) and wktErr == nil",
}

func init() {
	register(&propCheck{
		ID: "C15",
		Explanation: "Structural necessary conditions of error transparency and atomic puts, decided on every run from the type-checked " +
			"source: (1) R-DEFER on every deferred assignment to a named error result in the module; (2) R-ERRUSE on every error-returning call " +
			"(SSA: the error component has a consuming use) with in-memory sinks decided by receiver type and a frozen, reasoned exception table; " +
			"(3) R-ERRSWALLOW on every nil-error return under `if err != nil`; (4) R-CLOSE pairing of every acquired writer; (5) thread.Parallelize " +
			"collects every job error under the lock, waits before reading, and returns non-nil whenever one was recorded; (6) typestate of the disk " +
			"bucket's atomic writer (temp file in the final directory, rename only after Close and only if neither Close nor any Write failed, " +
			"remove otherwise); (7) CopyWithAtomic reaches PutWithAtomic; (8) generated files are flushed only on the all-success path. " +
			"NOT decided: what a concurrent reader observes at a kill point (OS rename semantics assumed), short writes by the OS, value-level content equality.",
		Assumptions: []string{
			"os.Rename within one directory is atomic (POSIX)",
			"errors.Join(a,b) is non-nil iff a or b is non-nil",
			"no reflection/unsafe writes to the analysed state",
		},
		Run: runC15,
	})
}

func runC15(c *Ctx) {
	p := c.P
	mods := p.ModulePkgs()

	// (1) R-DEFER
	c.Rule("R-DEFER", "a deferred assignment to a named error result joins, wraps or is guarded by the current value", 60)
	ruleDefer(c, "R-DEFER", mods)
	c15StagedUntilFlush(c)
	c15PutAllGiven(c)
	c09CtxErrRecorded(c)
	c11ArchiveLastWins(c)

	// (2) R-ERRUSE
	c.Rule("R-ERRUSE", "the error result of every call is consumed (returned, joined, tested, stored or passed on)", 1500)
	ruleErrUse(c, "R-ERRUSE", mods, c15Scope, c15AllowedErrUse)

	// (3) R-ERRSWALLOW
	c.Rule("R-ERRSWALLOW", "no nil-error return on the non-nil edge of an error test unless an enclosing/earlier condition classifies that error", 15)
	ruleErrSwallow(c, "R-ERRSWALLOW", mods, c15Scope, c15SwallowAllowed)

	// (4) R-CLOSE
	c.Rule("R-CLOSE", "every writer acquired in a function is closed on every path to an exit or visibly handed off", 25)
	ruleClose(c, "R-CLOSE", mods, c15Scope)

	c15Parallelize(c)
	c02CancelGated(c, "CANCEL-GATED")
	c15AtomicWriter(c)
	c15AtomicOption(c)
	c15GenFlush(c)
	ruleOpenTruncates(c, "OPEN-TRUNCATES")
	ruleStaleErr(c, "R-STALE-ERR", c.P.ModulePkgs())
	ruleErrOverwrittenInLoop(c, "R-ERRLOOP", c.P.ModulePkgs())
	ruleJoinedErrWhole(c, "PARALLEL-ERR-WHOLE", c.P.ModulePkgs(), 6)
	// the module cache's archive object is requested atomically (shared with C09 MARKER-ATOMIC)
	c15AtomicKept(c)
	ruleWriteSwallow(c, "R-WRITE-SWALLOW", c.P.ModulePkgs(), 50)
	ruleErrAllPaths(c, "R-ERRSEEN", c.P.ModulePkgs())
	c.Rule("ATOMIC-REQUESTED", "objects whose presence means \"complete\" to a reader are written with the atomic option", 1)
	c09MarkerLastShared(c, "MARKER-LAST")
	if pkStore := c.P.Pkg("private/bufpkg/bufmodule/bufmodulestore"); pkStore != nil {
		cacheTarPutAtomic(c, "ATOMIC-REQUESTED", pkStore)
	} else {
		c.Fail("ATOMIC-REQUESTED", "anchor", token.NoPos, "bufmodulestore not found")
	}
}

// ruleErrUse records one obligation per error-returning call in scope.
func ruleErrUse(c *Ctx, rule string, pkgs []*packages.Package, scope func(string) (bool, string), allowed func(fn, callee string) (string, bool)) {
	p := c.P
	outOfScope := 0
	for _, pk := range pkgs {
		rel := relPkg(pk.PkgPath)
		inScope, _ := scope(rel)
		for _, sf := range p.SSAFuncsOf([]*packages.Package{pk}) {
			c.FuncsAnalysed++
			sites, total := unconsumedErrors(sf)
			c.CallSites += total
			if !inScope {
				outOfScope += len(sites)
				continue
			}
			// consumed calls are summarised in one obligation per function to keep evidence small
			if total-len(sites) > 0 {
				c.Ob(rule, ssaFuncName(sf)+"/consumed", sf.Pos(), true, false, "%d error-returning calls, all but %d consumed", total, len(sites))
			}
			for _, s := range sites {
				fn := ssaFuncName(s.Fn)
				inst := fn + "/" + s.Callee
				if s.Recv != nil && infallibleSink(s.Recv) {
					c.Ob(rule, inst, s.Pos, true, false, "%s on an in-memory sink (%s) cannot fail", s.Kind, typeShort(s.Recv))
					continue
				}
				if len(s.Args) > 0 && fmtToInfallible(s) {
					c.Ob(rule, inst, s.Pos, true, false, "%s fmt.Fprint* into an in-memory sink cannot fail", s.Kind)
					continue
				}
				if why, ok := allowed(fn, s.Callee); ok {
					c.Ob(rule, inst, s.Pos, true, false, "%s, reviewed exception: %s", s.Kind, why)
					continue
				}
				c.Ob(rule, inst, s.Pos, false, true,
					"error result of %s is %s in %s: a failure here is never reported to the caller", s.Callee, s.Kind, fn)
			}
		}
	}
	c.Note("%s: %d unconsumed error results in out-of-scope packages (listed scopes in c15OutOfScope)", rule, outOfScope)
}

// fmtToInfallible: fmt.Fprint*(w, …) where w's dynamic type is visibly an in-memory sink.
func fmtToInfallible(s errUseSite) bool {
	if s.CalleeF == nil || s.CalleeF.Pkg() == nil || s.CalleeF.Pkg().Path() != "fmt" || !strings.HasPrefix(s.CalleeF.Name(), "Fprint") {
		return false
	}
	w := stripConv(s.Args[0])
	return infallibleSink(w.Type())
}

func ruleErrSwallow(c *Ctx, rule string, pkgs []*packages.Package, scope func(string) (bool, string), allowed map[string]string) {
	p := c.P
	for _, pk := range pkgs {
		rel := relPkg(pk.PkgPath)
		if ok, _ := scope(rel); !ok {
			continue
		}
		for _, s := range findSwallows(p, pk) {
			inst := s.Fn + "/" + s.ErrVar
			switch {
			case s.Classified:
				c.Ob(rule, inst, s.Ret.Pos(), true, true, "nil return under `%s` is guarded by a condition that inspects %s", short(exprString(s.If.Cond), 50), s.ErrVar)
			case allowed[s.Fn] != "":
				c.Ob(rule, inst, s.Ret.Pos(), true, true, "reviewed exception: %s", allowed[s.Fn])
			default:
				c.Ob(rule, inst, s.Ret.Pos(), false, true,
					"`%s` lies on the non-nil edge of `%s` with no condition classifying the error: the failure is reported as success",
					short(nodeString(p, s.Ret), 60), short(exprString(s.If.Cond), 50))
			}
		}
	}
}

// ---- (5) thread.Parallelize ------------------------------------------------------------------

func c15Parallelize(c *Ctx) {
	p := c.P
	const rule = "PARALLELIZE"
	c.Rule(rule, "thread.Parallelize records every job error under its mutex, waits for all jobs before reading, and returns non-nil when any error was recorded", 6)
	fr := p.Func("private/pkg/thread", "Parallelize")
	if fr == nil {
		c.Fail(rule, "anchor", token.NoPos, "private/pkg/thread.Parallelize not found")
		return
	}
	info := fr.Info()
	body := fr.Decl.Body
	// errs: the []error local returned/inspected at the end
	var errsObj types.Object
	ast.Inspect(body, func(n ast.Node) bool {
		if vs, ok := n.(*ast.ValueSpec); ok {
			for _, nm := range vs.Names {
				o := info.Defs[nm]
				if sl, ok := o.Type().(*types.Slice); ok && isErrorType(sl.Elem()) {
					errsObj = o
				}
			}
		}
		return true
	})
	if errsObj == nil {
		// the accumulator is not a local of Parallelize (e.g. a small collector type with its own mutex): decide the
		// same conditions on SSA, where the shape of the accumulator does not matter
		c15ParallelizeSSA(c, rule, fr)
		return
	}
	// adders: closures that append their parameter to errs
	adders := map[types.Object]*ast.FuncLit{}
	ast.Inspect(body, func(n ast.Node) bool {
		as, ok := n.(*ast.AssignStmt)
		if !ok || len(as.Lhs) != 1 || len(as.Rhs) != 1 {
			return true
		}
		lit, ok := as.Rhs[0].(*ast.FuncLit)
		if !ok {
			return true
		}
		appends := false
		ast.Inspect(lit.Body, func(m ast.Node) bool {
			if a, ok := m.(*ast.AssignStmt); ok && len(a.Lhs) == 1 && identObj(info, a.Lhs[0]) == errsObj {
				appends = true
			}
			return true
		})
		if appends {
			adders[identObj(info, as.Lhs[0])] = lit
		}
		return true
	})
	c.Ob(rule, "adder-exists", body.Pos(), len(adders) > 0, false, "%d closure(s) append to %s", len(adders), errsObj.Name())
	// every write to errs anywhere is between Lock and Unlock of one mutex
	ast.Inspect(body, func(n ast.Node) bool {
		as, ok := n.(*ast.AssignStmt)
		if !ok {
			return true
		}
		for _, l := range as.Lhs {
			if identObj(info, l) != errsObj {
				continue
			}
			encl := p.EnclosingFunc(as)
			lit, isLit := encl.(*ast.FuncLit)
			if !isLit {
				c.Ob(rule, "errs-write-locked", as.Pos(), false, true, "write to %s outside a locked closure", errsObj.Name())
				continue
			}
			g := p.CFGOf(lit.Body, info)
			var locks, unlocks []ast.Node
			ast.Inspect(lit.Body, func(m ast.Node) bool {
				if call, ok := m.(*ast.CallExpr); ok {
					if fn := Callee(info, call); fn != nil && methodIs(fn, "sync", "Mutex", "Lock") {
						locks = append(locks, call)
					} else if fn != nil && methodIs(fn, "sync", "Mutex", "Unlock") {
						unlocks = append(unlocks, call)
					}
				}
				return true
			})
			ok := false
			for _, l := range locks {
				if g.Dominates(l, as) {
					ok = true
				}
			}
			// and an Unlock on every path from the write to the exit
			held := ok
			if held {
				if bad, _ := g.ExitReachableAvoiding(as, unlocks, nil); bad {
					held = false
				}
				if g.FallsOffEnd() && g.ReachableAvoiding(as, nil, unlocks) {
					// no explicit target: conservative check handled below
				}
				if len(unlocks) == 0 {
					held = false
				}
			}
			c.Ob(rule, "errs-write-locked", as.Pos(), held, true, "append to %s is dominated by Mutex.Lock and followed by Unlock: %v", errsObj.Name(), held)
		}
		return true
	})
	// goroutines: the job's error reaches an adder on the non-nil edge
	nGo := 0
	ast.Inspect(body, func(n ast.Node) bool {
		gs, ok := n.(*ast.GoStmt)
		if !ok {
			return true
		}
		nGo++
		// the goroutine's body: a literal, a local variable holding a literal, or a function of the package (whose
		// parameters then stand for the arguments, so an adder handed in is an adder inside)
		var lit *ast.FuncLit
		goAdders := adders
		switch fun := ast.Unparen(gs.Call.Fun).(type) {
		case *ast.FuncLit:
			lit = fun
		case *ast.Ident:
			if o := info.Uses[fun]; o != nil {
				nAssign := 0
				ast.Inspect(body, func(m ast.Node) bool {
					switch as := m.(type) {
					case *ast.AssignStmt:
						for i, l := range as.Lhs {
							if id, ok := l.(*ast.Ident); ok && info.ObjectOf(id) == o {
								nAssign++
								if i < len(as.Rhs) && len(as.Lhs) == len(as.Rhs) {
									if fl, ok := ast.Unparen(as.Rhs[i]).(*ast.FuncLit); ok {
										lit = fl
									}
								}
							}
						}
					case *ast.ValueSpec:
						for i, id := range as.Names {
							if info.ObjectOf(id) == o && i < len(as.Values) {
								nAssign++
								if fl, ok := ast.Unparen(as.Values[i]).(*ast.FuncLit); ok {
									lit = fl
								}
							}
						}
					}
					return true
				})
				if nAssign != 1 {
					lit = nil
				}
				if fn, isFn := o.(*types.Func); isFn {
					if fr := p.Func("private/pkg/thread", fn.Name()); fr != nil && fr.Obj == fn && fr.Decl.Body != nil && fr.Decl.Recv == nil {
						lit = &ast.FuncLit{Type: fr.Decl.Type, Body: fr.Decl.Body}
						goAdders = map[types.Object]*ast.FuncLit{}
						for k, v := range adders {
							goAdders[k] = v
						}
						var params []*ast.Ident
						for _, f := range fr.Decl.Type.Params.List {
							params = append(params, f.Names...)
						}
						for i, a := range gs.Call.Args {
							if al := adders[identObj(info, a)]; i < len(params) && al != nil {
								goAdders[info.ObjectOf(params[i])] = al
							}
						}
					}
				}
			}
		}
		if lit == nil {
			c.Ob(rule, "go-literal", gs.Pos(), false, false, "go statement does not run a literal: cannot decide error collection")
			return true
		}
		found := false
		calls := 0
		ast.Inspect(lit.Body, func(m ast.Node) bool {
			ifs, ok := m.(*ast.IfStmt)
			if !ok {
				return true
			}
			obj := nonNilErrTested(info, ifs.Cond)
			if obj == nil {
				return true
			}
			// err must come from a call of a job (a func(context.Context) error value)
			calls++
			for _, st := range ifs.Body.List {
				es, ok := st.(*ast.ExprStmt)
				if !ok {
					continue
				}
				call, ok := es.X.(*ast.CallExpr)
				if !ok || len(call.Args) != 1 {
					continue
				}
				if _, isAdder := goAdders[identObj(info, call.Fun)]; isAdder && identObj(info, call.Args[0]) == obj {
					found = true
				}
			}
			return true
		})
		c.Ob(rule, "job-error-recorded", gs.Pos(), found, true, "goroutine body records the job's non-nil error through the locked adder: %v", found)
		// wg.Done on every path of the goroutine: last statement calls WaitGroup.Done and no return precedes it
		done := false
		if l := len(lit.Body.List); l > 0 {
			if es, ok := lit.Body.List[l-1].(*ast.ExprStmt); ok {
				if call, ok := es.X.(*ast.CallExpr); ok {
					if fn := Callee(info, call); fn != nil && methodIs(fn, "sync", "WaitGroup", "Done") {
						done = true
					}
				}
			}
		}
		hasReturn := false
		inspectNoFuncLit(lit.Body, func(m ast.Node) bool {
			if _, ok := m.(*ast.ReturnStmt); ok {
				hasReturn = true
			}
			return true
		})
		// deferred Done is equally fine
		ast.Inspect(lit.Body, func(m ast.Node) bool {
			if ds, ok := m.(*ast.DeferStmt); ok {
				if fn := Callee(info, ds.Call); fn != nil && methodIs(fn, "sync", "WaitGroup", "Done") {
					done, hasReturn = true, false
				}
			}
			return true
		})
		c.Ob(rule, "wg-done-all-paths", gs.Pos(), done && !hasReturn, true, "WaitGroup.Done runs on every path of the job goroutine")
		return true
	})
	c.Ob(rule, "go-sites", body.Pos(), nGo >= 1, false, "%d go statements", nGo)
	// wg.Wait dominates every read of errs in the function body proper
	g := p.CFGOf(body, info)
	var waits []ast.Node
	inspectNoFuncLit(body, func(n ast.Node) bool {
		if call, ok := n.(*ast.CallExpr); ok {
			if fn := Callee(info, call); fn != nil && methodIs(fn, "sync", "WaitGroup", "Wait") {
				waits = append(waits, call)
			}
		}
		return true
	})
	reads := 0
	inspectNoFuncLit(body, func(n ast.Node) bool {
		id, ok := n.(*ast.Ident)
		if !ok || info.Uses[id] != errsObj {
			return true
		}
		reads++
		dom := false
		for _, w := range waits {
			if g.Dominates(w, id) {
				dom = true
			}
		}
		c.Ob(rule, "wait-before-read", id.Pos(), dom, true, "read of %s is dominated by WaitGroup.Wait: %v", errsObj.Name(), dom)
		return true
	})
	if reads == 0 {
		c.Fail(rule, "wait-before-read", body.Pos(), "%s is never read after the jobs ran", errsObj.Name())
	}
	// final switch on len(errs): nil only in the `case 0` arm
	var sw *ast.SwitchStmt
	inspectNoFuncLit(body, func(n ast.Node) bool {
		if s, ok := n.(*ast.SwitchStmt); ok && s.Tag != nil {
			if call, ok := s.Tag.(*ast.CallExpr); ok && len(call.Args) == 1 && identObj(info, call.Args[0]) == errsObj {
				sw = s
			}
		}
		return true
	})
	if sw == nil {
		// alternative shape: return errors.Join(errs...)
		okAlt := false
		for _, r := range g.Returns() {
			if len(r.Results) == 1 && usesObj(info, r.Results[0], errsObj) {
				okAlt = true
			}
		}
		c.Ob(rule, "result-from-errs", body.Pos(), okAlt, true, "no switch on len(%s); a return derives its value from it: %v", errsObj.Name(), okAlt)
	} else {
		for _, cc := range sw.Body.List {
			clause := cc.(*ast.CaseClause)
			zero := len(clause.List) == 1 && constIntIs(info, clause.List[0], 0)
			for _, st := range clause.Body {
				r, ok := st.(*ast.ReturnStmt)
				if !ok {
					continue
				}
				isNil := classifyReturn(info, r) == retNil
				label := "default"
				if len(clause.List) > 0 {
					label = exprString(clause.List[0])
				}
				if zero {
					c.Ob(rule, "switch-len/case "+label, r.Pos(), isNil, true, "no recorded error ⇒ nil")
				} else {
					c.Ob(rule, "switch-len/case "+label, r.Pos(), !isNil && usesObj(info, r.Results[0], errsObj), true,
						"≥1 recorded error ⇒ the return value derives from %s (got `%s`)", errsObj.Name(), short(nodeString(p, r), 60))
				}
			}
		}
	}
	// copyPaths returns Parallelize's error
	// (found by what it does: the function of package storage that hands its copy jobs to thread.Parallelize)
	var cp *FuncRef
	if pkS := p.Pkg("private/pkg/storage"); pkS != nil {
		for _, fr := range p.FuncsOf(pkS) {
			if fr.Obj == nil || fr.Decl.Body == nil {
				continue
			}
			for _, call := range callsIn(p.SSAFunc(fr.Obj)) {
				if fn := staticCalleeObj(call.Call); fn != nil && calleeIs(fn, "private/pkg/thread", "Parallelize") {
					cp = fr
				}
			}
		}
	}
	if cp != nil {
		sf := p.SSAFunc(cp.Obj)
		okRet := false
		for _, call := range callsIn(sf) {
			if fn := staticCalleeObj(call.Call); fn != nil && calleeIs(fn, "private/pkg/thread", "Parallelize") && call.Value != nil {
				for _, r := range returnsOf(sf) {
					last := r.Results[len(r.Results)-1]
					if dependsOnValue(last, call.Value) {
						okRet = true
					}
				}
			}
		}
		c.Ob(rule, "copyPaths-returns-parallelize-error", cp.Decl.Pos(), okRet, true, "storage.copyPaths returns the error of thread.Parallelize: %v", okRet)
	} else {
		c.Fail(rule, "copyPaths", token.NoPos, "storage.copyPaths not found")
	}
}

func constIntIs(info *types.Info, e ast.Expr, v int64) bool {
	tv, ok := info.Types[e]
	if !ok || tv.Value == nil {
		return false
	}
	return tv.Value.ExactString() == fmt.Sprint(v)
}

// ---- (6) atomic writer typestate ---------------------------------------------------------------

func c15AtomicWriter(c *Ctx) {
	p := c.P
	const rule = "ATOMIC-WRITER"
	c.Rule(rule, "storageos atomic put: temp file in the final directory; rename only after file.Close and only when neither Close nor any Write failed; temp removed on every other exit", 7)
	pk := p.Pkg("private/pkg/storage/storageos")
	if pk == nil {
		c.Fail(rule, "anchor", token.NoPos, "package storageos not found")
		return
	}
	isCall := func(cc *ssa.CallCommon, pkg, recv, name string) bool {
		return isFuncNamed(staticCalleeObj(cc), pkg, recv, name)
	}
	// locate the Close method that renames
	var closeFn, writeFn, putFn *ssa.Function
	for _, sf := range p.SSAFuncsOf([]*packages.Package{pk}) {
		for _, call := range callsIn(sf) {
			switch {
			case isCall(call.Call, "os", "", "Rename"):
				closeFn = sf
			case isCall(call.Call, "os", "", "CreateTemp"):
				putFn = sf
			case isCall(call.Call, "os", "File", "Write") && sf.Signature.Recv() != nil:
				writeFn = sf
			}
		}
	}
	if closeFn == nil || putFn == nil || writeFn == nil {
		c.Fail(rule, "anchors", token.NoPos, "could not locate the functions calling os.Rename (%v), os.CreateTemp (%v), (*os.File).Write (%v) in storageos", closeFn != nil, putFn != nil, writeFn != nil)
		return
	}
	// --- Close
	var renames, fcloses, removes, loads []ssaCall
	for _, call := range callsIn(closeFn) {
		switch {
		case isCall(call.Call, "os", "", "Rename"):
			renames = append(renames, call)
		case isCall(call.Call, "os", "File", "Close"):
			fcloses = append(fcloses, call)
		case isCall(call.Call, "os", "", "Remove"):
			removes = append(removes, call)
		}
		if fn := staticCalleeObj(call.Call); fn != nil && fn.Name() == "Load" && fn.Pkg() != nil && fn.Pkg().Path() == pk.PkgPath {
			loads = append(loads, call)
		}
	}
	// calls that remove the temp file: os.Remove itself, or a helper of the package that calls it
	removeLike := append([]ssaCall{}, removes...)
	for _, call := range callsIn(closeFn) {
		if h := call.Call.StaticCallee(); h != nil && h.Pkg == closeFn.Pkg && h != closeFn && len(h.Blocks) > 0 {
			for _, hc := range callsIn(h) {
				if isCall(hc.Call, "os", "", "Remove") {
					removeLike = append(removeLike, call)
					break
				}
			}
		}
	}
	isFileClose := func(cc *ssa.CallCommon) bool { return isCall(cc, "os", "File", "Close") }
	isErrLoad := func(cc *ssa.CallCommon) bool {
		fn := staticCalleeObj(cc)
		return fn != nil && fn.Name() == "Load" && fn.Pkg() != nil && fn.Pkg().Path() == pk.PkgPath
	}
	for _, rn := range renames {
		inst := ssaFuncName(closeFn) + "/os.Rename"
		// (a) preceded by file.Close
		dom := dominatedByCallUp(p, rn.Instr, isFileClose, 2)
		_ = fcloses
		c.Ob(rule, inst+"/after-close", rn.Pos(), dom, true, "os.Rename is dominated by (*os.File).Close: %v", dom)
		// (b) reachable only on the nil edge of a value depending on both Close and writeErr.Load
		guardOK := false
		desc := "no guarding nil-test found"
		for _, ge := range guardingEdges(rn.Instr.Block()) {
			x, trueIsNonNil, ok := nilCompare(ge.If.Cond)
			if !ok {
				continue
			}
			if ge.Branch == trueIsNonNil {
				continue // rename on the non-nil edge: not a guard
			}
			dc := dependsOnCallUp(p, x, isFileClose, 2)
			dl := dependsOnCallUp(p, x, isErrLoad, 2)
			if dc && dl {
				guardOK = true
			}
			desc = fmt.Sprintf("guard value depends on file.Close=%v, on the remembered write error=%v", dc, dl)
			if guardOK {
				break
			}
		}
		c.Ob(rule, inst+"/guard", rn.Pos(), guardOK, true, "rename lies on the nil edge of a test whose operand joins the Close error and the first Write error: %s", desc)
		// (c) rename failure removes the temp file: on the non-nil edge of rename's result every return is dominated by os.Remove
		okRm := false
		for _, blk := range closeFn.Blocks {
			i := ifOf(blk)
			if i == nil {
				continue
			}
			x, trueIsNonNil, ok := nilCompare(i.Cond)
			if !ok || rn.Value == nil || !dependsOnValue(x, rn.Value) {
				continue
			}
			for _, rm := range removeLike {
				if edgeDominates(blk, trueIsNonNil, rm.Instr.Block()) {
					okRm = true
				}
			}
		}
		c.Ob(rule, inst+"/remove-on-rename-failure", rn.Pos(), okRm, true, "a failed rename removes the temp file: %v", okRm)
	}
	if len(renames) == 0 {
		c.Fail(rule, "rename", closeFn.Pos(), "no os.Rename call")
	}
	// (d) on the failing edge (non-nil guard) the temp file is removed before returning
	okFailRm := false
	for _, blk := range closeFn.Blocks {
		i := ifOf(blk)
		if i == nil {
			continue
		}
		x, trueIsNonNil, ok := nilCompare(i.Cond)
		if !ok || !dependsOnCallUp(p, x, isFileClose, 2) || !dependsOnCallUp(p, x, isErrLoad, 2) {
			continue
		}
		for _, rm := range removeLike {
			if edgeDominates(blk, trueIsNonNil, rm.Instr.Block()) {
				// and that block returns
				okFailRm = true
			}
		}
	}
	c.Ob(rule, ssaFuncName(closeFn)+"/remove-on-failure", closeFn.Pos(), okFailRm, true, "when Close or a Write failed the temp file is removed instead of renamed: %v", okFailRm)
	// what is removed is the temporary file: every os.Remove of the close function takes the temp file's own name
	// ((*os.File).Name()) - removing the final path instead destroys the previous object and leaves the half-written
	// temp file behind as a new one; and the rename goes from that name to something else
	isFileName := func(cc *ssa.CallCommon) bool { return isCall(cc, "os", "File", "Name") }
	for i, rm := range removes {
		okArg := len(rm.Call.Args) == 1 && dependsOnCallUp(p, rm.Call.Args[0], isFileName, 2)
		c.Ob(rule, fmt.Sprintf("%s/remove-target#%d", ssaFuncName(closeFn), i+1), rm.Pos(), okArg, true, "os.Remove is given the temporary file's name: %v", okArg)
	}
	for i, rn := range renames {
		okArg := len(rn.Call.Args) == 2 && dependsOnCallUp(p, rn.Call.Args[0], isFileName, 2) && !dependsOnCall(rn.Call.Args[1], isFileName)
		c.Ob(rule, fmt.Sprintf("%s/rename-direction#%d", ssaFuncName(closeFn), i+1), rn.Pos(), okArg, true, "os.Rename goes from the temporary file's name to the final path: %v", okArg)
	}
	// every return of Close on the atomic failing edges is non-nil: return value depends on the guard value
	// --- Write: failing write is remembered
	okStore := false
	for _, call := range callsIn(writeFn) {
		fn := staticCalleeObj(call.Call)
		if fn == nil || fn.Name() != "Store" || fn.Pkg() == nil || fn.Pkg().Path() != pk.PkgPath {
			continue
		}
		// argument depends on the error of file.Write, and the call lies on its non-nil edge
		var werr ssa.Value
		for _, a := range call.Call.Args {
			if isErrorType(a.Type()) {
				werr = a
			}
		}
		if werr == nil || !dependsOnCall(werr, func(cc *ssa.CallCommon) bool { return isCall(cc, "os", "File", "Write") }) {
			continue
		}
		for _, ge := range guardingEdges(call.Instr.Block()) {
			x, trueIsNonNil, ok := nilCompare(ge.If.Cond)
			if ok && ge.Branch == trueIsNonNil && stripConv(x) == stripConv(werr) {
				okStore = true
			}
		}
		// unconditional Store of the error is fine too (onceError ignores nil? no: CompareAndSwap(nil, nil)) – require the guard
	}
	c.Ob(rule, ssaFuncName(writeFn)+"/remember-write-error", writeFn.Pos(), okStore, true, "a failing (*os.File).Write stores its error into the once-error consulted by Close: %v", okStore)
	// the Write method returns the write error
	okWret := false
	for _, r := range returnsOf(writeFn) {
		if len(r.Results) == 2 && dependsOnCall(r.Results[1], func(cc *ssa.CallCommon) bool { return isCall(cc, "os", "File", "Write") }) {
			okWret = true
		}
	}
	c.Ob(rule, ssaFuncName(writeFn)+"/returns-write-error", writeFn.Pos(), okWret, true, "Write returns the error of (*os.File).Write: %v", okWret)
	// --- Put: temp file created in Dir(final path); final path recorded only in the atomic branch. The creation may sit
	// in a helper of the Put method: provenance is followed through the helper's parameters to the caller's arguments
	// and through its results to what it returns.
	isDirCall := func(cc *ssa.CallCommon) bool { return isCall(cc, "path/filepath", "", "Dir") }
	// the value whose directory the temp file is created in: operand of filepath.Dir on the way to the dir argument
	var dirOperand func(v ssa.Value, depth int) ssa.Value
	dirOperand = func(v ssa.Value, depth int) ssa.Value {
		var found ssa.Value
		sliceBack(v, func(x ssa.Value) bool {
			if dc, ok := x.(*ssa.Call); ok && isDirCall(&dc.Call) && found == nil {
				found = dc.Call.Args[0]
			}
			return found == nil
		})
		if found != nil || depth == 0 {
			return found
		}
		if prm, ok := stripConv(v).(*ssa.Parameter); ok {
			fn := prm.Parent()
			callers := p.callersIndex()[fn]
			for i, q := range fn.Params {
				if q == prm && len(callers) == 1 && i < len(callers[0].Call.Args) {
					return dirOperand(callers[0].Call.Args[i], depth-1)
				}
			}
		}
		return nil
	}
	// possible values of a string: itself, φ edges, or - for a result of a package helper - what the helper returns,
	// with the helper's parameters mapped back to the call's arguments
	var stopAt ssa.Value // the value looked for: not expanded further
	var valuesOf func(v ssa.Value, depth int) []ssa.Value
	valuesOf = func(v ssa.Value, depth int) []ssa.Value {
		switch x := v.(type) {
		case *ssa.Phi:
			var out []ssa.Value
			for _, e := range x.Edges {
				out = append(out, valuesOf(e, depth)...)
			}
			return out
		case *ssa.Extract:
			call, ok := x.Tuple.(*ssa.Call)
			if !ok || depth == 0 || v == stopAt {
				return []ssa.Value{v}
			}
			callee := call.Call.StaticCallee()
			if callee == nil || callee.Blocks == nil || callee.Pkg == nil || callee.Pkg.Pkg.Path() != pk.PkgPath {
				return []ssa.Value{v}
			}
			var out []ssa.Value
			for _, r := range returnsOf(callee) {
				for _, rv := range valuesOf(r.Results[x.Index], depth-1) {
					if prm, ok := rv.(*ssa.Parameter); ok {
						for i, q := range callee.Params {
							if q == prm && i < len(call.Call.Args) {
								rv = call.Call.Args[i]
							}
						}
					}
					out = append(out, rv)
				}
			}
			return out
		}
		return []ssa.Value{v}
	}
	// the method that owns the put: the one that constructs the writer (a package function given an *os.File)
	putRoot := putFn
	if cs := p.callersIndex()[putFn]; len(cs) == 1 && (putFn.Object() == nil || !putFn.Object().Exported()) && putFn.Signature.Recv() == nil {
		putRoot = cs[0].Instr.Parent()
	}
	for _, call := range callsIn(putFn) {
		if !isCall(call.Call, "os", "", "CreateTemp") {
			continue
		}
		dirOf := dirOperand(call.Call.Args[0], 2)
		okFinal := false
		desc := "CreateTemp directory is not filepath.Dir(<final path>)"
		if dirOf != nil {
			// the values the rename-target argument of the writer's constructor takes: at one call site (a φ of the final
			// path and "") or over the call sites of the same constructor (one per branch)
			type ctorArg struct {
				sc  *ssa.Function
				idx int
			}
			union := map[ctorArg][]ssa.Value{}
			var order []ctorArg
			for _, k := range callsIn(putRoot) {
				sc := k.Call.StaticCallee()
				if sc == nil || sc.Pkg == nil || sc.Pkg.Pkg.Path() != pk.PkgPath || len(k.Call.Args) != 2 || sc == putFn {
					continue
				}
				for i, a := range k.Call.Args {
					if b, ok := a.Type().Underlying().(*types.Basic); !ok || b.Kind() != types.String {
						continue
					}
					stopAt = dirOf
					key := ctorArg{sc, i}
					if _, seen := union[key]; !seen {
						order = append(order, key)
					}
					union[key] = append(union[key], valuesOf(a, 2)...)
				}
			}
			for _, key := range order {
				{
					vals := union[key]
					if len(vals) < 2 {
						continue
					}
					hasFinal, onlyEmpty := false, true
					for _, e := range vals {
						if e == dirOf {
							hasFinal = true
						} else if cst, ok := e.(*ssa.Const); !ok || cst.Value == nil || cst.Value.ExactString() != `""` {
							onlyEmpty = false
						}
					}
					if hasFinal && onlyEmpty {
						okFinal = true
						desc = "temp file is created in filepath.Dir(p) and p is the recorded rename target; the non-atomic branch records \"\""
					}
				}
			}
		}
		c.Ob(rule, ssaFuncName(putFn)+"/temp-in-final-dir", call.Pos(), okFinal, true, "%s", desc)
		// atomic branch is selected by PutOptions.Atomic()
		okSel := false
		for _, ge := range guardingEdges(call.Instr.Block()) {
			cv, pos := condPolarity(ge.If.Cond)
			if ge.Branch == pos && dependsOnCallUp(p, cv, func(cc *ssa.CallCommon) bool {
				fn := staticCalleeObj(cc)
				return fn != nil && fn.Name() == "Atomic"
			}, 2) {
				okSel = true
			}
		}
		c.Ob(rule, ssaFuncName(putFn)+"/atomic-option-selects-temp", call.Pos(), okSel, true, "os.CreateTemp lies on the true edge of PutOptions.Atomic(): %v", okSel)
	}
}

// ---- (7) CopyWithAtomic reaches PutWithAtomic ------------------------------------------------------

func c15AtomicOption(c *Ctx) {
	p := c.P
	const rule = "ATOMIC-OPTION"
	c.Rule(rule, "the atomic copy option is honoured end to end: copyOptions.atomic is set only by CopyWithAtomic and is the only origin of the condition guarding PutWithAtomic", 3)
	fr := p.Func("private/pkg/storage", "copyReadObject")
	if fr == nil {
		c.Fail(rule, "anchor", token.NoPos, "storage.copyReadObject not found")
		return
	}
	sf := p.SSAFunc(fr.Obj)
	var putAtomic *ssaCall
	// the option may be built by a helper of the package that copyReadObject calls
	for _, f := range reachSSA(sf, 2) {
		if f.Pkg == nil || f.Pkg != sf.Pkg {
			continue
		}
		for _, call := range callsIn(f) {
			if fn := staticCalleeObj(call.Call); fn != nil && calleeIs(fn, "private/pkg/storage", "PutWithAtomic") {
				k := call
				putAtomic = &k
			}
		}
	}
	if putAtomic == nil {
		c.Fail(rule, "PutWithAtomic", fr.Decl.Pos(), "neither copyReadObject nor a helper of the package it calls ever calls PutWithAtomic")
		return
	}
	// guard
	var origins []string
	guardOK := false
	for _, ge := range guardingEdges(putAtomic.Instr.Block()) {
		if !ge.Branch {
			continue
		}
		origins = p.Origins(ge.If.Cond, 8)
		guardOK = true
	}
	allField := guardOK && len(origins) > 0
	for _, o := range origins {
		if o != "field:private/pkg/storage.copyOptions.atomic" {
			allField = false
		}
	}
	c.Ob(rule, "guard-origin", putAtomic.Pos(), allField, true, "PutWithAtomic is guarded by a value whose interprocedural origins are %v (want only copyOptions.atomic)", origins)
	// the option slice reaches Put
	okPut := false
	for _, call := range callsIn(sf) {
		if call.Call.IsInvoke() && call.Call.Method.Name() == "Put" && len(call.Call.Args) >= 3 {
			if putAtomic.Value != nil && dependsOnValueDeep(call.Call.Args[2], putAtomic.Value) {
				okPut = true
			}
		}
	}
	c.Ob(rule, "option-reaches-put", putAtomic.Pos(), okPut, true, "the options passed to WriteBucket.Put contain PutWithAtomic(): %v", okPut)
	// writers of the field
	pk := p.Pkg("private/pkg/storage")
	var fld *types.Var
	if obj := pk.Types.Scope().Lookup("copyOptions"); obj != nil {
		if st, ok := obj.Type().Underlying().(*types.Struct); ok {
			for i := 0; i < st.NumFields(); i++ {
				if st.Field(i).Name() == "atomic" {
					fld = st.Field(i)
				}
			}
		}
	}
	if fld == nil {
		c.Fail(rule, "field", token.NoPos, "copyOptions.atomic not found")
		return
	}
	if n := rulePutForwarding(c, rule); n < 2 {
		c.Fail(rule, "forwarding-count", token.NoPos, "only %d delegating Put methods found", n)
	}
	writers := fieldWriters(p, pk, fld)
	okW := len(writers) == 1 && strings.Contains(writers[0], "CopyWithAtomic")
	c.Ob(rule, "field-writers", fld.Pos(), okW, false, "copyOptions.atomic is written by %v (want exactly CopyWithAtomic)", writers)
}

// fieldWriters lists the functions (declName) that assign to the field.
func fieldWriters(p *Prog, pk *packages.Package, fld *types.Var) []string {
	set := map[string]bool{}
	for _, f := range pk.Syntax {
		ast.Inspect(f, func(n ast.Node) bool {
			switch x := n.(type) {
			case *ast.AssignStmt:
				for _, l := range x.Lhs {
					if sel, ok := ast.Unparen(l).(*ast.SelectorExpr); ok && pk.TypesInfo.Uses[sel.Sel] == fld {
						if fd := p.EnclosingFuncDecl(x); fd != nil {
							set[declName(fd)] = true
						}
					}
				}
			case *ast.KeyValueExpr:
				if id, ok := x.Key.(*ast.Ident); ok && pk.TypesInfo.Uses[id] == fld {
					if fd := p.EnclosingFuncDecl(x); fd != nil {
						set[declName(fd)] = true
					}
				}
			}
			return true
		})
	}
	return sortedKeys(set)
}

// ---- (8) generated files flushed only on success ----------------------------------------------------

func c15GenFlush(c *Ctx) {
	p := c.P
	const rule = "GEN-FLUSH"
	c.Rule(rule, "bufgen flushes the staged plugin output (ResponseWriter.Close) only when every AddResponse and the plugin execution succeeded", 3)
	pk := p.Pkg("private/buf/bufgen")
	if pk == nil {
		c.Fail(rule, "anchor", token.NoPos, "package bufgen not found")
		return
	}
	info := pk.TypesInfo
	found := false
	for _, fr := range p.FuncsOf(pk) {
		var closes, adds []*ast.CallExpr
		inspectNoFuncLit(fr.Decl.Body, func(n ast.Node) bool {
			call, ok := n.(*ast.CallExpr)
			if !ok {
				return true
			}
			if recvCallOn(info, call, "private/bufpkg/bufprotoplugin/bufprotopluginos", "ResponseWriter", "Close") {
				closes = append(closes, call)
			}
			if recvCallOn(info, call, "private/bufpkg/bufprotoplugin/bufprotopluginos", "ResponseWriter", "AddResponse") {
				adds = append(adds, call)
			}
			return true
		})
		if len(closes) == 0 {
			continue
		}
		found = true
		g := p.CFGOf(fr.Decl.Body, info)
		c.Ob(rule, fr.ID()+"/has-AddResponse", fr.Decl.Pos(), len(adds) > 0, false, "%d AddResponse call(s) before the flush", len(adds))
		for _, cl := range closes {
			// not deferred
			deferred := false
			for cur := p.Parent(cl); cur != nil && cur != fr.Decl; cur = p.Parent(cur) {
				if _, ok := cur.(*ast.DeferStmt); ok {
					deferred = true
				}
			}
			c.Ob(rule, fr.ID()+"/flush-not-deferred", cl.Pos(), !deferred, true, "ResponseWriter.Close is not deferred (a deferred flush would also run on failure)")
			for _, ad := range adds {
				// the error edge of AddResponse must not reach the flush
				ifs, _ := p.Parent(p.Parent(ad)).(*ast.IfStmt) // if err := AddResponse(); err != nil
				var errEdgeStart ast.Node
				if ifs != nil && nonNilErrTested(info, ifs.Cond) != nil && len(ifs.Body.List) > 0 {
					errEdgeStart = ifs.Body.List[0]
				}
				if errEdgeStart == nil {
					c.Ob(rule, fr.ID()+"/add-error-blocks-flush", ad.Pos(), false, true, "AddResponse's error is not tested in an `if err := …; err != nil` form: undecided")
					continue
				}
				reach := g.Reachable(errEdgeStart, cl) || containsNode(errEdgeStart, cl)
				c.Ob(rule, fr.ID()+"/add-error-blocks-flush", ad.Pos(), !reach, true, "the flush is unreachable from the failing edge of AddResponse: %v", !reach)
			}
			// every error-returning call before the flush whose error is tested: its failing edge does not reach the flush
		}
	}
	if !found {
		c.Fail(rule, "flush", token.NoPos, "no function in bufgen calls ResponseWriter.Close")
	}
}

func containsNode(outer, inner ast.Node) bool {
	return outer.Pos() <= inner.Pos() && inner.End() <= outer.End()
}

// ruleClose records one obligation per acquired writer in scope.
func ruleClose(c *Ctx, rule string, pkgs []*packages.Package, scope func(string) (bool, string)) {
	p := c.P
	for _, pk := range pkgs {
		rel := relPkg(pk.PkgPath)
		inScope, why := scope(rel)
		for _, a := range findAcquisitions(p, pk) {
			fn := "?"
			if fd := p.EnclosingFuncDecl(a.Assign); fd != nil {
				fn = rel + "." + declName(fd)
			}
			inst := fn + "/" + funcIDFull(a.Callee)
			ok, how := closeStatus(p, a)
			if !inScope {
				c.Note("%s out of scope (%s): %s at %s: %s", rule, why, inst, p.Pos(a.Assign.Pos()), how)
				continue
			}
			c.CallSites++
			c.Ob(rule, inst, a.Assign.Pos(), ok, true, "%s := %s: %s", a.Var.Name(), funcIDFull(a.Callee), how)
		}
	}
}

// rulePutForwarding: every wrapper's Put forwards its options to the bucket it delegates to.
func rulePutForwarding(c *Ctx, rule string) int {
	p := c.P
	wb := storageIface(p, "WriteBucket")
	nFwd := 0
	for _, q := range p.ModulePkgs() {
		if strings.HasSuffix(q.PkgPath, "testing") {
			continue
		}
		for _, name := range q.Types.Scope().Names() {
			tn, ok := q.Types.Scope().Lookup(name).(*types.TypeName)
			if !ok {
				continue
			}
			nt, ok := tn.Type().(*types.Named)
			if !ok || wb == nil || !(types.Implements(nt, wb) || types.Implements(types.NewPointer(nt), wb)) {
				continue
			}
			for i := 0; i < nt.NumMethods(); i++ {
				m := nt.Method(i)
				if m.Name() != "Put" {
					continue
				}
				msf := p.SSAFunc(m)
				if msf == nil || len(msf.Blocks) == 0 || len(msf.Params) < 4 {
					continue
				}
				opts := msf.Params[len(msf.Params)-1]
				for _, call := range callsIn(msf) {
					if !call.Call.IsInvoke() || call.Call.Method.Name() != "Put" || len(call.Call.Args) < 3 {
						continue
					}
					nFwd++
					okF := dependsOnValue(call.Call.Args[2], opts)
					c.Ob(rule, funcID(m)+"/forwards-options", call.Pos(), okF, true, "the delegate's Put receives this method's own put options (PutWithAtomic survives the wrapper): %v", okF)
				}
			}
		}
	}
	return nFwd
}

// c15ParallelizeSSA decides the PARALLELIZE conditions without assuming where the error list lives:
//   - adders: functions of package thread that append to a []error location between Mutex.Lock and Mutex.Unlock;
//   - every goroutine started by Parallelize passes the non-nil error of the job it runs to an adder, and calls
//     WaitGroup.Done on every path (deferred or last);
//   - every read of the error list - in Parallelize or in a package function it calls - happens after WaitGroup.Wait;
//   - the value Parallelize returns derives from such a read.
func c15ParallelizeSSA(c *Ctx, rule string, fr *FuncRef) {
	p := c.P
	sf := p.SSAFunc(fr.Obj)
	if sf == nil {
		c.Fail(rule, "errs", fr.Decl.Pos(), "Parallelize has no SSA body")
		return
	}
	pkT := sf.Pkg
	isErrSlice := func(t types.Type) bool {
		sl, ok := t.Underlying().(*types.Slice)
		return ok && isErrorType(sl.Elem())
	}
	isMutex := func(cc *ssa.CallCommon, name string) bool {
		fn := staticCalleeObj(cc)
		return fn != nil && (methodIs(fn, "sync", "Mutex", name) || methodIs(fn, "sync", "RWMutex", name))
	}
	isWG := func(cc *ssa.CallCommon, name string) bool {
		fn := staticCalleeObj(cc)
		return fn != nil && methodIs(fn, "sync", "WaitGroup", name)
	}
	// all functions of the package, with closures
	var all []*ssa.Function
	for _, m := range p.SSAFuncsOf([]*packages.Package{p.Pkg("private/pkg/thread")}) {
		all = append(all, allSSAFuncs(m)...)
	}
	adders := map[*ssa.Function]bool{}
	readers := map[*ssa.Function]bool{}
	for _, f := range all {
		if f.Pkg != pkT {
			continue
		}
		for _, b := range f.Blocks {
			for _, ins := range b.Instrs {
				switch x := ins.(type) {
				case *ssa.Store:
					pt, ok := x.Addr.Type().Underlying().(*types.Pointer)
					if !ok || !isErrSlice(pt.Elem()) {
						continue
					}
					if !dependsOnCall(x.Val, func(cc *ssa.CallCommon) bool { return isBuiltinCall(cc, "append") }) {
						continue
					}
					locked, unlocked := false, false
					for _, call := range callsIn(f) {
						if isMutex(call.Call, "Lock") && instrDominates(call.Instr, x) {
							locked = true
						}
						if isMutex(call.Call, "Unlock") && instrDominates(x, call.Instr) {
							unlocked = true
						}
					}
					for _, bb := range f.Blocks {
						for _, i2 := range bb.Instrs {
							if d, ok := i2.(*ssa.Defer); ok && isMutex(&d.Call, "Unlock") {
								unlocked = true
							}
						}
					}
					c.Ob(rule, "errs-write-locked", x.Pos(), locked && unlocked, true, "append to the error list in %s is dominated by Mutex.Lock and followed by Unlock: %v", ssaFuncName(f), locked && unlocked)
					adders[f] = true
				case *ssa.UnOp:
					if x.Op == token.MUL && isErrSlice(x.Type()) {
						readers[f] = true
					}
				}
			}
		}
	}
	for f := range adders {
		delete(readers, f)
	}
	c.Ob(rule, "adder-exists", fr.Decl.Pos(), len(adders) > 0, false, "%d function(s) append to the error list under the mutex", len(adders))
	if len(adders) == 0 {
		c.Fail(rule, "errs", fr.Decl.Pos(), "no function of package thread appends to a []error under a mutex")
		return
	}
	callsAdder := func(call ssaCall) (ssa.Value, bool) {
		callee := call.Call.StaticCallee()
		if callee != nil && adders[callee] {
			for _, a := range call.Call.Args {
				if isErrorType(a.Type()) {
					return a, true
				}
			}
		}
		// a closure variable bound to an adder
		if callee == nil && !call.Call.IsInvoke() {
			hit := false
			sliceBack(call.Call.Value, func(x ssa.Value) bool {
				if mc, ok := x.(*ssa.MakeClosure); ok && adders[mc.Fn.(*ssa.Function)] {
					hit = true
				}
				return !hit
			})
			if hit {
				for _, a := range call.Call.Args {
					if isErrorType(a.Type()) {
						return a, true
					}
				}
			}
		}
		return nil, false
	}
	// goroutines
	nGo := 0
	for _, f := range allSSAFuncs(sf) {
		for _, b := range f.Blocks {
			for _, ins := range b.Instrs {
				gs, ok := ins.(*ssa.Go)
				if !ok {
					continue
				}
				nGo++
				var body *ssa.Function
				switch v := gs.Call.Value.(type) {
				case *ssa.MakeClosure:
					body = v.Fn.(*ssa.Function)
				case *ssa.Function:
					body = v
				}
				if body == nil {
					c.Ob(rule, "go-literal", gs.Pos(), false, false, "go statement does not run a literal or a function: cannot decide error collection")
					continue
				}
				recorded := false
				for _, g := range allSSAFuncs(body) {
					for _, call := range callsIn(g) {
						arg, ok := callsAdder(call)
						if !ok {
							continue
						}
						// the argument is the error of a job call, on its non-nil edge
						fromJob := false
						if jc, ok := stripConv(arg).(*ssa.Call); ok && jc.Call.StaticCallee() == nil && !jc.Call.IsInvoke() {
							fromJob = true
						}
						if fromJob && !onNilEdgeOf(call.Instr.Block(), stripConv(arg)) {
							for _, ge := range guardingEdges(call.Instr.Block()) {
								if x, trueIsNonNil, ok := nilCompare(ge.If.Cond); ok && stripConv(x) == stripConv(arg) && ge.Branch == trueIsNonNil {
									recorded = true
								}
							}
						}
					}
				}
				c.Ob(rule, "job-error-recorded", gs.Pos(), recorded, true, "goroutine body records the job's non-nil error through the locked adder: %v", recorded)
				done := false
				for _, bb := range body.Blocks {
					for _, i2 := range bb.Instrs {
						if d, ok := i2.(*ssa.Defer); ok && isWG(&d.Call, "Done") {
							done = true
						}
					}
				}
				if !done {
					okAll := true
					nret := 0
					for _, r := range returnsOf(body) {
						nret++
						dom := false
						for _, call := range callsIn(body) {
							if isWG(call.Call, "Done") && instrDominates(call.Instr, r) {
								dom = true
							}
						}
						if !dom {
							okAll = false
						}
					}
					done = okAll && nret > 0
				}
				c.Ob(rule, "wg-done-all-paths", gs.Pos(), done, true, "WaitGroup.Done runs on every path of the job goroutine")
			}
		}
	}
	c.Ob(rule, "go-sites", fr.Decl.Pos(), nGo >= 1, false, "%d go statements", nGo)
	// reads after Wait
	reads := 0
	for _, b := range sf.Blocks {
		for _, ins := range b.Instrs {
			isRead := false
			if u, ok := ins.(*ssa.UnOp); ok && u.Op == token.MUL && isErrSlice(u.Type()) {
				isRead = true
			}
			if call, ok := ins.(*ssa.Call); ok {
				if callee := call.Call.StaticCallee(); callee != nil && readers[callee] {
					isRead = true
				}
			}
			if !isRead {
				continue
			}
			reads++
			dom := false
			for _, call := range callsIn(sf) {
				if isWG(call.Call, "Wait") && instrDominates(call.Instr, ins) {
					dom = true
				}
			}
			c.Ob(rule, "wait-before-read", ins.Pos(), dom, true, "read of the error list is dominated by WaitGroup.Wait: %v", dom)
		}
	}
	if reads == 0 {
		c.Fail(rule, "wait-before-read", fr.Decl.Pos(), "the error list is never read after the jobs ran")
	}
	// the result derives from a read
	okRes := false
	for _, r := range returnsOf(sf) {
		if len(r.Results) == 1 && (dependsOnCall(r.Results[0], func(cc *ssa.CallCommon) bool {
			callee := cc.StaticCallee()
			return callee != nil && readers[callee]
		}) || func() bool {
			hit := false
			sliceBack(r.Results[0], func(x ssa.Value) bool {
				if u, ok := x.(*ssa.UnOp); ok && u.Op == token.MUL && isErrSlice(u.Type()) {
					hit = true
				}
				return !hit
			})
			return hit
		}()) {
			okRes = true
		}
	}
	c.Ob(rule, "result-from-errs", fr.Decl.Pos(), okRes, true, "a return of Parallelize derives its value from the error list: %v", okRes)
	// and inside a reader, nil is returned only when the list is empty
	for f := range readers {
		for _, r := range returnsOf(f) {
			if len(r.Results) != 1 || !isErrorType(r.Results[0].Type()) || !isNilConst(r.Results[0]) {
				continue
			}
			guardedByLen := false
			for _, ge := range guardingEdges(r.Block()) {
				if dependsOnCall(ge.If.Cond, func(cc *ssa.CallCommon) bool { return isBuiltinCall(cc, "len") }) {
					guardedByLen = true
				}
			}
			c.Ob(rule, "switch-len/"+f.Name()+"/nil", r.Pos(), guardedByLen, true, "a nil result of %s is guarded by a test of the list's length: %v", f.Name(), guardedByLen)
		}
	}
}
