package main

import (
	"fmt"
	"go/ast"
	"go/printer"
	"go/token"
	"go/types"
	"sort"
	"strings"
)

// explore unusedparams: named parameters of plain functions (not methods: those may implement an interface) that the
// body never reads. A contradiction-style cross-reference (Engler et al.): a parameter the author named but never
// consulted is a stated belief that it matters, against a body that says it does not.
func init() {
	exploreExtra["unusedparams"] = func(p *Prog) {
		var lines []string
		for _, pk := range p.ModulePkgs() {
			for _, fr := range p.FuncsOf(pk) {
				if fr.Decl.Body == nil || fr.Decl.Type.Params == nil {
					continue
				}
				if strings.HasSuffix(p.Fset.Position(fr.Decl.Pos()).Filename, "_test.go") || strings.Contains(p.Fset.Position(fr.Decl.Pos()).Filename, ".pb.") {
					continue
				}
				used := map[types.Object]bool{}
				ast.Inspect(fr.Decl.Body, func(n ast.Node) bool {
					if id, ok := n.(*ast.Ident); ok {
						if o := pk.TypesInfo.Uses[id]; o != nil {
							used[o] = true
						}
					}
					return true
				})
				for _, f := range fr.Decl.Type.Params.List {
					for _, nm := range f.Names {
						if nm.Name == "_" {
							continue
						}
						o := pk.TypesInfo.Defs[nm]
						if o == nil || used[o] {
							continue
						}
						kind := "func"
						if fr.Decl.Recv != nil {
							kind = "method"
						}
						lines = append(lines, fmt.Sprintf("%s\t%s\t%s.%s\t%s %s", p.Pos(nm.Pos()), kind, relPkg(pk.PkgPath), declName(fr.Decl), nm.Name, types.ExprString(f.Type)))
					}
				}
			}
		}
		sort.Strings(lines)
		for _, l := range lines {
			fmt.Println(l)
		}
	}
}

// explore dupes: contradiction-style cross-references on the syntax: (1) two adjacent statements with identical text
// that contain a call (copy-paste where one operand should have changed), (2) binary expressions with identical
// operands, (3) if/else with identical branches, (4) switch/if-else chains testing the same condition twice.
func init() {
	exploreExtra["dupes"] = func(p *Prog) {
		var lines []string
		add := func(pos token.Pos, kind, text string) {
			lines = append(lines, fmt.Sprintf("%s\t%s\t%s", p.Pos(pos), kind, short(text, 160)))
		}
		for _, pk := range p.ModulePkgs() {
			for _, f := range pk.Syntax {
				fn := p.Fset.Position(f.Pos()).Filename
				if strings.HasSuffix(fn, "_test.go") || strings.Contains(fn, ".pb.") || strings.Contains(fn, "/gen/") {
					continue
				}
				ast.Inspect(f, func(n ast.Node) bool {
					switch x := n.(type) {
					case *ast.BlockStmt:
						for i := 0; i+1 < len(x.List); i++ {
							a, b := printNode(p, x.List[i]), printNode(p, x.List[i+1])
							if a == b && strings.Contains(a, "(") && len(a) > 30 {
								if _, isExpr := x.List[i].(*ast.ExprStmt); isExpr {
									continue // repeated effect calls (Write, append-free) are common and fine
								}
								add(x.List[i+1].Pos(), "adjacent-duplicate", a)
							}
						}
					case *ast.BinaryExpr:
						switch x.Op {
						case token.EQL, token.NEQ, token.LAND, token.LOR, token.LSS, token.GTR, token.LEQ, token.GEQ, token.SUB:
							if a := printNode(p, x.X); a == printNode(p, x.Y) && !strings.Contains(a, "(") {
								add(x.Pos(), "identical-operands", printNode(p, x))
							}
						}
					case *ast.IfStmt:
						if el, ok := x.Else.(*ast.BlockStmt); ok && printNode(p, x.Body) == printNode(p, el) {
							add(x.Pos(), "identical-branches", printNode(p, x.Cond))
						}
						// else-if chain with a repeated condition
						seen := map[string]bool{printNode(p, x.Cond): true}
						for cur := x.Else; cur != nil; {
							ei, ok := cur.(*ast.IfStmt)
							if !ok {
								break
							}
							c := printNode(p, ei.Cond)
							if seen[c] {
								add(ei.Pos(), "repeated-condition", c)
							}
							seen[c] = true
							cur = ei.Else
						}
					case *ast.SwitchStmt:
						seen := map[string]bool{}
						for _, cs := range x.Body.List {
							for _, e := range cs.(*ast.CaseClause).List {
								c := printNode(p, e)
								if seen[c] {
									add(e.Pos(), "repeated-case", c)
								}
								seen[c] = true
							}
						}
					}
					return true
				})
			}
		}
		sort.Strings(lines)
		for _, l := range lines {
			fmt.Println(l)
		}
	}
}

func printNode(p *Prog, n ast.Node) string {
	var b strings.Builder
	_ = printer.Fprint(&b, p.Fset, n)
	return b.String()
}

// explore deadflags: fields of a command's flags struct whose address is bound to a flag but that are never read.
func init() {
	exploreExtra["deadflags"] = func(p *Prog) {
		var lines []string
		for _, pk := range p.ModulePkgs() {
			if !strings.Contains(pk.PkgPath, "/cmd/") {
				continue
			}
			bound := map[types.Object]token.Pos{}
			reads := map[types.Object]int{}
			for _, f := range pk.Syntax {
				ast.Inspect(f, func(n ast.Node) bool {
					if ue, ok := n.(*ast.UnaryExpr); ok && ue.Op == token.AND {
						if sel, ok := ast.Unparen(ue.X).(*ast.SelectorExpr); ok {
							if v, ok := pk.TypesInfo.Uses[sel.Sel].(*types.Var); ok && v.IsField() {
								bound[v] = sel.Pos()
							}
						}
					}
					return true
				})
			}
			for _, f := range pk.Syntax {
				var stack []ast.Node
				ast.Inspect(f, func(n ast.Node) bool {
					if n == nil {
						stack = stack[:len(stack)-1]
						return true
					}
					stack = append(stack, n)
					sel, ok := n.(*ast.SelectorExpr)
					if !ok {
						return true
					}
					v, ok := pk.TypesInfo.Uses[sel.Sel].(*types.Var)
					if !ok || !v.IsField() {
						return true
					}
					if len(stack) >= 2 {
						if ue, ok := stack[len(stack)-2].(*ast.UnaryExpr); ok && ue.Op == token.AND {
							return true
						}
					}
					reads[v]++
					return true
				})
			}
			for v, pos := range bound {
				if reads[v] == 0 {
					lines = append(lines, fmt.Sprintf("%s\t%s.%s", p.Pos(pos), relPkg(pk.PkgPath), v.Name()))
				}
			}
		}
		sort.Strings(lines)
		for _, l := range lines {
			fmt.Println(l)
		}
	}
}

// explore staleerr: `return nil, err` where err is known to be nil on that path (it lies on the nil edge of a dominating
// test of the same value): the function returns neither a value nor an error.
func init() {
	exploreExtra["staleerr"] = func(p *Prog) {
		var lines []string
		for _, sf := range p.SSAFuncsOf(p.ModulePkgs()) {
			for _, f := range allSSAFuncs(sf) {
				for _, s := range staleErrReturns(f) {
					lines = append(lines, fmt.Sprintf("%s\t%s", p.Pos(s.Pos()), ssaFuncName(f)))
				}
			}
		}
		sort.Strings(lines)
		for _, l := range lines {
			fmt.Println(l)
		}
	}
}

func init() {
	// wide: run generic rules over every package of the module and print what fails (triage only)
	exploreExtra["wide4"] = func(p *Prog) {
		c := NewCtx(p, "X", "quick")
		c.quiet = true
		ruleTransferComplete(c, "TRANSFER-COMPLETE", p.ModulePkgs(), 0)
		ruleEqualityHelper(c, "EQUALITY-HELPER", p.ModulePkgs())
		n := map[string]int{}
		for _, o := range c.Obls {
			n[o.Rule]++
			if !o.OK || o.Rule == "TRANSFER-COMPLETE" {
				fmt.Printf("%s\t%s\t%s\t%v\t%s\n", o.Pos, o.Rule, o.Instance, o.OK, short(o.Msg, 260))
			}
		}
		fmt.Println(n)
	}
}

func init() {
	exploreExtra["argmax"] = func(p *Prog) {
		c := NewCtx(p, "X", "quick")
		c.quiet = true
		ruleArgmax(c, "ARGMAX", p.ModulePkgs(), 0)
		for _, o := range c.Obls {
			fmt.Printf("%s\t%s\t%v\t%s\n", o.Pos, o.Instance, o.OK, short(o.Msg, 200))
		}
	}
}

func init() {
	exploreExtra["flagloop"] = func(p *Prog) {
		c := NewCtx(p, "X", "quick")
		c.quiet = true
		ruleFlagLoop(c, "R-FLAGLOOP", p.ModulePkgs())
		for _, o := range c.Obls {
			fmt.Printf("%s\t%s\t%v\t%s\n", o.Pos, o.Instance, o.OK, short(o.Msg, 200))
		}
	}
}

func init() {
	exploreExtra["loopaccum"] = func(p *Prog) {
		c := NewCtx(p, "X", "quick")
		c.quiet = true
		ruleLoopAccum(c, "LOOP-ACCUM", p.ModulePkgs())
		for _, o := range c.Obls {
			fmt.Printf("%s\t%s\t%v\t%s\n", o.Pos, o.Instance, o.OK, short(o.Msg, 200))
		}
	}
}

func init() {
	// errors whose only use is a comparison with nil: what happens on the non-nil edge?
	exploreExtra["errtestonly"] = func(p *Prog) {
		for _, sf := range p.SSAFuncsOf(p.ModulePkgs()) {
			for _, f := range allSSAFuncs(sf) {
				for _, s := range errTestedOnly(f) {
					fmt.Printf("%s\t%s\t%s\n", p.Pos(s.Pos()), ssaFuncName(f), s.String())
				}
			}
		}
	}
}

func init() {
	exploreExtra["sortedinv"] = func(p *Prog) {
		c := NewCtx(p, "X", "quick")
		c.quiet = true
		ruleSortedInvariant(c, "SORTED-INVARIANT", p.ModulePkgs(), 0)
		for _, o := range c.Obls {
			fmt.Printf("%s\t%s\t%v\t%s\n", o.Pos, o.Instance, o.OK, short(o.Msg, 200))
		}
	}
}

func init() {
	exploreExtra["writeswallow"] = func(p *Prog) {
		c := NewCtx(p, "X", "quick")
		c.quiet = true
		ruleWriteSwallow(c, "R-WRITE-SWALLOW", p.ModulePkgs(), 0)
		n := 0
		for _, o := range c.Obls {
			n++
			if !o.OK {
				fmt.Printf("%s\t%s\t%v\t%s\n", o.Pos, o.Instance, o.OK, short(o.Msg, 200))
			}
		}
		fmt.Println(n, "instances")
	}
}

func init() {
	exploreExtra["errseen"] = func(p *Prog) {
		c := NewCtx(p, "X", "quick")
		c.quiet = true
		ruleErrAllPaths(c, "R-ERRSEEN", p.ModulePkgs())
		for _, o := range c.Obls {
			fmt.Printf("%s\t%s\t%v\t%s\n", o.Pos, o.Instance, o.OK, short(o.Msg, 120))
		}
	}
}

func init() {
	exploreExtra["sharedappend"] = func(p *Prog) {
		c := NewCtx(p, "X", "quick")
		c.quiet = true
		ruleSharedAppend(c, "SHARED-APPEND", p.ModulePkgs())
		for _, o := range c.Obls {
			fmt.Printf("%s\t%s\t%v\n", o.Pos, o.Instance, o.OK)
		}
	}
}

func init() {
	exploreExtra["wide5"] = func(p *Prog) {
		c := NewCtx(p, "X", "quick")
		c.quiet = true
		ruleOnceResultLost(c, "ONCE", p.ModulePkgs())
		for _, pk := range p.ModulePkgs() {
			func() {
				defer func() { recover() }()
				c12NilMeansDeleted(c, pk)
			}()
			func() {
				defer func() { recover() }()
				ruleSameCanonicaliser(c, "SAME-CANONICAL", pk, 0)
			}()
			func() {
				defer func() { recover() }()
				c14WrappersStateless(c, pk)
			}()
		}
		ruleDelegateErr(c, "DELEGATE-ERR", p.ModulePkgs())
		n := map[string]int{}
		for _, o := range c.Obls {
			n[o.Rule]++
			if !o.OK && o.Instance != "anchor" {
				fmt.Printf("%s\t%s\t%s\t%s\n", o.Pos, o.Rule, o.Instance, short(o.Msg, 220))
			}
		}
		fmt.Println(n)
	}
}

func init() {
	exploreExtra["rangekey"] = func(p *Prog) {
		c := NewCtx(p, "X", "quick")
		c.quiet = true
		ruleRangeKey(c, "RANGE-KEY", p.ModulePkgs())
		for _, o := range c.Obls {
			fmt.Printf("%s\t%s\t%v\t%s\n", o.Pos, o.Instance, o.OK, short(o.Msg, 160))
		}
	}
}

func init() {
	exploreExtra["withflag"] = func(p *Prog) {
		c := NewCtx(p, "X", "quick")
		c.quiet = true
		ruleWithFlagNoop(c, "WITH-FLAG-NOOP", p.ModulePkgs(), 0)
		for _, o := range c.Obls {
			fmt.Printf("%s\t%s\t%v\t%s\n", o.Pos, o.Instance, o.OK, short(o.Msg, 160))
		}
	}
}

func init() {
	exploreExtra["mapappend"] = func(p *Prog) {
		c := NewCtx(p, "X", "quick")
		c.quiet = true
		ruleMapAppendKey(c, "MAP-APPEND-KEY", p.ModulePkgs())
		for _, o := range c.Obls {
			fmt.Printf("%s\t%s\t%v\t%s\n", o.Pos, o.Instance, o.OK, short(o.Msg, 160))
		}
	}
	exploreExtra["round5g"] = func(p *Prog) {
		c := NewCtx(p, "X", "quick")
		c.quiet = true
		ruleTrimCutset(c, "TRIM-CUTSET", p.ModulePkgs())
		ruleLastElementSkipped(c, "LAST-ELEMENT-SKIPPED", p.ModulePkgs())
		ruleFirstDecides(c, "FIRST-DECIDES", p.ModulePkgs())
		ruleFormatData(c, "FORMAT-DATA", p.ModulePkgs())
		ruleNilBreak(c, "NIL-ELEMENT-BREAK", p.ModulePkgs())
		ruleWalkCut(c, "WALK-CUT", p.ModulePkgs(), 0)
		ruleMapAliasMutated(c, "MAP-ALIAS-MUTATED", p.ModulePkgs())
		ruleIndexedReturn(c, "INDEXED-RETURN-SORTED", p.ModulePkgs())
		ruleMemoDropsResult(c, "MEMO-DROPS-RESULT", p.ModulePkgs())
		ruleInPlaceFilter(c, "INPLACE-FILTER-PARAM", p.ModulePkgs())
		ruleDerivedKeyStores(c, "DERIVED-KEY-STORE", p.ModulePkgs())
		ruleAnticipatory(c, "", p.ModulePkgs())
		ruleTwinParam(c, "TWIN-PARAM-UNUSED", p.ModulePkgs())
		ruleCtorParam(c, "CTOR-KEEPS-PARAM", p.ModulePkgs())
		ruleComparatorBoth(c, "COMPARATOR-BOTH", p.ModulePkgs())
		ruleErrPathUnseen(c, "ERR-PATH-UNSEEN", p.ModulePkgs())
		ruleMarkBeforeStateTest(c, "MARK-BEFORE-STATE-TEST", p.ModulePkgs())
		for _, o := range c.Obls {
			fmt.Printf("%s\t%s\t%s\t%v\t%s\n", o.Pos, o.Rule, o.Instance, o.OK, short(o.Msg, 160))
		}
	}
}
