package main

import (
	"fmt"
	"go/ast"
	"go/types"
	"sort"
	"strings"
)

// explore unusedparams: named parameters of plain functions (not methods: those may implement an interface) that the
// body never reads. A contradiction-style cross-reference (Engler et al.): a parameter the author named but never
// consulted is a stated belief that it matters, against a body that says it does not.
func init() {
	exploreExtra["unusedparams"] = func(p *Prog) {
		var lines []string
		for _, pk := range p.ModulePkgs() {
			for _, fr := range p.FuncsOf(pk) {
				if fr.Decl.Body == nil || fr.Decl.Type.Params == nil {
					continue
				}
				if strings.HasSuffix(p.Fset.Position(fr.Decl.Pos()).Filename, "_test.go") || strings.Contains(p.Fset.Position(fr.Decl.Pos()).Filename, ".pb.") {
					continue
				}
				used := map[types.Object]bool{}
				ast.Inspect(fr.Decl.Body, func(n ast.Node) bool {
					if id, ok := n.(*ast.Ident); ok {
						if o := pk.TypesInfo.Uses[id]; o != nil {
							used[o] = true
						}
					}
					return true
				})
				for _, f := range fr.Decl.Type.Params.List {
					for _, nm := range f.Names {
						if nm.Name == "_" {
							continue
						}
						o := pk.TypesInfo.Defs[nm]
						if o == nil || used[o] {
							continue
						}
						kind := "func"
						if fr.Decl.Recv != nil {
							kind = "method"
						}
						lines = append(lines, fmt.Sprintf("%s\t%s\t%s.%s\t%s %s", p.Pos(nm.Pos()), kind, relPkg(pk.PkgPath), declName(fr.Decl), nm.Name, types.ExprString(f.Type)))
					}
				}
			}
		}
		sort.Strings(lines)
		for _, l := range lines {
			fmt.Println(l)
		}
	}
}
