package main

import (
	"go/constant"
	"go/token"
	"go/types"

	"golang.org/x/tools/go/packages"
	"golang.org/x/tools/go/ssa"
)

// firstElementDecides lists loop-carried booleans that start as one constant, are set to the other constant on every
// path round the loop, and are read after a `break` that leaves them as they are: the loop is written as a question
// about all elements of a ranged-over list or map ("is there any element that is not X"), but as soon as the first iteration completes the flag is
// set for good, and if the first iteration breaks nothing later is looked at - the first element alone decides.
//
//	has := false
//	for _, d := range decls { if isEmpty(d) { break }; has = true }   // `continue` was meant
func firstElementDecides(f *ssa.Function) []*ssa.Phi {
	var out []*ssa.Phi
	for _, h := range f.Blocks {
		// only loops over the elements of a list or map: a `for {}` or counting loop that shortens a string or advances
		// through a buffer changes what the next iteration sees, and "has the first round completed" is then a fair
		// thing to remember (buflsp's path-suffix search, diffmyers' hunk printer)
		if h.Comment != "rangeindex.loop" && h.Comment != "rangeiter.loop" {
			continue
		}
		loop := loopBlocks(h)
		if loop == nil {
			continue
		}
		for _, ins := range h.Instrs {
			ph, ok := ins.(*ssa.Phi)
			if !ok {
				break
			}
			bt, ok := ph.Type().Underlying().(*types.Basic)
			if !ok || bt.Info()&types.IsBoolean == 0 {
				continue
			}
			var k0, k1 *bool
			shape := true
			for i, e := range ph.Edges {
				cst, ok := e.(*ssa.Const)
				if !ok || cst.Value == nil || cst.Value.Kind() != constant.Bool {
					shape = false
					break
				}
				v := constant.BoolVal(cst.Value)
				if loop[h.Preds[i]] {
					if k1 != nil && *k1 != v {
						shape = false
						break
					}
					k1 = &v
				} else {
					if k0 != nil && *k0 != v {
						shape = false
						break
					}
					k0 = &v
				}
			}
			if !shape || k0 == nil || k1 == nil || *k0 == *k1 {
				continue
			}
			// a break: an edge from a block of the loop other than the header to a block outside it, from which a
			// non-phi use of the flag is reachable
			var uses []*ssa.BasicBlock
			for _, r := range *ph.Referrers() {
				switch r.(type) {
				case *ssa.Phi, *ssa.DebugRef:
					continue
				}
				if rb := r.Block(); rb != nil && !loop[rb] {
					uses = append(uses, rb)
				}
			}
			if len(uses) == 0 {
				continue
			}
			hit := false
			for b := range loop {
				if b == h {
					continue
				}
				for _, s := range b.Succs {
					if loop[s] {
						continue
					}
					for _, u := range uses {
						if blockReaches(s, u) {
							hit = true
						}
					}
				}
			}
			if hit {
				out = append(out, ph)
			}
		}
	}
	return out
}

// ruleFirstDecides (FIRST-DECIDES): zero instances are expected.
func ruleFirstDecides(c *Ctx, rule string, pkgs []*packages.Package) {
	c.Rule(rule, "a yes/no question about all elements of a list is not answered by its first element", 0)
	p := c.P
	n, fns, loops := 0, 0, 0
	for _, sf := range p.SSAFuncsOf(pkgs) {
		for _, f := range allSSAFuncs(sf) {
			fns++
			for _, h := range f.Blocks {
				if (h.Comment == "rangeindex.loop" || h.Comment == "rangeiter.loop") && loopBlocks(h) != nil {
					loops++
				}
			}
			for _, ph := range firstElementDecides(f) {
				n++
				name := ph.Comment
				if name == "" {
					name = ph.Name()
				}
				pos := ph.Pos()
				if pos == token.NoPos {
					pos = f.Pos()
				}
				c.Ob(rule, ssaFuncName(f)+"/"+name, pos, false, true, "the flag %s is set to the same constant on every path round the loop and read after a break that leaves it alone: once the first iteration completes it never changes, and if the first iteration breaks no later element is looked at", name)
			}
		}
	}
	c.Ob(rule, "functions-scanned", token.NoPos, n == 0, fns > 0, "%d functions, %d range loops scanned, %d flags decided by the first element", fns, loops, n)
}
