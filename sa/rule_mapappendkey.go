package main

import (
	"go/token"

	"golang.org/x/tools/go/packages"
	"golang.org/x/tools/go/ssa"
)

// mapAppendOtherKey lists `m[k1] = append(m[k2], …)` with k1 and k2 different values: the list kept under k1 is
// replaced by whatever is kept under k2 plus the new element. With k2 a key that has no list, every store overwrites
// the previous one and only the last element per key survives (one import statement per package edge instead of all).
func mapAppendOtherKey(f *ssa.Function) []ssa.Instruction {
	var out []ssa.Instruction
	for _, b := range f.Blocks {
		for _, ins := range b.Instrs {
			mu, ok := ins.(*ssa.MapUpdate)
			if !ok {
				continue
			}
			ap, ok := stripConv(mu.Value).(*ssa.Call)
			if !ok || !isBuiltinCall(&ap.Call, "append") || len(ap.Call.Args) == 0 {
				continue
			}
			lk, ok := stripConv(ap.Call.Args[0]).(*ssa.Lookup)
			if !ok {
				// v, ok := m[k] form: Extract of a comma-ok lookup
				if ex, isEx := stripConv(ap.Call.Args[0]).(*ssa.Extract); isEx {
					lk, ok = ex.Tuple.(*ssa.Lookup)
				}
				if !ok {
					continue
				}
			}
			if !sameSSAExpr(lk.X, mu.Map, 3) {
				continue
			}
			if !sameSSAExpr(lk.Index, mu.Key, 4) {
				out = append(out, ins)
			}
		}
	}
	return out
}

// ruleMapAppendKey (MAP-APPEND-KEY): zero instances are expected.
func ruleMapAppendKey(c *Ctx, rule string, pkgs []*packages.Package) {
	c.Rule(rule, "a list kept in a map is extended under the key it was read from", 0)
	p := c.P
	n, fns, sites := 0, 0, 0
	for _, sf := range p.SSAFuncsOf(pkgs) {
		for _, f := range allSSAFuncs(sf) {
			fns++
			for _, b := range f.Blocks {
				for _, ins := range b.Instrs {
					if mu, ok := ins.(*ssa.MapUpdate); ok {
						if ap, ok := stripConv(mu.Value).(*ssa.Call); ok && isBuiltinCall(&ap.Call, "append") {
							sites++
						}
					}
				}
			}
			for _, ins := range mapAppendOtherKey(f) {
				n++
				c.Ob(rule, ssaFuncName(f)+"/append-under-other-key", ins.Pos(), false, true, "m[k1] = append(m[k2], …) with k1 ≠ k2: the list under k1 is replaced by the list under k2 plus the new element")
			}
		}
	}
	c.Ob(rule, "functions-scanned", token.NoPos, n == 0, fns > 0, "%d functions scanned, %d map-append stores, %d reading another key than they write", fns, sites, n)
}
