package main

import (
	"fmt"
	"go/ast"
	"go/types"

	"golang.org/x/tools/go/packages"
)

// ruleTransferComplete (TRANSFER-COMPLETE; after round-4 seed C06-k): a composite literal of struct type D most of
// whose elements are `f: src.f` for one source value src of a *different* struct type S transfers a configuration from
// one representation to the next (optionsConfigSpec → optionsConfig). Every field name that S and D share must then be
// named in the literal (or assigned on the literal's holder afterwards): a shared field left out is silently zero in D
// although the caller set it in S - `--exclude-imports` is accepted and has no effect. A literal counts as a transfer
// when at least three elements and at least half of them have that shape.
func ruleTransferComplete(c *Ctx, rule string, pkgs []*packages.Package, min int) {
	c.Rule(rule, "a literal that transfers same-named fields from another struct names every field the two structs share", min)
	p := c.P
	structOf := func(t types.Type) (*types.Struct, types.Type) {
		if t == nil {
			return nil, nil
		}
		if pt, ok := t.(*types.Pointer); ok {
			t = pt.Elem()
		}
		st, _ := t.Underlying().(*types.Struct)
		return st, t
	}
	for _, pk := range pkgs {
		info := pk.TypesInfo
		for _, fr := range p.FuncsOf(pk) {
			if fr.Decl.Body == nil {
				continue
			}
			k := 0
			ast.Inspect(fr.Decl.Body, func(n ast.Node) bool {
				lit, ok := n.(*ast.CompositeLit)
				if !ok || len(lit.Elts) < 3 {
					return true
				}
				dst, dt := structOf(info.TypeOf(lit))
				if dst == nil {
					return true
				}
				named := map[string]bool{}
				bySrc := map[types.Object]int{}
				for _, el := range lit.Elts {
					kv, ok := el.(*ast.KeyValueExpr)
					if !ok {
						return true
					}
					key, ok := kv.Key.(*ast.Ident)
					if !ok {
						return true
					}
					named[key.Name] = true
					if sel, ok := ast.Unparen(kv.Value).(*ast.SelectorExpr); ok && sel.Sel.Name == key.Name {
						if o := identObj(info, sel.X); o != nil {
							if _, isField := info.Uses[sel.Sel].(*types.Var); isField {
								bySrc[o]++
							}
						}
					}
				}
				for src, copies := range bySrc {
					sst, stype := structOf(src.Type())
					if sst == nil || types.Identical(stype, dt) || copies < 3 || copies*2 < len(lit.Elts) {
						continue
					}
					k++
					if holder := litHolder(p, info, lit); holder != nil {
						ast.Inspect(fr.Decl.Body, func(m ast.Node) bool {
							if as, ok := m.(*ast.AssignStmt); ok {
								for _, l := range as.Lhs {
									if sel, ok := ast.Unparen(l).(*ast.SelectorExpr); ok && identObj(info, sel.X) == holder {
										named[sel.Sel.Name] = true
									}
								}
							}
							return true
						})
					}
					var missing []string
					shared := 0
					for i := 0; i < sst.NumFields(); i++ {
						f := sst.Field(i)
						for j := 0; j < dst.NumFields(); j++ {
							if dst.Field(j).Name() == f.Name() {
								shared++
								if !named[f.Name()] {
									missing = append(missing, f.Name())
								}
							}
						}
					}
					c.Ob(rule, fmt.Sprintf("%s.%s#%d", relPkg(pk.PkgPath), declName(fr.Decl), k), lit.Pos(), len(missing) == 0, true,
						"%s{…} is filled from %s (%s): %d of the %d field names the two structs share are named; left to their zero value: %v", namedName(dt), src.Name(), namedName(stype), shared-len(missing), shared, missing)
				}
				return true
			})
		}
	}
}
