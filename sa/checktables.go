package main

// P7 — extraction of the lint/breaking rule registry (rule spec builders, per-version spec tables,
// handler bindings) from composite literals of the bufcheckserver packages.

import (
	"go/ast"
	"go/constant"
	"go/token"
	"go/types"
	"strings"
)

const (
	pkgCheckServer = "private/bufpkg/bufcheck/bufcheckserver"
	pkgCheckBuild  = "private/bufpkg/bufcheck/bufcheckserver/internal/bufcheckserverbuild"
	pkgCheckHandle = "private/bufpkg/bufcheck/bufcheckserver/internal/bufcheckserverhandle"
	pkgCheckUtil   = "private/bufpkg/bufcheck/bufcheckserver/internal/bufcheckserverutil"
)

type ruleBuilder struct {
	Var          string // builder variable name
	Obj          types.Object
	ID           string
	Type         string // "breaking" | "lint"
	Deprecated   bool
	Replacements []string
	HandlerVar   string       // exported variable in bufcheckserverhandle
	HandlerObj   types.Object // that variable
	Pos          token.Pos
}

type specRow struct {
	Builder    *ruleBuilder
	BuilderVar string
	Default    bool
	Categories []string
	Pos        token.Pos
}

type specTable struct {
	Name       string
	Rows       []specRow
	Categories []string // category spec variable names
	Pos        token.Pos
}

type handlerBinding struct {
	Var     string       // HandleBreakingX
	Obj     types.Object // the variable
	Adapter string       // NewBreakingFilePairRuleHandler, NewRuleHandler, …
	Func    *types.Func  // the bound function when it is a named function
	Lit     *ast.FuncLit // or a literal
	Pos     token.Pos
}

type checkTables struct {
	Builders map[string]*ruleBuilder // by variable name
	ByID     map[string][]*ruleBuilder
	Specs    map[string]*specTable
	Handlers map[string]*handlerBinding // by variable name
	Errors   []string
}

func stringLit(info *types.Info, e ast.Expr) (string, bool) {
	tv, ok := info.Types[e]
	if !ok || tv.Value == nil {
		return "", false
	}
	if tv.Value.Kind() != constant.String {
		return "", false
	}
	return constant.StringVal(tv.Value), true
}

func stringList(info *types.Info, e ast.Expr) ([]string, bool) {
	cl, ok := ast.Unparen(e).(*ast.CompositeLit)
	if !ok {
		return nil, false
	}
	var out []string
	for _, el := range cl.Elts {
		s, ok := stringLit(info, el)
		if !ok {
			return nil, false
		}
		out = append(out, s)
	}
	return out, true
}

func extractCheckTables(p *Prog) *checkTables {
	t := &checkTables{Builders: map[string]*ruleBuilder{}, ByID: map[string][]*ruleBuilder{}, Specs: map[string]*specTable{}, Handlers: map[string]*handlerBinding{}}
	pkB, pkS, pkH := p.Pkg(pkgCheckBuild), p.Pkg(pkgCheckServer), p.Pkg(pkgCheckHandle)
	if pkB == nil || pkS == nil || pkH == nil {
		t.Errors = append(t.Errors, "bufcheckserver packages not found")
		return t
	}
	// handler bindings
	for _, f := range pkH.Syntax {
		for _, d := range f.Decls {
			gd, ok := d.(*ast.GenDecl)
			if !ok || gd.Tok != token.VAR {
				continue
			}
			for _, sp := range gd.Specs {
				vs := sp.(*ast.ValueSpec)
				for i, nm := range vs.Names {
					if i >= len(vs.Values) || !strings.HasPrefix(nm.Name, "Handle") {
						continue
					}
					call, ok := vs.Values[i].(*ast.CallExpr)
					if !ok {
						continue
					}
					fn := Callee(pkH.TypesInfo, call)
					if fn == nil || fn.Pkg() == nil || !strings.HasSuffix(fn.Pkg().Path(), "bufcheckserverutil") {
						continue
					}
					hb := &handlerBinding{Var: nm.Name, Obj: pkH.TypesInfo.Defs[nm], Adapter: fn.Name(), Pos: nm.Pos()}
					if len(call.Args) == 1 {
						switch a := ast.Unparen(call.Args[0]).(type) {
						case *ast.Ident:
							hb.Func, _ = pkH.TypesInfo.Uses[a].(*types.Func)
						case *ast.FuncLit:
							hb.Lit = a
						}
					}
					t.Handlers[nm.Name] = hb
				}
			}
		}
	}
	// builders
	for _, f := range pkB.Syntax {
		for _, d := range f.Decls {
			gd, ok := d.(*ast.GenDecl)
			if !ok || gd.Tok != token.VAR {
				continue
			}
			for _, sp := range gd.Specs {
				vs := sp.(*ast.ValueSpec)
				for i, nm := range vs.Names {
					if i >= len(vs.Values) {
						continue
					}
					ue, ok := vs.Values[i].(*ast.UnaryExpr)
					if !ok {
						continue
					}
					cl, ok := ue.X.(*ast.CompositeLit)
					if !ok || namedName(pkB.TypesInfo.TypeOf(cl)) != "RuleSpecBuilder" {
						continue
					}
					b := &ruleBuilder{Var: nm.Name, Obj: pkB.TypesInfo.Defs[nm], Pos: nm.Pos()}
					for _, el := range cl.Elts {
						kv, ok := el.(*ast.KeyValueExpr)
						if !ok {
							continue
						}
						key := kv.Key.(*ast.Ident).Name
						switch key {
						case "ID":
							b.ID, _ = stringLit(pkB.TypesInfo, kv.Value)
						case "Type":
							if sel, ok := kv.Value.(*ast.SelectorExpr); ok {
								switch sel.Sel.Name {
								case "RuleTypeBreaking":
									b.Type = "breaking"
								case "RuleTypeLint":
									b.Type = "lint"
								}
							}
						case "Deprecated":
							if tv, ok := pkB.TypesInfo.Types[kv.Value]; ok && tv.Value != nil {
								b.Deprecated = tv.Value.ExactString() == "true"
							}
						case "ReplacementIDs":
							b.Replacements, _ = stringList(pkB.TypesInfo, kv.Value)
						case "Handler":
							if sel, ok := kv.Value.(*ast.SelectorExpr); ok {
								b.HandlerVar = sel.Sel.Name
								b.HandlerObj = pkB.TypesInfo.Uses[sel.Sel]
							}
						}
					}
					t.Builders[b.Var] = b
					t.ByID[b.ID] = append(t.ByID[b.ID], b)
				}
			}
		}
	}
	// specs
	for _, f := range pkS.Syntax {
		for _, d := range f.Decls {
			gd, ok := d.(*ast.GenDecl)
			if !ok || gd.Tok != token.VAR {
				continue
			}
			for _, sp := range gd.Specs {
				vs := sp.(*ast.ValueSpec)
				for i, nm := range vs.Names {
					if i >= len(vs.Values) {
						continue
					}
					ue, ok := vs.Values[i].(*ast.UnaryExpr)
					if !ok {
						continue
					}
					cl, ok := ue.X.(*ast.CompositeLit)
					if !ok || namedPath(pkS.TypesInfo.TypeOf(cl)) != "buf.build/go/bufplugin/check.Spec" {
						continue
					}
					st := &specTable{Name: nm.Name, Pos: nm.Pos()}
					for _, el := range cl.Elts {
						kv, ok := el.(*ast.KeyValueExpr)
						if !ok {
							continue
						}
						list, ok := kv.Value.(*ast.CompositeLit)
						if !ok {
							continue
						}
						switch kv.Key.(*ast.Ident).Name {
						case "Rules":
							for _, re := range list.Elts {
								call, ok := re.(*ast.CallExpr)
								if !ok || len(call.Args) != 2 {
									t.Errors = append(t.Errors, p.Pos(re.Pos())+": rule entry is not a Build(bool, []string{…}) call")
									continue
								}
								sel, ok := call.Fun.(*ast.SelectorExpr)
								if !ok || sel.Sel.Name != "Build" {
									t.Errors = append(t.Errors, p.Pos(re.Pos())+": rule entry is not a Build call")
									continue
								}
								bsel, ok := sel.X.(*ast.SelectorExpr)
								if !ok {
									t.Errors = append(t.Errors, p.Pos(re.Pos())+": builder is not a package-qualified variable")
									continue
								}
								row := specRow{BuilderVar: bsel.Sel.Name, Builder: t.Builders[bsel.Sel.Name], Pos: re.Pos()}
								if tv, ok := pkS.TypesInfo.Types[call.Args[0]]; ok && tv.Value != nil {
									row.Default = tv.Value.ExactString() == "true"
								}
								cats, ok := stringList(pkS.TypesInfo, call.Args[1])
								if !ok {
									t.Errors = append(t.Errors, p.Pos(re.Pos())+": categories are not a literal string list")
								}
								row.Categories = cats
								st.Rows = append(st.Rows, row)
							}
						case "Categories":
							for _, ce := range list.Elts {
								if s, ok := ce.(*ast.SelectorExpr); ok {
									st.Categories = append(st.Categories, s.Sel.Name)
								}
							}
						}
					}
					t.Specs[nm.Name] = st
				}
			}
		}
	}
	return t
}

// camelToUpperSnake converts EnumNoDelete → ENUM_NO_DELETE, RPCNoDelete → RPC_NO_DELETE, JSType → JS_TYPE …
func camelToUpperSnake(s string) string {
	var out []rune
	rs := []rune(s)
	for i, r := range rs {
		if i > 0 && isUpper(r) {
			prev := rs[i-1]
			nextLower := i+1 < len(rs) && isLower(rs[i+1])
			if isLower(prev) || isDigit(prev) || (isUpper(prev) && nextLower) {
				out = append(out, '_')
			}
		}
		out = append(out, toUpper(r))
	}
	return string(out)
}

func isUpper(r rune) bool { return r >= 'A' && r <= 'Z' }
func isLower(r rune) bool { return r >= 'a' && r <= 'z' }
func isDigit(r rune) bool { return r >= '0' && r <= '9' }
func toUpper(r rune) rune {
	if isLower(r) {
		return r - 'a' + 'A'
	}
	return r
}

// normID strips underscores so that UTF8 / Utf8 / UTF_8 style differences do not matter.
func normID(s string) string {
	return strings.ToUpper(strings.ReplaceAll(s, "_", ""))
}
