package main

import (
	"go/token"
	"go/types"

	"golang.org/x/tools/go/ssa"
)

// annFilterLoop describes the hand-written form of the annotation filter: a loop over the annotations parameter that
// appends the element to the result on some condition (instead of slicesext.FilterError with a predicate).
type annFilterLoop struct {
	Fn      *ssa.Function
	Appends []*ssa.Call // appends into the returned slice
	// OnlyInput: every appended value is an element of the annotations parameter
	OnlyInput bool
}

// findAnnFilterLoop recognises the loop form in sf: the first result of every success return is built only by appends,
// and what is appended is an element of a slice parameter of the same type.
func findAnnFilterLoop(sf *ssa.Function) *annFilterLoop {
	if sf == nil || len(sf.Blocks) == 0 || sf.Signature.Results().Len() == 0 {
		return nil
	}
	resT := sf.Signature.Results().At(0).Type()
	var param *ssa.Parameter
	for _, par := range sf.Params {
		if types.Identical(par.Type(), resT) {
			param = par
		}
	}
	if param == nil {
		return nil
	}
	out := &annFilterLoop{Fn: sf, OnlyInput: true}
	seen := map[*ssa.Call]bool{}
	for _, r := range returnsOf(sf) {
		if len(r.Results) == 0 || isNilConst(stripConv(r.Results[0])) {
			continue
		}
		sliceBack(r.Results[0], func(x ssa.Value) bool {
			if call, ok := x.(*ssa.Call); ok && isBuiltinCall(&call.Call, "append") && types.Identical(call.Type(), resT) && !seen[call] {
				seen[call] = true
				out.Appends = append(out.Appends, call)
			}
			return true
		})
	}
	if len(out.Appends) == 0 {
		return nil
	}
	isElemOfParam := func(v ssa.Value) bool {
		v = stripConv(v)
		// range element: load of IndexAddr(param, i) or Index
		if u, ok := v.(*ssa.UnOp); ok && u.Op == token.MUL {
			if ia, ok := u.X.(*ssa.IndexAddr); ok {
				return stripConv(ia.X) == ssa.Value(param)
			}
		}
		return false
	}
	for _, ap := range out.Appends {
		if len(ap.Call.Args) != 2 {
			out.OnlyInput = false
			continue
		}
		elems := variadicElems(ap.Call.Args[1])
		if len(elems) == 0 {
			out.OnlyInput = false
		}
		for _, e := range elems {
			if !isElemOfParam(e) {
				out.OnlyInput = false
			}
		}
	}
	return out
}

// keepsNotIgnored: every append lies on an edge where a value derived from the ignore decision (a call satisfying
// isIgnore) is false.
func (l *annFilterLoop) keepsNotIgnored(isIgnore func(*ssa.CallCommon) bool) bool {
	for _, ap := range l.Appends {
		ok := false
		for _, ge := range guardingEdges(ap.Block()) {
			cv, pos := condPolarity(ge.If.Cond)
			holds := ge.Branch == pos
			if !holds && isBoolType(cv.Type()) && dependsOnCall(cv, isIgnore) {
				ok = true
			}
		}
		if !ok {
			return false
		}
	}
	return true
}

// stateful lists what makes the keep decision depend on earlier iterations: a condition guarding an append that reads
// a map the function also writes, or a loop-carried value other than the loop's own index and the result slice.
func (l *annFilterLoop) stateful() []string {
	var out []string
	written := map[ssa.Value]bool{}
	for _, b := range l.Fn.Blocks {
		for _, ins := range b.Instrs {
			if mu, ok := ins.(*ssa.MapUpdate); ok {
				written[stripConv(mu.Map)] = true
			}
		}
	}
	resT := l.Fn.Signature.Results().At(0).Type()
	for _, ap := range l.Appends {
		for _, ge := range guardingEdges(ap.Block()) {
			sliceBack(ge.If.Cond, func(x ssa.Value) bool {
				switch t := x.(type) {
				case *ssa.Lookup:
					if written[stripConv(t.X)] {
						out = append(out, "reads a map written in the loop")
					}
				case *ssa.Phi:
					// a value carried around the loop: one of its edges comes from a block the phi's block dominates
					if types.Identical(t.Type(), resT) {
						return false
					}
					if bt, ok := t.Type().Underlying().(*types.Basic); ok && bt.Info()&types.IsInteger != 0 {
						return true // the index of the range loop (and len comparisons)
					}
					for i, e := range t.Edges {
						pred := t.Block().Preds[i]
						if t.Block().Dominates(pred) && dependsOnValue(e, t) {
							out = append(out, "depends on a value carried over from earlier iterations ("+t.Name()+")")
						}
					}
				}
				return true
			})
		}
	}
	return uniq(out)
}
