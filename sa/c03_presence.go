package main

import (
	"go/ast"
	"go/token"
	"go/types"
	"strings"
)

// PRESENCE-INDEX (C03, added after finding F15).
//
// A deletion handler of the PACKAGE category builds a two-level index
// package -> name -> element for previous and for current and then does
//
//	for pkg, prevNames := range previousIndex {
//	    if names, ok := currentIndex[pkg]; ok {      // absent => silently skipped
//	        ... report every prevName missing from names ...
//	    }
//	}
//
// The silent skip is right only if "pkg has no key in currentIndex" means "the package is gone" (that case is
// PACKAGE_NO_DELETE's), which holds only if the builder of the index creates the outer key for the package of
// every file, whether or not the file contains an element of that kind. A builder that creates the key only when
// it meets an element makes "the last enum of a surviving package was deleted" indistinguishable from "package
// deleted" and the deletion goes unreported by every rule of the category.
//
// The rule: for every such skip-on-absent site in the handler package whose indexed map comes from a builder in
// bufprotosource, the builder stores into the outer map in the body of its loop over the files, outside any
// callback literal and any inner loop (that is: once per file, not once per element).
func c03PresenceIndex(c *Ctx) {
	const rule = "PRESENCE-INDEX"
	c.Rule(rule, "an index whose missing outer key makes a deletion handler skip silently has a key for every package present, not only for packages that contain such an element", 4)
	p := c.P
	pkH := p.Pkg(pkgCheckHandle)
	if pkH == nil {
		c.Fail(rule, "anchor", token.NoPos, "handler package not found")
		return
	}
	info := pkH.TypesInfo
	for _, fr := range p.FuncsOf(pkH) {
		if fr.Decl.Body == nil {
			continue
		}
		// var -> builder
		built := map[types.Object]*types.Func{}
		ast.Inspect(fr.Decl.Body, func(n ast.Node) bool {
			as, ok := n.(*ast.AssignStmt)
			if !ok || len(as.Rhs) != 1 || len(as.Lhs) < 1 {
				return true
			}
			call, ok := ast.Unparen(as.Rhs[0]).(*ast.CallExpr)
			if !ok {
				return true
			}
			fn := Callee(info, call)
			if fn == nil || fn.Pkg() == nil || !strings.HasSuffix(fn.Pkg().Path(), "/bufprotosource") {
				return true
			}
			if !isTwoLevelStringMap(info.TypeOf(as.Lhs[0])) {
				return true
			}
			if o := identObj(info, as.Lhs[0]); o != nil {
				built[o] = fn
			}
			return true
		})
		if len(built) == 0 {
			continue
		}
		ast.Inspect(fr.Decl.Body, func(n ast.Node) bool {
			ifs, ok := n.(*ast.IfStmt)
			if !ok || ifs.Init == nil || ifs.Else != nil {
				return true
			}
			as, ok := ifs.Init.(*ast.AssignStmt)
			if !ok || len(as.Lhs) != 2 || len(as.Rhs) != 1 {
				return true
			}
			ix, ok := ast.Unparen(as.Rhs[0]).(*ast.IndexExpr)
			if !ok {
				return true
			}
			builder := built[identObj(info, ix.X)]
			if builder == nil {
				return true
			}
			okObj := identObj(info, as.Lhs[1])
			if okObj == nil || identObj(info, ifs.Cond) != okObj {
				return true // not the positive `; ok {` form
			}
			reports := false
			ast.Inspect(ifs.Body, func(m ast.Node) bool {
				if call, ok := m.(*ast.CallExpr); ok && isAnnotationCall(info, call) {
					reports = true
				}
				return true
			})
			if !reports {
				return true
			}
			c.CallSites++
			perFile, why := builderKeysEveryFile(p, builder)
			c.Ob(rule, fr.ID()+"/"+exprString(ix.X)+"<-"+builder.Name(), ifs.Pos(), perFile, true,
				"handler skips silently when %s has no key %s; builder %s: %s", exprString(ix.X), exprString(ix.Index), funcID(builder), why)
			return true
		})
		// the same skip written as a guard: `names, ok := currentIndex[pkg]; if !ok { continue }; … report …`
		ast.Inspect(fr.Decl.Body, func(n ast.Node) bool {
			blk, ok := n.(*ast.BlockStmt)
			if !ok {
				return true
			}
			for i, st := range blk.List {
				as, ok := st.(*ast.AssignStmt)
				if !ok || len(as.Lhs) != 2 || len(as.Rhs) != 1 || i+1 >= len(blk.List) {
					continue
				}
				ix, ok := ast.Unparen(as.Rhs[0]).(*ast.IndexExpr)
				if !ok {
					continue
				}
				builder := built[identObj(info, ix.X)]
				okObj := identObj(info, as.Lhs[1])
				if builder == nil || okObj == nil {
					continue
				}
				g, ok := blk.List[i+1].(*ast.IfStmt)
				if !ok || g.Else != nil || len(g.Body.List) != 1 {
					continue
				}
				ue, ok := ast.Unparen(g.Cond).(*ast.UnaryExpr)
				if !ok || ue.Op != token.NOT || identObj(info, ue.X) != okObj {
					continue
				}
				if br, ok := g.Body.List[0].(*ast.BranchStmt); !ok || br.Tok != token.CONTINUE {
					continue
				}
				reports := false
				for _, rest := range blk.List[i+2:] {
					ast.Inspect(rest, func(m ast.Node) bool {
						if call, ok := m.(*ast.CallExpr); ok && isAnnotationCall(info, call) {
							reports = true
						}
						return true
					})
				}
				if !reports {
					continue
				}
				c.CallSites++
				perFile, why := builderKeysEveryFile(p, builder)
				c.Ob(rule, fr.ID()+"/"+exprString(ix.X)+"<-"+builder.Name(), g.Pos(), perFile, true,
					"handler skips silently when %s has no key %s; builder %s: %s", exprString(ix.X), exprString(ix.Index), funcID(builder), why)
			}
			return true
		})
	}
}

func isTwoLevelStringMap(t types.Type) bool {
	if t == nil {
		return false
	}
	m, ok := t.Underlying().(*types.Map)
	if !ok {
		return false
	}
	if b, ok := m.Key().Underlying().(*types.Basic); !ok || b.Kind() != types.String {
		return false
	}
	_, ok = m.Elem().Underlying().(*types.Map)
	return ok
}

// builderKeysEveryFile reports whether fn (func(files ...File) (map, error)) stores into the map it returns once
// per file: a statement `m[k] = v` in the body of the `range files` loop that is not inside a function literal and
// not inside a nested loop.
func builderKeysEveryFile(p *Prog, fn *types.Func) (bool, string) {
	fr := p.DeclOf(fn)
	if fr == nil || fr.Decl.Body == nil {
		return false, "no source for the builder"
	}
	info := fr.Info()
	sig := fn.Type().(*types.Signature)
	if sig.Params().Len() == 0 {
		return false, "builder has no files parameter"
	}
	filesObj := types.Object(sig.Params().At(sig.Params().Len() - 1))
	// the returned map variable(s)
	ret := map[types.Object]bool{}
	ast.Inspect(fr.Decl.Body, func(n ast.Node) bool {
		if _, ok := n.(*ast.FuncLit); ok {
			return false
		}
		if r, ok := n.(*ast.ReturnStmt); ok && len(r.Results) > 0 {
			if o := identObj(info, r.Results[0]); o != nil {
				ret[o] = true
			}
		}
		return true
	})
	if len(ret) == 0 {
		return false, "returned map variable not identified"
	}
	var loops []*ast.RangeStmt
	for _, st := range fr.Decl.Body.List {
		if rs, ok := st.(*ast.RangeStmt); ok && identObj(info, rs.X) == filesObj {
			loops = append(loops, rs)
		}
	}
	if len(loops) == 0 {
		return false, "no top-level loop over the files parameter"
	}
	for _, rs := range loops {
		found := false
		var walk func(n ast.Node) bool
		walk = func(n ast.Node) bool {
			switch x := n.(type) {
			case *ast.FuncLit, *ast.RangeStmt, *ast.ForStmt:
				if n != ast.Node(rs) {
					return false
				}
			case *ast.AssignStmt:
				for _, lhs := range x.Lhs {
					if ix, ok := ast.Unparen(lhs).(*ast.IndexExpr); ok && ret[identObj(info, ix.X)] {
						found = true
					}
				}
			}
			return true
		}
		ast.Inspect(rs.Body, walk)
		if found {
			return true, "stores the outer key once per file (in the loop over files, outside callbacks and inner loops)"
		}
	}
	return false, "stores the outer key only per element (inside a callback or an inner loop): a package that lost its last element has no key and is indistinguishable from a deleted package"
}
