package main

import (
	"go/token"
	"go/types"
	"strings"

	"golang.org/x/tools/go/packages"
	"golang.org/x/tools/go/ssa"
)

// ctorDropsParam lists constructors - functions that return a struct they build with a composite literal - that
// take a parameter named and typed exactly like a member of that struct and never store anything computed from it
// into that member. `newFieldOptionManagedOverrideRule(path, moduleFullName, fieldName, …)` that builds
// `&managedOverrideRule{moduleFullName: …, fieldName: …}` has lost the path: the rule now applies to every file.
func ctorDropsParam(f *ssa.Function) (checked int, dropped []string) {
	if f.Signature.Recv() != nil || len(f.Blocks) == 0 {
		return 0, nil
	}
	// the structs built: Allocs of a struct type marked "complit" whose address (or value) is returned. A parameter
	// counts as kept when ANY returned literal of that struct type stores it (a constructor may return a shorter
	// literal on a branch where the parameter is known to be the zero value).
	type pair struct {
		st  *types.Struct
		prm *ssa.Parameter
		fld int
	}
	kept := map[pair]bool{}
	var order []pair
	for _, b := range f.Blocks {
		for _, ins := range b.Instrs {
			al, ok := ins.(*ssa.Alloc)
			if !ok || al.Comment != "complit" {
				continue
			}
			st, ok := derefType(al.Type()).Underlying().(*types.Struct)
			if !ok {
				continue
			}
			returned := false
			for _, r := range returnsOf(f) {
				for _, res := range r.Results {
					v := stripConv(res)
					if mi, ok := v.(*ssa.MakeInterface); ok {
						v = stripConv(mi.X)
					}
					if u, ok := v.(*ssa.UnOp); ok && u.Op == token.MUL {
						v = u.X
					}
					if v == ssa.Value(al) {
						returned = true
					}
				}
			}
			if !returned {
				continue
			}
			stores := map[int][]ssa.Value{}
			for _, r := range *al.Referrers() {
				if fa, ok := r.(*ssa.FieldAddr); ok {
					for _, rr := range *fa.Referrers() {
						if s, ok := rr.(*ssa.Store); ok && s.Addr == ssa.Value(fa) {
							stores[fa.Field] = append(stores[fa.Field], s.Val)
						}
					}
				}
			}
			for _, prm := range f.Params {
				for i := 0; i < st.NumFields(); i++ {
					fld := st.Field(i)
					if !strings.EqualFold(fld.Name(), prm.Name()) || !types.Identical(fld.Type(), prm.Type()) || isErrorType(prm.Type()) {
						continue // (an error parameter next to an `Err` member is a rewrap, not a constructor argument)
					}
					key := pair{st, prm, i}
					if _, seen := kept[key]; !seen {
						kept[key] = false
						order = append(order, key)
					}
					for _, v := range stores[i] {
						if dependsOnValue(v, prm) || controlDependsOn(v, prm) {
							kept[key] = true
						}
						// a map or list filled element by element from the parameter (normalised copies)
						if mm, isMap := stripConv(v).(*ssa.MakeMap); isMap && mm.Referrers() != nil {
							for _, r := range *mm.Referrers() {
								if mu, isUpd := r.(*ssa.MapUpdate); isUpd && (dependsOnValue(mu.Key, prm) || dependsOnValue(mu.Value, prm)) {
									kept[key] = true
								}
							}
						}
					}
				}
			}
		}
	}
	for _, key := range order {
		checked++
		if !kept[key] {
			dropped = append(dropped, key.prm.Name())
		}
	}
	return checked, dropped
}

// ruleCtorParam (CTOR-KEEPS-PARAM): zero instances are expected.
func ruleCtorParam(c *Ctx, rule string, pkgs []*packages.Package) {
	c.Rule(rule, "a constructor parameter named and typed like a member of the struct being built ends up in that member", 0)
	p := c.P
	n, fns, checked := 0, 0, 0
	for _, sf := range p.SSAFuncsOf(pkgs) {
		fns++
		k, dropped := ctorDropsParam(sf)
		checked += k
		for _, name := range dropped {
			n++
			c.Ob(rule, ssaFuncName(sf)+"/"+name, sf.Pos(), false, true, "%s takes %s, builds a struct with a member of that name and type, and never stores it there: the value is lost", ssaFuncName(sf), name)
		}
	}
	c.Ob(rule, "functions-scanned", token.NoPos, n == 0, fns > 0, "%d functions scanned, %d parameter/member pairs checked, %d dropped", fns, checked, n)
}

// controlDependsOn: v is a φ one of whose alternatives is chosen by a test of prm (`enabled || other`, `cond ? a : b`
// spelled with if/else): the parameter decides the stored value without being an operand of it.
func controlDependsOn(v ssa.Value, prm *ssa.Parameter) bool {
	ph, ok := stripConv(v).(*ssa.Phi)
	if !ok {
		return false
	}
	for _, pred := range ph.Block().Preds {
		if i := ifOf(pred); i != nil && dependsOnValue(i.Cond, prm) {
			return true
		}
		for _, ge := range guardingEdges(pred) {
			if dependsOnValue(ge.If.Cond, prm) {
				return true
			}
		}
	}
	return false
}
