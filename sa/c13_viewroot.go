package main

import (
	"fmt"
	"go/token"
	"go/types"

	"golang.org/x/tools/go/packages"
	"golang.org/x/tools/go/ssa"
)

// c13ViewRootRefused (VIEW-ROOT-REFUSED; C13, after round-6 seed C13-p): inside a prefix-mapped view the path "."
// (also spelled "", "x/..", "a/b/../..") names the view's own root. Mapped onto the delegate it becomes the ordinary
// object path <prefix>, which the delegate has no reason to refuse: Get reads, Put overwrites and Delete removes an
// object that lies outside the view (on disk, the view's directory itself). Every object path a view hands to
// Mapper.MapPath has therefore passed, on the way, a comparison with "." whose equal edge does not lead to the call.
func c13ViewRootRefused(c *Ctx) {
	const rule = "VIEW-ROOT-REFUSED"
	c.Rule(rule, "a mapped view refuses its own root before mapping an object path onto the delegate", 1)
	p := c.P
	pk := p.Pkg("private/pkg/storage")
	if pk == nil {
		c.Fail(rule, "anchor", token.NoPos, "private/pkg/storage not found")
		return
	}
	n := 0
	for _, sf := range p.SSAFuncsOf([]*packages.Package{pk}) {
		for _, f := range allSSAFuncs(sf) {
			k := 0
			for _, call := range callsIn(f) {
				if !call.Call.IsInvoke() || call.Call.Method.Name() != "MapPath" || len(call.Call.Args) != 1 {
					continue
				}
				// mapper combinators (chain) pass paths on: their receiver is itself a Mapper. The views are methods of
				// bucket types, or package functions those methods share
				if recv := f.Signature.Recv(); recv != nil {
					if ms := types.NewMethodSet(recv.Type()); ms.Lookup(nil, "MapPath") != nil || ms.Lookup(f.Pkg.Pkg, "MapPath") != nil {
						continue
					}
				}
				if namedPath(call.Call.Value.Type()) != modPath+"/private/pkg/storage.Mapper" {
					continue
				}
				arg := stripConv(call.Call.Args[0])
				// a prefix (Walk, DeleteAll) may be the root: the mapped value goes on to a prefix operation of the delegate
				isPrefix := false
				if call.Value != nil {
					for _, other := range callsIn(f) {
						if other.Call.IsInvoke() && (other.Call.Method.Name() == "Walk" || other.Call.Method.Name() == "DeleteAll") {
							for _, a := range other.Call.Args {
								if dependsOnValue(a, call.Value) {
									isPrefix = true
								}
							}
						}
					}
				}
				// the mapping done in a shared package function whose result every caller hands to a prefix operation
				if !isPrefix && call.Value != nil && f.Signature.Recv() == nil {
					returned := false
					for _, r := range returnsOf(f) {
						for _, res := range r.Results {
							if dependsOnValue(res, call.Value) {
								returned = true
							}
						}
					}
					if returned {
						nCallers, nPrefix := 0, 0
						for _, g0 := range p.SSAFuncsOf([]*packages.Package{pk}) {
							for _, g := range allSSAFuncs(g0) {
								for _, gc := range callsIn(g) {
									if gc.Call.StaticCallee() != f || gc.Value == nil {
										continue
									}
									nCallers++
									for _, other := range callsIn(g) {
										if other.Call.IsInvoke() && (other.Call.Method.Name() == "Walk" || other.Call.Method.Name() == "DeleteAll") {
											for _, a := range other.Call.Args {
												if dependsOnValue(a, gc.Value) {
													nPrefix++
													break
												}
											}
										}
									}
								}
							}
						}
						if nCallers > 0 && nPrefix >= nCallers {
							isPrefix = true
						}
					}
				}
				if isPrefix {
					continue
				}
				n++
				k++
				refused := c13KnownNotDot(call.Instr.Block(), arg)
				// the path comes out of a helper of the package that refuses "." before it returns successfully
				if ex, ok := arg.(*ssa.Extract); ok && !refused {
					if hc, ok := ex.Tuple.(*ssa.Call); ok {
						if h := hc.Call.StaticCallee(); h != nil && h.Pkg == f.Pkg && len(h.Blocks) > 0 {
							okAll, nRet := true, 0
							for _, r := range returnsOf(h) {
								if len(r.Results) < 2 || ex.Index >= len(r.Results) {
									continue
								}
								if !isNilConst(stripConv(spilledResult(r, r.Results[len(r.Results)-1]))) {
									continue // an error return
								}
								nRet++
								if !c13KnownNotDot(r.Block(), stripConv(spilledResult(r, r.Results[ex.Index]))) {
									okAll = false
								}
							}
							refused = okAll && nRet > 0
						}
					}
				}
				c.Ob(rule, fmt.Sprintf("%s/MapPath#%d", ssaFuncName(f), k), call.Pos(), refused, true, "the path handed to MapPath is known not to be \".\" (the view's root): %v", refused)
			}
		}
	}
	if n == 0 {
		c.Fail(rule, "anchor", token.NoPos, "no bucket method calling Mapper.MapPath found")
	}
}

// c13KnownNotDot: block b is reached only over an edge on which arg (or a value it derives from) compared unequal to ".".
func c13KnownNotDot(b *ssa.BasicBlock, arg ssa.Value) bool {
	refused := false
	for _, ge := range guardingEdges(b) {
		cv, pos := condPolarity(ge.If.Cond)
		bo, ok := cv.(*ssa.BinOp)
		if !ok || (bo.Op != token.EQL && bo.Op != token.NEQ) {
			continue
		}
		var other ssa.Value
		if isConstString(bo.Y, ".") {
			other = bo.X
		} else if isConstString(bo.X, ".") {
			other = bo.Y
		} else {
			continue
		}
		if stripConv(other) != arg && !dependsOnValue(arg, stripConv(other)) {
			continue
		}
		holds := ge.Branch == pos
		if (bo.Op == token.EQL && !holds) || (bo.Op == token.NEQ && holds) {
			refused = true
		}
	}
	return refused
}
