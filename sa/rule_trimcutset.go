package main

import (
	"go/ast"
	"go/constant"
	"go/token"
	"unicode"

	"golang.org/x/tools/go/packages"
	"golang.org/x/tools/go/types/typeutil"
)

// trimCutsetAffix lists calls of strings/bytes Trim, TrimLeft, TrimRight whose second argument is a constant that can
// only have been meant as a prefix or suffix: the second argument of these functions is a SET of characters, each
// stripped as often as it occurs, so `TrimRight(path, ".proto")` strips every trailing '.', 'p', 'r', 'o', 't'
// ("photo.proto" → "ph", "root.proto" → ""), and `TrimLeft(addr, "https://")` eats the
// leading "t", "s", "h", "p" of the host. A set is read as an affix when it names a rune twice (a set never needs to),
// or when it has three or more runes and mixes letters with other characters (".proto", "http://", "v1.").
// Sets of white space, of punctuation, of digits, or of letters only are sets.
func trimCutsetAffix(pk *packages.Package) (sites int, bad []*ast.CallExpr) {
	info := pk.TypesInfo
	for _, f := range pk.Syntax {
		if isGenerated(f) {
			continue
		}
		ast.Inspect(f, func(n ast.Node) bool {
			call, ok := n.(*ast.CallExpr)
			if !ok || len(call.Args) != 2 {
				return true
			}
			fn := typeutil.StaticCallee(info, call)
			if fn == nil || fn.Pkg() == nil {
				return true
			}
			if p := fn.Pkg().Path(); p != "strings" && p != "bytes" {
				return true
			}
			switch fn.Name() {
			case "Trim", "TrimLeft", "TrimRight":
			default:
				return true
			}
			sites++
			tv, ok := info.Types[call.Args[1]]
			if !ok || tv.Value == nil || tv.Value.Kind() != constant.String {
				return true
			}
			if cutsetReadsAsAffix(constant.StringVal(tv.Value)) {
				bad = append(bad, call)
			}
			return true
		})
	}
	return sites, bad
}

func cutsetReadsAsAffix(s string) bool {
	rs := []rune(s)
	if len(rs) < 2 {
		return false
	}
	seen := map[rune]bool{}
	letters, others := 0, 0
	for _, r := range rs {
		if seen[r] {
			return true
		}
		seen[r] = true
		if unicode.IsLetter(r) {
			letters++
		} else {
			others++
		}
	}
	return len(rs) >= 3 && letters > 0 && others > 0
}

// ruleTrimCutset (TRIM-CUTSET): zero instances are expected.
func ruleTrimCutset(c *Ctx, rule string, pkgs []*packages.Package) {
	c.Rule(rule, "the character set of Trim/TrimLeft/TrimRight is not a prefix or suffix written where TrimPrefix/TrimSuffix was meant", 0)
	p := c.P
	n, sites := 0, 0
	for _, pk := range pkgs {
		s, bad := trimCutsetAffix(pk)
		sites += s
		for _, call := range bad {
			n++
			fn := "?"
			if fd := p.EnclosingFuncDecl(call); fd != nil {
				fn = relPkg(pk.PkgPath) + "." + declName(fd)
			}
			c.Ob(rule, fn+"/cutset-"+exprString(call.Args[1]), call.Pos(), false, true, "%s strips every leading/trailing occurrence of each character of %s, not that prefix/suffix once", short(exprString(call), 80), exprString(call.Args[1]))
		}
	}
	c.Ob(rule, "packages-scanned", token.NoPos, n == 0, len(pkgs) > 0, "%d packages scanned, %d Trim/TrimLeft/TrimRight calls, %d with a set that reads as an affix", len(pkgs), sites, n)
}
