package main

import (
	"go/token"

	"golang.org/x/tools/go/ssa"
)

// errTestedOnly lists error values (results of calls) whose only uses are comparisons with nil and whose non-nil edge
// neither returns from the function nor panics: the loop simply goes on (`if err != nil { continue }`), or the code
// falls through. The error's content is never looked at - a read fault is treated like "not here".
func errTestedOnly(f *ssa.Function) []ssa.Instruction {
	var out []ssa.Instruction
	for _, b := range f.Blocks {
		for _, ins := range b.Instrs {
			var v ssa.Value
			switch t := ins.(type) {
			case *ssa.Call:
				v = t
			case *ssa.Extract:
				if _, isCall := t.Tuple.(*ssa.Call); isCall {
					v = t
				}
			}
			if v == nil || !isErrorType(v.Type()) || v.Referrers() == nil {
				continue
			}
			var tests []*ssa.BinOp
			other := 0
			for _, r := range *v.Referrers() {
				switch t := r.(type) {
				case *ssa.DebugRef:
				case *ssa.BinOp:
					if (t.Op == token.NEQ || t.Op == token.EQL) && (isNilConst(t.X) || isNilConst(t.Y)) {
						tests = append(tests, t)
					} else {
						other++
					}
				default:
					other++
				}
			}
			if other != 0 || len(tests) == 0 {
				continue
			}
			// the non-nil edge of each test: does it reach the next loop iteration or the rest of the function
			// without returning an error or panicking?
			for _, t := range tests {
				if t.Referrers() == nil {
					continue
				}
				for _, r := range *t.Referrers() {
					iff, ok := r.(*ssa.If)
					if !ok {
						continue
					}
					nonNil := iff.Block().Succs[0]
					if t.Op == token.EQL {
						nonNil = iff.Block().Succs[1]
					}
					if !blockAlwaysFails(nonNil, map[*ssa.BasicBlock]bool{}) {
						out = append(out, ins)
					}
				}
			}
		}
	}
	return out
}

// blockAlwaysFails reports whether every path from b ends in a return whose last result is a non-nil error value, or
// in a panic (bounded search; a path that re-enters a visited block counts as not failing).
func blockAlwaysFails(b *ssa.BasicBlock, seen map[*ssa.BasicBlock]bool) bool {
	if seen[b] || len(seen) > 40 {
		return false
	}
	seen[b] = true
	last := b.Instrs[len(b.Instrs)-1]
	switch t := last.(type) {
	case *ssa.Return:
		if len(t.Results) == 0 {
			return false
		}
		r := spilledResult(t, t.Results[len(t.Results)-1])
		return isErrorType(r.Type()) && !isNilConst(r)
	case *ssa.Panic:
		return true
	}
	if len(b.Succs) == 0 {
		return false
	}
	for _, s := range b.Succs {
		if !blockAlwaysFails(s, seen) {
			return false
		}
	}
	return true
}

// delegateErrDropped narrows errTestedOnly to delegation loops: the call whose error is only compared with nil is made
// on an element of a slice held in a field of the method's receiver (the modules behind a union bucket, the buckets
// behind a multi bucket). There "this delegate failed" must not be read as "this delegate does not have it": the path
// would silently be served by another delegate (or by the built-in well-known types) and an image built from a
// workspace that could not be read.
func delegateErrDropped(f *ssa.Function) []ssa.Instruction {
	if f.Signature.Recv() == nil || len(f.Params) == 0 {
		return nil
	}
	recv := f.Params[0]
	var out []ssa.Instruction
	for _, ins := range errTestedOnly(f) {
		var call *ssa.Call
		switch t := ins.(type) {
		case *ssa.Call:
			call = t
		case *ssa.Extract:
			call, _ = t.Tuple.(*ssa.Call)
		}
		if call == nil {
			continue
		}
		var target ssa.Value
		if call.Call.IsInvoke() {
			target = call.Call.Value
		} else if len(call.Call.Args) > 0 {
			target = call.Call.Args[0]
		}
		if target == nil {
			continue
		}
		fromField, indexed := false, false
		sliceBack(target, func(x ssa.Value) bool {
			switch t := x.(type) {
			case *ssa.IndexAddr, *ssa.Index, *ssa.Next:
				indexed = true // an element of a collection (a type parameter with a slice core type has no slice underlying type)
			case *ssa.FieldAddr:
				if t.X == ssa.Value(recv) {
					fromField = true
				}
			}
			return true
		})
		fromField = fromField && indexed
		if fromField {
			out = append(out, ins)
		}
	}
	return out
}
