package main

// C11 — an image faithfully stands in for its sources, in every encoding (narrow structural part).

import (
	"fmt"
	"go/ast"
	"go/constant"
	"go/token"
	"go/types"
	"golang.org/x/tools/go/ssa"
	"reflect"
	"regexp"
	"sort"
	"strings"

	"golang.org/x/tools/go/packages"
)

const (
	pkgImage     = "private/bufpkg/bufimage"
	pkgImagev1   = "private/gen/proto/go/buf/alpha/image/v1"
	pkgProtodesc = "private/pkg/protodescriptor"
	pkgBufctl    = "private/buf/bufctl"
	pkgFetch     = "private/buf/buffetch"
	pkgFetchInt  = "private/buf/buffetch/internal"
	pkgDescPB    = "google.golang.org/protobuf/types/descriptorpb"
)

func init() {
	register(&propCheck{
		ID: "C11",
		Explanation: "Structural necessary conditions of 'the serialized image carries everything and each encoding is read with the codec that wrote it': (1) FDP-FIELDS — every proto field of " +
			"descriptorpb.FileDescriptorProto (enumerated from the generated struct, so a protobuf upgrade that adds one is caught) is copied, from the same-named source field, at the three " +
			"places that rebuild a file descriptor (the ImageFile builder literal, FileDescriptorProtoForFileDescriptor, and the FileDescriptor interface), and unknown fields are carried over " +
			"(through stripBufExtensionField on the way out); (2) EXT-FIELDS — every field of the buf extension messages (ImageFileExtension, ModuleInfo, ModuleName) is written by " +
			"fileDescriptorProtoToProtoImageFile and read back by NewImageForProto, and each value travels under its own name (accessor -> parameter -> key; getter -> variable -> " +
			"NewImageFile parameter); (3) EXT-NUMBER — bufExtensionFieldNumber equals the generated field number of ImageFile.buf_extension and is what stripBufExtensionField compares with; " +
			"(4) ENCODING-PAIRED — every switch over buffetch.MessageEncoding covers all constants and errors in default, and each arm constructs the protoencoding marshaler/unmarshaler of " +
			"its own encoding (Binpb~Wire, JSON~JSON, Txtpb~Txtpb, YAML~YAML); parseMessageEncoding inverts messageEncodingToFormat; (5) BOOTSTRAP — in getImageForMessageRef every " +
			"non-binary arm unmarshals the same data twice, the second time with the resolver returned by bootstrapResolver fed by an unmarshaler of the same encoding, and WithNoReparse is " +
			"added only in arms that did so; (6) COMPRESSION-PAIRED — reader and writer switches over CompressionType are total, gzip arms use a gzip codec and zstd arms a zstd codec, and " +
			"every ChainCloser closes the codec before the underlying file; (7) EXT-TABLE-AGREES — the sibling raw-ref processors map each file extension to the same format and the " +
			"same compression, and the .gz and .zst inner tables are equal. NOT decided: round-trip equality of images, equality of builds across packagings, and equality of image-level and " +
			"module-level path filtering (value-level; need execution).",
		Assumptions: []string{"protoencoding's New<X>Marshaler / New<X>Unmarshaler implement encoding <X>", "generated imagev1 code matches image.proto"},
		Run:         runC11,
	})
}

// getter of the extension -> NewImageFile parameter it must reach
var c11GetterToParam = map[string]string{
	"GetIsImport":            "isImport",
	"GetIsSyntaxUnspecified": "isSyntaxUnspecified",
	"GetUnusedDependency":    "unusedDependencyIndexes",
}

// ImageFile accessor -> extension builder key it must reach
var c11AccessorToKey = map[string]string{
	"IsImport":                "IsImport",
	"IsSyntaxUnspecified":     "IsSyntaxUnspecified",
	"UnusedDependencyIndexes": "UnusedDependency",
	"FullName":                "ModuleInfo",
}

var c11EncodingCodec = map[string]string{
	"MessageEncodingBinpb": "Wire",
	"MessageEncodingJSON":  "JSON",
	"MessageEncodingTxtpb": "Txtpb",
	"MessageEncodingYAML":  "YAML",
}

func runC11(c *Ctx) {
	p := c.P
	c.Rule("FDP-FIELDS", "every FileDescriptorProto field is copied from its namesake wherever a file descriptor is rebuilt", 39)
	c.Rule("EXT-FIELDS", "every buf-extension field is written on the way out and read on the way in, under its own name", 20)
	c.Rule("EXT-NUMBER", "the stripped field number is the generated number of ImageFile.buf_extension", 3)
	c.Rule("ENCODING-PAIRED", "each MessageEncoding arm uses the codec of that encoding; switches are total; format names invert", 25)
	c.Rule("BOOTSTRAP", "text encodings are unmarshalled twice with a resolver bootstrapped from the same data and encoding", 8)
	c.Rule("COMPRESSION-PAIRED", "compression switches are total, codec matches the arm, codec closed before the file", 10)
	c.Rule("EXT-TABLE-AGREES", "sibling raw-ref processors agree on extension -> (format, compression)", 20)
	c.Rule("R-ERRUSE", "no unconsumed error in protoencoding / protodescriptor", 5)

	pkImg, pkV1, pkPD, pkCtl, pkF, pkFI := p.Pkg(pkgImage), p.Pkg(pkgImagev1), p.Pkg(pkgProtodesc), p.Pkg(pkgBufctl), p.Pkg(pkgFetch), p.Pkg(pkgFetchInt)
	pkDP := p.Pkg(pkgDescPB)
	for name, pk := range map[string]*packages.Package{pkgImage: pkImg, pkgImagev1: pkV1, pkgProtodesc: pkPD, pkgBufctl: pkCtl, pkgFetch: pkF, pkgFetchInt: pkFI, pkgDescPB: pkDP} {
		if pk == nil {
			c.Fail("FDP-FIELDS", "anchor "+name, token.NoPos, "package %s not loaded", name)
			return
		}
	}

	// ---- (1) FDP-FIELDS
	fdpFields := protoStructFields(pkDP, "FileDescriptorProto")
	if len(fdpFields) < 13 {
		c.Fail("FDP-FIELDS", "enumerate", token.NoPos, "only %d proto fields found in descriptorpb.FileDescriptorProto", len(fdpFields))
	}
	// (a) the ImageFile builder literal
	if fr := c11ProtoImageFileBuilder(p); fr == nil {
		c.Fail("FDP-FIELDS", "builder", token.NoPos, "fileDescriptorProtoToProtoImageFile not found")
	} else {
		info := fr.Info()
		lit := findCompositeLit(info, fr.Decl.Body, "ImageFile_builder")
		if lit == nil {
			c.Fail("FDP-FIELDS", "builder", fr.Decl.Pos(), "ImageFile_builder literal not found")
		} else {
			kv := litKeys(lit)
			for _, f := range fdpFields {
				v, ok := kv[f]
				src := ""
				if ok {
					src = sourceFieldOf(info, v, "FileDescriptorProto")
				}
				c.Ob("FDP-FIELDS", "ImageFile_builder."+f, lit.Pos(), ok && src == f, true, "key %s of the ImageFile builder is set from FileDescriptorProto.%s (found source: %q, present: %v)", f, f, src, ok)
			}
			// no key of the builder besides BufExtension is left out either (ImageFile must mirror FileDescriptorProto)
			for _, bf := range structFieldNames(pkV1, "ImageFile_builder") {
				if bf == "BufExtension" {
					continue
				}
				if !containsStr(fdpFields, bf) {
					c.Ob("FDP-FIELDS", "ImageFile-mirrors/"+bf, lit.Pos(), false, true, "ImageFile has field %s that FileDescriptorProto has not", bf)
				}
			}
			for _, f := range fdpFields {
				c.Ob("FDP-FIELDS", "ImageFile-has/"+f, lit.Pos(), containsStr(structFieldNames(pkV1, "ImageFile_builder"), f), true, "imagev1.ImageFile mirrors FileDescriptorProto.%s", f)
			}
		}
		okUnknown := false
		ast.Inspect(fr.Decl.Body, func(n ast.Node) bool {
			call, ok := n.(*ast.CallExpr)
			if !ok {
				return true
			}
			if sel, ok := call.Fun.(*ast.SelectorExpr); ok && sel.Sel.Name == "SetUnknown" && len(call.Args) == 1 {
				if inner, ok := ast.Unparen(call.Args[0]).(*ast.CallExpr); ok {
					if fn := Callee(info, inner); fn != nil && fn.Name() == "stripBufExtensionField" && len(inner.Args) == 1 {
						if strings.HasSuffix(exprString(inner.Args[0]), "GetUnknown()") {
							okUnknown = true
						}
						// or a local holding it
						if vo := identObj(info, inner.Args[0]); vo != nil {
							ast.Inspect(fr.Decl.Body, func(m ast.Node) bool {
								if as, ok := m.(*ast.AssignStmt); ok && len(as.Lhs) == 1 && len(as.Rhs) == 1 && identObj(info, as.Lhs[0]) == vo && strings.HasSuffix(exprString(as.Rhs[0]), "GetUnknown()") {
									okUnknown = true
								}
								return true
							})
						}
					}
				}
			}
			return true
		})
		c.Ob("FDP-FIELDS", "ImageFile_builder/unknown-fields", fr.Decl.Pos(), okUnknown, true, "unknown fields are carried over through stripBufExtensionField(GetUnknown()): %v", okUnknown)
	}
	// (b) FileDescriptorProtoForFileDescriptor
	if fr := p.Func(pkgProtodesc, "FileDescriptorProtoForFileDescriptor"); fr == nil {
		c.Fail("FDP-FIELDS", "protodescriptor", token.NoPos, "FileDescriptorProtoForFileDescriptor not found")
	} else {
		info := fr.Info()
		set := map[string]string{}
		if lit := findCompositeLit(info, fr.Decl.Body, "FileDescriptorProto"); lit != nil {
			for k, v := range litKeys(lit) {
				set[k] = getterFieldOf(info, v)
			}
		}
		ast.Inspect(fr.Decl.Body, func(n ast.Node) bool {
			as, ok := n.(*ast.AssignStmt)
			if !ok || len(as.Lhs) != 1 || len(as.Rhs) != 1 {
				return true
			}
			sel, ok := ast.Unparen(as.Lhs[0]).(*ast.SelectorExpr)
			if !ok || namedName(info.TypeOf(sel.X)) != "FileDescriptorProto" {
				return true
			}
			src := getterFieldOf(info, as.Rhs[0])
			if src == "" {
				// conditional copy: `if v := fd.GetF(); v != zero { out.F = …v… }`
				for q := p.Parent(as); q != nil; q = p.Parent(q) {
					if ifs, ok := q.(*ast.IfStmt); ok && ifs.Init != nil {
						if ia, ok := ifs.Init.(*ast.AssignStmt); ok && len(ia.Rhs) == 1 && len(ia.Lhs) == 1 {
							if vo := identObj(info, ia.Lhs[0]); vo != nil && usesObj(info, as.Rhs[0], vo) {
								src = getterFieldOf(info, ia.Rhs[0])
							}
						}
						break
					}
				}
			}
			set[sel.Sel.Name] = src
			return true
		})
		for _, f := range fdpFields {
			src, ok := set[f]
			c.Ob("FDP-FIELDS", "FileDescriptorProtoForFileDescriptor."+f, fr.Decl.Pos(), ok && src == f, true, "field %s of the rebuilt FileDescriptorProto comes from Get%s() (found source: %q, present: %v)", f, f, src, ok)
		}
		okUnknown := false
		ast.Inspect(fr.Decl.Body, func(n ast.Node) bool {
			if call, ok := n.(*ast.CallExpr); ok {
				if sel, ok := call.Fun.(*ast.SelectorExpr); ok && sel.Sel.Name == "SetUnknown" && len(call.Args) == 1 && strings.HasSuffix(exprString(call.Args[0]), "GetUnknown()") {
					okUnknown = true
				}
			}
			return true
		})
		c.Ob("FDP-FIELDS", "FileDescriptorProtoForFileDescriptor/unknown-fields", fr.Decl.Pos(), okUnknown, true, "unknown fields are carried over: %v", okUnknown)
		// (c) interface
		if o := pkPD.Types.Scope().Lookup("FileDescriptor"); o == nil {
			c.Fail("FDP-FIELDS", "FileDescriptor", token.NoPos, "interface not found")
		} else if it, ok := o.Type().Underlying().(*types.Interface); ok {
			ms := map[string]bool{}
			for i := 0; i < it.NumMethods(); i++ {
				ms[it.Method(i).Name()] = true
			}
			for _, f := range fdpFields {
				c.Ob("FDP-FIELDS", "FileDescriptor.Get"+f, o.Pos(), ms["Get"+f], true, "protodescriptor.FileDescriptor has Get%s: %v", f, ms["Get"+f])
			}
		}
	}

	// ---- (2) EXT-FIELDS
	c11ExtFields(c, pkImg, pkV1)

	c11ImageFileCopies(c)
	{
		var dp []*packages.Package
		for _, rel := range []string{pkgImage, pkgBufctl, pkgFetch, pkgFetchInt} {
			if q := p.Pkg(rel); q != nil {
				dp = append(dp, q)
			}
		}
		c.Rule("R-DEFER", "deferred error joins assign the named result, never a local", 10)
		ruleDefer(c, "R-DEFER", dp)
	}

	// FILTER-ORDER (added after finding F19): the image-level path filter re-adds the imports of the targeted files
	// (getImageWithImports), so excluding imports must come after it on every path
	c.Rule("FILTER-ORDER", "imports are excluded after the path filter that can add them back", 1)
	if fr := p.Func(pkgBufctl, "filterImage"); fr == nil {
		c.Fail("FILTER-ORDER", "filterImage", token.NoPos, "not found")
	} else {
		info := fr.Info()
		g := p.CFGOf(fr.Decl.Body, info)
		var without, paths []ast.Node
		ast.Inspect(fr.Decl.Body, func(n ast.Node) bool {
			if call, ok := n.(*ast.CallExpr); ok {
				if fn := Callee(info, call); fn != nil && fn.Pkg() != nil && strings.HasSuffix(fn.Pkg().Path(), "/bufimage") {
					switch {
					case fn.Name() == "ImageWithoutImports":
						without = append(without, call)
					case strings.HasPrefix(fn.Name(), "ImageWithOnlyPaths"):
						paths = append(paths, call)
					}
				}
			}
			return true
		})
		bad := false
		for _, w := range without {
			for _, pth := range paths {
				if g.Reachable(w, pth) {
					bad = true
				}
			}
		}
		c.Ob("FILTER-ORDER", "bufctl.filterImage", fr.Decl.Pos(), len(without) == 1 && len(paths) >= 1 && !bad, true,
			"%d ImageWithoutImports and %d ImageWithOnlyPaths* calls; a path filter reachable after the import exclusion: %v", len(without), len(paths), bad)
	}

	// ---- (3) EXT-NUMBER
	c11ExtNumber(c, pkImg, pkV1)

	// ---- (4) ENCODING-PAIRED
	c11Encodings(c, pkCtl, pkF)

	// ---- (5) BOOTSTRAP
	c11Bootstrap(c, pkCtl)

	// ---- (6) COMPRESSION-PAIRED
	c11Compression(c, pkFI)

	// ---- (7) EXT-TABLE-AGREES
	c11ExtTables(c, pkF)

	// ---- (8) SUBDIR-REMAP-TOTAL
	c11SubdirRemap(c, pkFI)
	c11ResolverKept(c, pkImg)
	c11PublicTransitive(c, pkImg)
	c11PromotionNeedsPath(c, pkImg)
	if q := c.P.Pkg("private/pkg/protoencoding"); q != nil {
		c11ClearBeforeMerge(c, q)
	}
	c11BuiltinOnlyAfterMiss(c, "WKT-AFTER-MISS", []string{"private/buf/cmd/buf/command/export", "private/bufpkg/bufmodule"})
	// an image file written over a longer one must be truncated; archive member names are validated before any
	// component is stripped (shared with C07/C15 and C13)
	ruleOpenTruncates(c, "OPEN-TRUNCATES")
	c13UntrustedNames(c)
	c11ArchiveLastWins(c)
	c11RootsApplied(c)
	c11ClosureAlwaysWalked(c)
	c10c11TargetPaths(c)
	c11BootstrapLenient(c)

	// ---- (9) shared rules on the code this property runs through: the image-level --path/--exclude-path filter must
	// not depend on map iteration order (R-MAPORDER of C02, on package bufimage), and the image writer must report a
	// failing Close of the (possibly compressing) output (R-CLOSE of C15, on package bufctl)
	c.Rule("R-MAPORDER", "map iterations in package bufimage (image path filter, image construction) have order-insensitive effects", 5)
	ruleMapOrderPkg(c, "R-MAPORDER", pkImg, map[string]bool{}, map[string]bool{})
	c.Rule("R-CLOSE", "writers acquired by the controller are closed on every path and report their Close error on success", 2)
	ruleClose(c, "R-CLOSE", []*packages.Package{pkCtl}, func(string) (bool, string) { return true, "" })

	var pkgs []*packages.Package
	for _, rel := range []string{"private/pkg/protoencoding", pkgProtodesc} {
		if q := p.Pkg(rel); q != nil {
			pkgs = append(pkgs, q)
		}
	}
	ruleErrUse(c, "R-ERRUSE", pkgs, func(string) (bool, string) { return true, "" }, c15AllowedErrUse)
}

// protoStructFields: exported fields of a generated open-struct message that carry a protobuf tag.
func protoStructFields(pk *packages.Package, typeName string) []string {
	o := pk.Types.Scope().Lookup(typeName)
	if o == nil {
		return nil
	}
	st, ok := o.Type().Underlying().(*types.Struct)
	if !ok {
		return nil
	}
	var out []string
	for i := 0; i < st.NumFields(); i++ {
		if f := st.Field(i); f.Exported() && strings.Contains(st.Tag(i), `protobuf:"`) {
			out = append(out, f.Name())
		}
	}
	return out
}

func structFieldNames(pk *packages.Package, typeName string) []string {
	o := pk.Types.Scope().Lookup(typeName)
	if o == nil {
		return nil
	}
	st, ok := o.Type().Underlying().(*types.Struct)
	if !ok {
		return nil
	}
	var out []string
	for i := 0; i < st.NumFields(); i++ {
		if f := st.Field(i); f.Exported() {
			out = append(out, f.Name())
		}
	}
	return out
}

func containsStr(xs []string, s string) bool {
	for _, x := range xs {
		if x == s {
			return true
		}
	}
	return false
}

func findCompositeLit(info *types.Info, root ast.Node, typeName string) *ast.CompositeLit {
	var out *ast.CompositeLit
	ast.Inspect(root, func(n ast.Node) bool {
		if cl, ok := n.(*ast.CompositeLit); ok && out == nil && namedName(info.TypeOf(cl)) == typeName {
			out = cl
		}
		return true
	})
	return out
}

func litKeys(cl *ast.CompositeLit) map[string]ast.Expr {
	out := map[string]ast.Expr{}
	for _, e := range cl.Elts {
		if kv, ok := e.(*ast.KeyValueExpr); ok {
			if id, ok := kv.Key.(*ast.Ident); ok {
				out[id.Name] = kv.Value
			}
		}
	}
	return out
}

// sourceFieldOf: e is `x.F` or `x.GetF()` with x of the named type; returns F.
func sourceFieldOf(info *types.Info, e ast.Expr, typeName string) string {
	e = ast.Unparen(e)
	if call, ok := e.(*ast.CallExpr); ok && len(call.Args) == 0 {
		if sel, ok := call.Fun.(*ast.SelectorExpr); ok && namedName(info.TypeOf(sel.X)) == typeName && strings.HasPrefix(sel.Sel.Name, "Get") {
			return strings.TrimPrefix(sel.Sel.Name, "Get")
		}
		return ""
	}
	if sel, ok := e.(*ast.SelectorExpr); ok && namedName(info.TypeOf(sel.X)) == typeName {
		return sel.Sel.Name
	}
	return ""
}

// getterFieldOf: e is `x.GetF()` (any receiver); returns F.
func getterFieldOf(info *types.Info, e ast.Expr) string {
	if call, ok := ast.Unparen(e).(*ast.CallExpr); ok && len(call.Args) == 0 {
		if sel, ok := call.Fun.(*ast.SelectorExpr); ok && strings.HasPrefix(sel.Sel.Name, "Get") {
			return strings.TrimPrefix(sel.Sel.Name, "Get")
		}
	}
	return ""
}

func c11ExtFields(c *Ctx, pkImg, pkV1 *packages.Package) {
	p := c.P
	out := c11ProtoImageFileBuilder(p)
	in := p.Func(pkgImage, "NewImageForProto")
	conv := c11ImageFileToProto(p, out)
	// the per-file decoding may live in a function of its own that NewImageForProto calls for every file: it is then
	// that function which reads the extension and calls NewImageFile
	if in != nil && in.Decl.Body != nil {
		callsNIF := func(fr *FuncRef) bool {
			found := false
			ast.Inspect(fr.Decl.Body, func(n ast.Node) bool {
				if call, ok := n.(*ast.CallExpr); ok {
					if fn := Callee(fr.Info(), call); fn != nil && fn.Name() == "NewImageFile" {
						found = true
					}
				}
				return true
			})
			return found
		}
		if !callsNIF(in) {
			var helper *FuncRef
			ast.Inspect(in.Decl.Body, func(n ast.Node) bool {
				if call, ok := n.(*ast.CallExpr); ok {
					if fn := Callee(in.Info(), call); fn != nil && fn.Pkg() == pkImg.Types {
						if h := p.DeclOf(fn); h != nil && h.Decl.Body != nil && callsNIF(h) {
							helper = h
						}
					}
				}
				return true
			})
			if helper != nil {
				in = helper
			}
		}
	}
	if out == nil || in == nil || conv == nil {
		c.Fail("EXT-FIELDS", "anchor", token.NoPos, "fileDescriptorProtoToProtoImageFile / NewImageForProto / imageFileToProtoImageFile not found")
		return
	}
	info := pkImg.TypesInfo
	// written: builder keys and SetF calls in `out`
	written := map[string]bool{}
	ast.Inspect(out.Decl.Body, func(n ast.Node) bool {
		switch x := n.(type) {
		case *ast.CompositeLit:
			tn := namedName(info.TypeOf(x))
			if strings.HasSuffix(tn, "_builder") && tn != "ImageFile_builder" {
				for k := range litKeys(x) {
					written[strings.TrimSuffix(tn, "_builder")+"."+k] = true
				}
			}
		case *ast.CallExpr:
			if sel, ok := x.Fun.(*ast.SelectorExpr); ok && strings.HasPrefix(sel.Sel.Name, "Set") {
				if tn := namedName(info.TypeOf(sel.X)); tn != "" {
					written[tn+"."+strings.TrimPrefix(sel.Sel.Name, "Set")] = true
				}
			}
		}
		return true
	})
	read := map[string]bool{}
	ast.Inspect(in.Decl.Body, func(n ast.Node) bool {
		if call, ok := n.(*ast.CallExpr); ok {
			if sel, ok := call.Fun.(*ast.SelectorExpr); ok && strings.HasPrefix(sel.Sel.Name, "Get") {
				if tn := namedName(info.TypeOf(sel.X)); tn != "" {
					read[tn+"."+strings.TrimPrefix(sel.Sel.Name, "Get")] = true
				}
			}
		}
		return true
	})
	for _, msg := range []string{"ImageFileExtension", "ModuleInfo", "ModuleName"} {
		fields := structFieldNames(pkV1, msg+"_builder")
		if len(fields) == 0 {
			c.Fail("EXT-FIELDS", msg, token.NoPos, "builder type %s_builder not found in imagev1", msg)
			continue
		}
		for _, f := range fields {
			key := msg + "." + f
			c.Ob("EXT-FIELDS", "written "+key, out.Decl.Pos(), written[key], true, "%s is set when an ImageFile is turned into its proto form: %v", key, written[key])
			c.Ob("EXT-FIELDS", "read "+key, in.Decl.Pos(), read[key], true, "%s is read back by NewImageForProto: %v", key, read[key])
		}
	}
	c.Ob("EXT-FIELDS", "read ImageFile.BufExtension", in.Decl.Pos(), read["ImageFile.BufExtension"], true, "NewImageForProto reads the extension: %v", read["ImageFile.BufExtension"])

	// name-preserving flow on the way out: accessor X() at the position of parameter p, and key K := …p…
	sig := out.Decl.Type.Params
	var params []types.Object
	for _, fl := range sig.List {
		for _, nm := range fl.Names {
			params = append(params, info.Defs[nm])
		}
	}
	var convCall *ast.CallExpr
	ast.Inspect(conv.Decl.Body, func(n ast.Node) bool {
		if call, ok := n.(*ast.CallExpr); ok {
			if fn := Callee(info, call); fn != nil && out != nil && fn == out.Obj {
				convCall = call
			}
		}
		return true
	})
	if convCall == nil || len(convCall.Args) != len(params) {
		c.Fail("EXT-FIELDS", "flow-out", conv.Decl.Pos(), "imageFileToProtoImageFile does not call fileDescriptorProtoToProtoImageFile with %d arguments", len(params))
	} else {
		extLit := findCompositeLit(info, out.Decl.Body, "ImageFileExtension_builder")
		var extKeys map[string]ast.Expr
		if extLit != nil {
			extKeys = litKeys(extLit)
		}
		for acc, key := range c11AccessorToKey {
			// which argument position carries imageFile.<acc>()?
			pos := -1
			for i, a := range convCall.Args {
				if call, ok := ast.Unparen(a).(*ast.CallExpr); ok {
					if sel, ok := call.Fun.(*ast.SelectorExpr); ok && sel.Sel.Name == acc {
						pos = i
					}
				}
			}
			ok := false
			desc := "accessor not passed"
			if pos >= 0 && extKeys != nil {
				v, has := extKeys[key]
				// the key's value must depend on params[pos], possibly through one local variable
				if has {
					ok = dependsOnObj(info, out.Decl.Body, v, params[pos], 2)
					desc = fmt.Sprintf("%s() is argument %d (parameter %s); key %s = %s", acc, pos, params[pos].Name(), key, short(exprString(v), 60))
				} else {
					desc = "key " + key + " missing from the extension builder"
				}
			}
			c.Ob("EXT-FIELDS", "flow-out "+acc+"->"+key, convCall.Pos(), ok, true, "ImageFile.%s() reaches extension field %s: %s", acc, key, desc)
		}
	}
	// flow on the way in: GetX() -> variable -> NewImageFile argument at the parameter named as the table says
	var nifCall *ast.CallExpr
	ast.Inspect(in.Decl.Body, func(n ast.Node) bool {
		if call, ok := n.(*ast.CallExpr); ok {
			if fn := Callee(info, call); fn != nil && fn.Name() == "NewImageFile" {
				nifCall = call
			}
		}
		return true
	})
	nif := p.Func(pkgImage, "NewImageFile")
	if nifCall == nil || nif == nil {
		c.Fail("EXT-FIELDS", "flow-in", in.Decl.Pos(), "NewImageForProto does not call NewImageFile")
		return
	}
	var pnames []string
	for _, fl := range nif.Decl.Type.Params.List {
		for _, nm := range fl.Names {
			pnames = append(pnames, nm.Name)
		}
	}
	for getter, pname := range c11GetterToParam {
		idx := -1
		for i, n := range pnames {
			if n == pname {
				idx = i
			}
		}
		ok := false
		desc := "parameter " + pname + " not found in NewImageFile"
		if idx >= 0 && idx < len(nifCall.Args) {
			vo := identObj(info, nifCall.Args[idx])
			desc = fmt.Sprintf("argument %d (%s) is %s", idx, pname, exprString(nifCall.Args[idx]))
			if vo != nil {
				// every assignment to vo comes from getter
				n, good := 0, 0
				ast.Inspect(in.Decl.Body, func(m ast.Node) bool {
					if as, ok := m.(*ast.AssignStmt); ok && len(as.Lhs) == len(as.Rhs) {
						for i, l := range as.Lhs {
							if identObj(info, l) == vo {
								n++
								if "Get"+getterFieldOf(info, as.Rhs[i]) == getter {
									good++
								}
							}
						}
					}
					return true
				})
				ok = n > 0 && n == good
				desc += fmt.Sprintf("; %d of %d assignments to it come from %s()", good, n, getter)
			}
		}
		c.Ob("EXT-FIELDS", "flow-in "+getter+"->"+pname, nifCall.Pos(), ok, true, "%s: %s", getter, desc)
	}
}

// dependsOnObj: expression e mentions obj, or mentions a local variable every assignment of which mentions obj.
func dependsOnObj(info *types.Info, body ast.Node, e ast.Expr, obj types.Object, depth int) bool {
	if usesObj(info, e, obj) {
		return true
	}
	if depth == 0 {
		return false
	}
	hit := false
	ast.Inspect(e, func(n ast.Node) bool {
		id, ok := n.(*ast.Ident)
		if !ok || hit {
			return true
		}
		vo, ok := info.Uses[id].(*types.Var)
		if !ok || vo.IsField() {
			return true
		}
		ast.Inspect(body, func(m ast.Node) bool {
			switch x := m.(type) {
			case *ast.AssignStmt:
				for i, l := range x.Lhs {
					if identObj(info, l) == types.Object(vo) && i < len(x.Rhs) && dependsOnObj(info, body, x.Rhs[i], obj, depth-1) {
						hit = true
					}
				}
			case *ast.ValueSpec:
				for i, nm := range x.Names {
					if info.Defs[nm] == types.Object(vo) && i < len(x.Values) && dependsOnObj(info, body, x.Values[i], obj, depth-1) {
						hit = true
					}
				}
			}
			return true
		})
		return true
	})
	return hit
}

var reFieldNum = regexp.MustCompile(`protobuf:"[a-z0-9]+,(\d+),`)

func c11ExtNumber(c *Ctx, pkImg, pkV1 *packages.Package) {
	p := c.P
	var constVal int64 = -1
	var constObj types.Object
	if o := pkImg.Types.Scope().Lookup("bufExtensionFieldNumber"); o != nil {
		if k, ok := o.(*types.Const); ok {
			if v, ok := constant.Int64Val(constant.ToInt(k.Val())); ok {
				constVal = v
				constObj = o
			}
		}
	}
	gen := int64(-2)
	if o := pkV1.Types.Scope().Lookup("ImageFile"); o != nil {
		if st, ok := o.Type().Underlying().(*types.Struct); ok {
			for i := 0; i < st.NumFields(); i++ {
				if strings.Contains(st.Tag(i), "name=buf_extension") {
					tag := reflect.StructTag(st.Tag(i))
					_ = tag
					if m := reFieldNum.FindStringSubmatch(st.Tag(i)); m != nil {
						fmt.Sscan(m[1], &gen)
					}
				}
			}
		}
	}
	c.Ob("EXT-NUMBER", "constant=generated", token.NoPos, constVal == gen && gen > 0, true, "bufExtensionFieldNumber=%d, generated field number of ImageFile.buf_extension=%d", constVal, gen)
	fr := p.Func(pkgImage, "stripBufExtensionField")
	if fr == nil {
		c.Fail("EXT-NUMBER", "strip", token.NoPos, "stripBufExtensionField not found")
		return
	}
	info := fr.Info()
	cmp := false
	ast.Inspect(fr.Decl.Body, func(n ast.Node) bool {
		if be, ok := n.(*ast.BinaryExpr); ok && be.Op == token.EQL {
			if identObj(info, be.Y) == constObj || identObj(info, be.X) == constObj {
				cmp = true
			}
		}
		return true
	})
	c.Ob("EXT-NUMBER", "strip-compares-constant", fr.Decl.Pos(), cmp && constObj != nil, true, "stripBufExtensionField selects the field to strip by `num == bufExtensionFieldNumber`: %v", cmp)
	// on malformed bytes the input is returned unchanged (never a truncated prefix)
	okRet := true
	nRet := 0
	param := info.Defs[fr.Decl.Type.Params.List[0].Names[0]]
	ast.Inspect(fr.Decl.Body, func(n ast.Node) bool {
		r, ok := n.(*ast.ReturnStmt)
		if !ok || len(r.Results) != 1 {
			return true
		}
		nRet++
		// inside an `n < 0` guard the result must be the parameter
		for q := p.Parent(r); q != nil; q = p.Parent(q) {
			if ifs, ok := q.(*ast.IfStmt); ok {
				if be, ok := ast.Unparen(ifs.Cond).(*ast.BinaryExpr); ok && be.Op == token.LSS && exprString(be.Y) == "0" {
					if identObj(info, r.Results[0]) != param {
						okRet = false
					}
				}
				break
			}
		}
		return true
	})
	c.Ob("EXT-NUMBER", "strip-malformed-returns-input", fr.Decl.Pos(), okRet && nRet >= 3, true, "every return under a parse failure (`n < 0`) returns the input unchanged: %v (%d returns)", okRet, nRet)
}

type encSwitch struct {
	Fn     *FuncRef
	Switch *ast.SwitchStmt
	Arms   map[string]*ast.CaseClause // constant name -> clause
	Deflt  *ast.CaseClause
}

func findEncodingSwitches(p *Prog, pk *packages.Package, typeName string) []encSwitch {
	var out []encSwitch
	info := pk.TypesInfo
	for _, fr := range p.FuncsOf(pk) {
		if fr.Decl.Body == nil {
			continue
		}
		fr := fr
		ast.Inspect(fr.Decl.Body, func(n ast.Node) bool {
			sw, ok := n.(*ast.SwitchStmt)
			if !ok {
				return true
			}
			var tagT types.Type
			if sw.Tag != nil {
				tagT = info.TypeOf(sw.Tag)
			}
			if tagT == nil || namedName(tagT) != typeName {
				return true
			}
			es := encSwitch{Fn: fr, Switch: sw, Arms: map[string]*ast.CaseClause{}}
			for _, st := range sw.Body.List {
				cc := st.(*ast.CaseClause)
				if cc.List == nil {
					es.Deflt = cc
					continue
				}
				for _, e := range cc.List {
					if o := identObjOrSel(info, e); o != nil {
						es.Arms[o.Name()] = cc
					}
				}
			}
			out = append(out, es)
			return true
		})
	}
	return out
}

func identObjOrSel(info *types.Info, e ast.Expr) types.Object {
	switch x := ast.Unparen(e).(type) {
	case *ast.Ident:
		return info.Uses[x]
	case *ast.SelectorExpr:
		return info.Uses[x.Sel]
	}
	return nil
}

var reCodec = regexp.MustCompile(`^New(Wire|JSON|Txtpb|YAML)(Unmarshaler|Marshaler)$`)

// codecsIn lists the protoencoding codec constructors called in the statements, following package-local helpers one level.
func codecsIn(p *Prog, info *types.Info, stmts []ast.Stmt, depth int) []string {
	var out []string
	seen := map[*ast.Ident]bool{}
	for _, s := range stmts {
		ast.Inspect(s, func(n ast.Node) bool {
			switch x := n.(type) {
			case *ast.Ident:
				// any reference to a codec constructor counts, called or passed as a function value
				if fn, ok := info.Uses[x].(*types.Func); ok && fn.Pkg() != nil && strings.HasSuffix(fn.Pkg().Path(), "/protoencoding") && !seen[x] {
					seen[x] = true
					if m := reCodec.FindStringSubmatch(fn.Name()); m != nil {
						out = append(out, m[1]+" "+m[2])
					}
				}
			case *ast.CallExpr:
				fn := Callee(info, x)
				if fn == nil || fn.Pkg() == nil || strings.HasSuffix(fn.Pkg().Path(), "/protoencoding") {
					return true
				}
				if depth > 0 && strings.HasPrefix(fn.Pkg().Path(), modPath) {
					if fr := p.DeclOf(fn); fr != nil && fr.Decl.Body != nil {
						out = append(out, codecsIn(p, fr.Info(), fr.Decl.Body.List, depth-1)...)
					}
				}
			}
			return true
		})
	}
	return out
}

func clauseErrors(info *types.Info, cc *ast.CaseClause) bool {
	if cc == nil {
		return false
	}
	for _, s := range cc.Body {
		if r, ok := s.(*ast.ReturnStmt); ok && len(r.Results) > 0 {
			last := r.Results[len(r.Results)-1]
			if t := info.TypeOf(last); t != nil && !isNilIdent(info, last) && types.Implements(t, types.Universe.Lookup("error").Type().Underlying().(*types.Interface)) {
				return true
			}
		}
	}
	return false
}

func c11Encodings(c *Ctx, pkCtl, pkF *packages.Package) {
	p := c.P
	var encConsts []string
	for name := range enumConstants(pkF.Types.Scope().Lookup("MessageEncoding").Type()) {
		encConsts = append(encConsts, name)
	}
	sort.Strings(encConsts)
	for _, name := range encConsts {
		_, ok := c11EncodingCodec[name]
		c.Ob("ENCODING-PAIRED", "codec-table/"+name, token.NoPos, ok, true, "encoding constant %s has a codec in the checker's table: %v (a new encoding must be reviewed)", name, ok)
	}
	nsw := 0
	for _, pk := range []*packages.Package{pkCtl, pkF, p.Pkg("private/buf/cmd/buf/command/convert")} {
		if pk == nil {
			continue
		}
		info := pk.TypesInfo
		for _, es := range findEncodingSwitches(p, pk, "MessageEncoding") {
			nsw++
			id := es.Fn.ID()
			var missing []string
			for _, k := range encConsts {
				if es.Arms[k] == nil {
					missing = append(missing, k)
				}
			}
			c.Ob("ENCODING-PAIRED", id+"/total", es.Switch.Pos(), len(missing) == 0, true, "switch over MessageEncoding lists every constant (missing: %v)", missing)
			c.Ob("ENCODING-PAIRED", id+"/default-errors", es.Switch.Pos(), clauseErrors(info, es.Deflt), true, "the default arm returns an error: %v", clauseErrors(info, es.Deflt))
			for _, k := range encConsts {
				cc := es.Arms[k]
				if cc == nil {
					continue
				}
				codecs := codecsIn(p, info, cc.Body, 1)
				if len(codecs) == 0 {
					continue // this switch does not pick codecs (e.g. config constructors)
				}
				okAll := true
				for _, cd := range codecs {
					if !strings.HasPrefix(cd, c11EncodingCodec[k]+" ") {
						okAll = false
					}
				}
				c.Ob("ENCODING-PAIRED", id+"/arm "+k, cc.Pos(), okAll, true, "arm %s constructs only %s codecs: %v", k, c11EncodingCodec[k], codecs)
			}
			// arms that build an input config: constructor name carries the encoding
			cfgName := map[string]string{"MessageEncodingBinpb": "Binary", "MessageEncodingJSON": "JSON", "MessageEncodingTxtpb": "Text", "MessageEncodingYAML": "YAML"}
			for _, k := range encConsts {
				cc := es.Arms[k]
				if cc == nil {
					continue
				}
				for _, s := range cc.Body {
					ast.Inspect(s, func(n ast.Node) bool {
						if call, ok := n.(*ast.CallExpr); ok {
							if fn := Callee(info, call); fn != nil && strings.HasPrefix(fn.Name(), "New") && strings.HasSuffix(fn.Name(), "ImageInputConfig") {
								want := "New" + cfgName[k] + "ImageInputConfig"
								c.Ob("ENCODING-PAIRED", id+"/config-arm "+k, call.Pos(), fn.Name() == want, true, "arm %s builds %s (want %s)", k, fn.Name(), want)
							}
						}
						return true
					})
				}
			}
		}
	}
	c.Ob("ENCODING-PAIRED", "switch-count", token.NoPos, nsw >= 5, true, "%d switches over MessageEncoding analysed", nsw)

	// messageEncodingToFormat total, and parseMessageEncoding inverts it
	cl := pkgVarLiteral(pkF, "messageEncodingToFormat")
	parse := p.Func(pkgFetch, "parseMessageEncoding")
	if cl == nil || parse == nil {
		c.Fail("ENCODING-PAIRED", "format-table", token.NoPos, "messageEncodingToFormat / parseMessageEncoding not found")
		return
	}
	info := pkF.TypesInfo
	missing, total, ok := mapLiteralMissingKeys(info, cl)
	c.Ob("ENCODING-PAIRED", "messageEncodingToFormat/total", cl.Pos(), ok && len(missing) == 0, true, "%d keys, missing %v", total, missing)
	// parse: format constant -> encoding constant
	fmtToEnc := map[string]string{}
	ast.Inspect(parse.Decl.Body, func(n ast.Node) bool {
		cc, ok := n.(*ast.CaseClause)
		if !ok || cc.List == nil {
			return true
		}
		enc := ""
		for _, s := range cc.Body {
			if r, ok := s.(*ast.ReturnStmt); ok && len(r.Results) == 2 {
				if o := identObjOrSel(info, r.Results[0]); o != nil {
					enc = o.Name()
				}
			}
		}
		for _, e := range cc.List {
			if o := identObjOrSel(info, e); o != nil {
				fmtToEnc[o.Name()] = enc
			}
		}
		return true
	})
	for _, e := range cl.Elts {
		kv, ok := e.(*ast.KeyValueExpr)
		if !ok {
			continue
		}
		ko, vo := identObjOrSel(info, kv.Key), identObjOrSel(info, kv.Value)
		if ko == nil || vo == nil {
			continue
		}
		c.Ob("ENCODING-PAIRED", "format-inverts/"+ko.Name(), kv.Pos(), fmtToEnc[vo.Name()] == ko.Name(), true,
			"messageEncodingToFormat[%s]=%s and parseMessageEncoding(%s)=%s", ko.Name(), vo.Name(), vo.Name(), fmtToEnc[vo.Name()])
	}
}

// twoPass describes a statement list that unmarshals the same data twice: resolver := bootstrapResolver(K(nil), d)
// and then K(resolver).Unmarshal(d, msg). K is a codec constructor of protoencoding (Static) or a function-typed
// parameter of the enclosing function (Param), so that an extracted helper taking the constructor is recognised.
type twoPass struct {
	OK     bool
	Why    string
	Static *types.Func
	Param  *types.Var
}

func ctorOf(info *types.Info, e ast.Expr) (fn *types.Func, prm *types.Var) {
	switch x := ast.Unparen(e).(type) {
	case *ast.Ident:
		switch o := info.Uses[x].(type) {
		case *types.Func:
			return o, nil
		case *types.Var:
			return nil, o
		}
	case *ast.SelectorExpr:
		if o, ok := info.Uses[x.Sel].(*types.Func); ok {
			return o, nil
		}
	}
	return nil, nil
}

func twoPassShape(info *types.Info, stmts []ast.Stmt) twoPass {
	var boot *ast.CallExpr
	var bootVar types.Object
	var unmarshals []*ast.CallExpr
	for _, s := range stmts {
		ast.Inspect(s, func(n ast.Node) bool {
			switch x := n.(type) {
			case *ast.AssignStmt:
				if len(x.Rhs) == 1 {
					if call, ok := ast.Unparen(x.Rhs[0]).(*ast.CallExpr); ok {
						if fn := Callee(info, call); fn != nil && fn.Name() == "bootstrapResolver" {
							boot = call
							bootVar = identObj(info, x.Lhs[0])
						}
					}
				}
			case *ast.CallExpr:
				if sel, ok := x.Fun.(*ast.SelectorExpr); ok && sel.Sel.Name == "Unmarshal" && len(x.Args) == 2 {
					unmarshals = append(unmarshals, x)
				}
			}
			return true
		})
	}
	if boot == nil || len(boot.Args) != 2 || len(unmarshals) != 1 {
		return twoPass{Why: fmt.Sprintf("bootstrapResolver call found=%v, Unmarshal calls=%d", boot != nil, len(unmarshals))}
	}
	first, _ := ast.Unparen(boot.Args[0]).(*ast.CallExpr)
	um := unmarshals[0]
	second, _ := ast.Unparen(um.Fun.(*ast.SelectorExpr).X).(*ast.CallExpr)
	if first == nil || second == nil {
		return twoPass{Why: "the unmarshalers are not constructed in place"}
	}
	f1, p1 := ctorOf(info, first.Fun)
	f2, p2 := ctorOf(info, second.Fun)
	firstNil := len(first.Args) >= 1 && isNilIdent(info, first.Args[0]) // options may follow (discard-unknown for the resolver-less pass)
	secondBoot := len(second.Args) >= 1 && bootVar != nil && identObj(info, second.Args[0]) == bootVar
	same := (f1 != nil && f1 == f2) || (p1 != nil && p1 == p2)
	sameData := identObj(info, um.Args[0]) != nil && identObj(info, um.Args[0]) == identObj(info, boot.Args[1])
	tp := twoPass{OK: firstNil && secondBoot && same && sameData, Static: f1, Param: p1,
		Why: fmt.Sprintf("first pass resolver nil=%v, second pass uses the bootstrapped resolver=%v, same constructor both times=%v, same data=%v", firstNil, secondBoot, same, sameData)}
	return tp
}

// codecOfCtorArg: the codec a constructor argument stands for: protoencoding.New<X>Unmarshaler, or a function
// literal that returns New<X>Unmarshaler(<its parameter>).
func codecOfCtorArg(info *types.Info, e ast.Expr) string {
	if fn, _ := ctorOf(info, e); fn != nil {
		if m := reCodec.FindStringSubmatch(fn.Name()); m != nil && m[2] == "Unmarshaler" {
			return m[1]
		}
	}
	if lit, ok := ast.Unparen(e).(*ast.FuncLit); ok && len(lit.Type.Params.List) == 1 && len(lit.Type.Params.List[0].Names) == 1 {
		prm := info.Defs[lit.Type.Params.List[0].Names[0]]
		codec := ""
		ast.Inspect(lit.Body, func(n ast.Node) bool {
			if call, ok := n.(*ast.CallExpr); ok && len(call.Args) >= 1 && identObj(info, call.Args[0]) == prm {
				if fn, _ := ctorOf(info, call.Fun); fn != nil {
					if m := reCodec.FindStringSubmatch(fn.Name()); m != nil && m[2] == "Unmarshaler" {
						codec = m[1]
					}
				}
			}
			return true
		})
		return codec
	}
	return ""
}

func c11Bootstrap(c *Ctx, pkCtl *packages.Package) {
	p := c.P
	fr := p.Func(pkgBufctl, "controller.getImageForMessageRef")
	if fr == nil {
		c.Fail("BOOTSTRAP", "anchor", token.NoPos, "controller.getImageForMessageRef not found")
		return
	}
	info := fr.Info()
	var es *encSwitch
	// the switch lies in getImageForMessageRef, or in a function of the package it calls (the decoding step on its own)
	calledByEntry := map[*ast.FuncDecl]bool{fr.Decl: true}
	ast.Inspect(fr.Decl.Body, func(n ast.Node) bool {
		if call, ok := n.(*ast.CallExpr); ok {
			if fn := Callee(info, call); fn != nil && fn.Pkg() == pkCtl.Types {
				if h := p.DeclOf(fn); h != nil {
					calledByEntry[h.Decl] = true
				}
			}
		}
		return true
	})
	for _, s := range findEncodingSwitches(p, pkCtl, "MessageEncoding") {
		if s.Fn.Decl == fr.Decl || (es == nil && calledByEntry[s.Fn.Decl]) {
			s := s
			es = &s
		}
	}
	var afterSwitch []ast.Node // WithNoReparse calls of the switch's function that lie outside the switch
	var swCFG *FnCFG
	if es != nil {
		info = es.Fn.Info()
		swCFG = p.CFGOf(es.Fn.Decl.Body, info)
		ast.Inspect(es.Fn.Decl.Body, func(n ast.Node) bool {
			if n == ast.Node(es.Switch) {
				return false
			}
			if call, ok := n.(*ast.CallExpr); ok {
				if fn := Callee(info, call); fn != nil && fn.Name() == "WithNoReparse" {
					afterSwitch = append(afterSwitch, call)
				}
			}
			return true
		})
	}
	if es == nil {
		c.Fail("BOOTSTRAP", "switch", fr.Decl.Pos(), "no switch over MessageEncoding in getImageForMessageRef")
		return
	}
	for _, k := range sortedKeys(es.Arms) {
		cc := es.Arms[k]
		addsNoReparse := false
		for _, s := range cc.Body {
			ast.Inspect(s, func(n ast.Node) bool {
				if call, ok := n.(*ast.CallExpr); ok {
					if fn := Callee(info, call); fn != nil && fn.Name() == "WithNoReparse" {
						addsNoReparse = true
					}
				}
				return true
			})
		}
		// WithNoReparse added once after the switch counts for every arm that gets there
		for _, nrCall := range afterSwitch {
			for _, s := range cc.Body {
				// compound statements are not CFG nodes: ask for the calls inside them
				ast.Inspect(s, func(n ast.Node) bool {
					if call, ok := n.(*ast.CallExpr); ok && swCFG.Reachable(call, nrCall) {
						addsNoReparse = true
					}
					return true
				})
			}
		}
		// the arm is a two-pass itself, or calls a helper of the package that is one
		tp := twoPassShape(info, cc.Body)
		codec := ""
		if tp.OK && tp.Static != nil {
			if m := reCodec.FindStringSubmatch(tp.Static.Name()); m != nil && m[2] == "Unmarshaler" {
				codec = m[1]
			}
		}
		if !tp.OK {
			for _, s := range cc.Body {
				ast.Inspect(s, func(n ast.Node) bool {
					call, ok := n.(*ast.CallExpr)
					if !ok || tp.OK {
						return true
					}
					fn := Callee(info, call)
					if fn == nil || fn.Pkg() != pkCtl.Types {
						return true
					}
					h := p.DeclOf(fn)
					if h == nil || h.Decl.Body == nil {
						return true
					}
					ht := twoPassShape(h.Info(), h.Decl.Body.List)
					if !ht.OK || ht.Param == nil {
						return true
					}
					// which argument is the constructor parameter?
					idx := 0
					for _, fl := range h.Decl.Type.Params.List {
						for _, nm := range fl.Names {
							if h.Info().Defs[nm] == types.Object(ht.Param) && idx < len(call.Args) {
								tp = ht
								tp.Why = "through helper " + fn.Name() + ": " + ht.Why
								codec = codecOfCtorArg(info, call.Args[idx])
							}
							idx++
						}
					}
					return true
				})
			}
		}
		if k == "MessageEncodingBinpb" {
			c.Ob("BOOTSTRAP", "arm "+k+"/reparse-left-on", cc.Pos(), !addsNoReparse && !tp.OK, true,
				"the binary arm unmarshals once without a resolver and leaves the reparse of custom options to NewImageForProto (WithNoReparse added: %v)", addsNoReparse)
			continue
		}
		want := c11EncodingCodec[k]
		c.Ob("BOOTSTRAP", "arm "+k+"/two-pass", cc.Pos(), tp.OK && codec == want, true, "%s; codec of both passes: %q (want %q)", tp.Why, codec, want)
		c.Ob("BOOTSTRAP", "arm "+k+"/no-reparse-only-after-two-pass", cc.Pos(), !addsNoReparse || tp.OK, true, "WithNoReparse (added: %v) only where the arm already re-parsed with a bootstrapped resolver (%v)", addsNoReparse, tp.OK)
	}
	// bootstrapResolver itself: resolver built from the files of the message it just unmarshalled
	if br := p.Func(pkgBufctl, "bootstrapResolver"); br == nil {
		c.Fail("BOOTSTRAP", "bootstrapResolver", token.NoPos, "not found")
	} else {
		binfo := br.Info()
		var target types.Object
		var um, nr ast.Node
		ast.Inspect(br.Decl.Body, func(n ast.Node) bool {
			if call, ok := n.(*ast.CallExpr); ok {
				if fn := Callee(binfo, call); fn != nil {
					if fn.Name() == "Unmarshal" && len(call.Args) == 2 {
						target = identObj(binfo, call.Args[1])
						um = call
					}
					if fn.Name() == "NewResolver" && len(call.Args) == 1 {
						nr = call
					}
				}
			}
			return true
		})
		ok := um != nil && nr != nil && target != nil && usesObj(binfo, nr, target)
		if ok {
			g := p.CFGOf(br.Decl.Body, binfo)
			ok = g.Dominates(um, nr)
		}
		c.Ob("BOOTSTRAP", "bootstrapResolver/from-first-pass", br.Decl.Pos(), ok, true, "the resolver is built from the files of the image unmarshalled in the first pass, after that pass: %v", ok)
	}
}

func c11Compression(c *Ctx, pkFI *packages.Package) {
	p := c.P
	info := pkFI.TypesInfo
	consts := enumConstants(pkFI.Types.Scope().Lookup("CompressionType").Type())
	var names []string
	for k := range consts {
		names = append(names, k)
	}
	sort.Strings(names)
	lib := map[string]string{"CompressionTypeGzip": "gzip", "CompressionTypeZstd": "zstd"}
	n := 0
	for _, es := range findEncodingSwitches(p, pkFI, "CompressionType") {
		if es.Fn.Decl.Name.Name == "String" {
			continue
		}
		n++
		id := es.Fn.ID()
		var missing []string
		for _, k := range names {
			if es.Arms[k] == nil {
				missing = append(missing, k)
			}
		}
		c.Ob("COMPRESSION-PAIRED", id+"/total", es.Switch.Pos(), len(missing) == 0, true, "switch over CompressionType lists every constant (missing %v)", missing)
		c.Ob("COMPRESSION-PAIRED", id+"/default-errors", es.Switch.Pos(), clauseErrors(info, es.Deflt), true, "default arm returns an error: %v", clauseErrors(info, es.Deflt))
		for k, want := range lib {
			cc := es.Arms[k]
			if cc == nil {
				continue
			}
			var codecs []string
			var codecVars []types.Object
			for _, s := range cc.Body {
				ast.Inspect(s, func(m ast.Node) bool {
					switch x := m.(type) {
					case *ast.AssignStmt:
						if len(x.Rhs) == 1 {
							if call, ok := ast.Unparen(x.Rhs[0]).(*ast.CallExpr); ok {
								if fn := Callee(info, call); fn != nil && fn.Pkg() != nil && (fn.Name() == "NewReader" || fn.Name() == "NewWriter") {
									codecs = append(codecs, fn.Pkg().Path()+"."+fn.Name())
									codecVars = append(codecVars, identObj(info, x.Lhs[0]))
								}
							}
						}
					}
					return true
				})
			}
			okLib := len(codecs) == 1 && strings.Contains(codecs[0], want)
			c.Ob("COMPRESSION-PAIRED", id+"/arm "+k, cc.Pos(), okLib, true, "arm %s builds exactly one codec, from a %s package: %v", k, want, codecs)
			// ChainCloser(first, …, last): first derives from the codec, last is the function's underlying stream
			for _, s := range cc.Body {
				ast.Inspect(s, func(m ast.Node) bool {
					call, ok := m.(*ast.CallExpr)
					if !ok {
						return true
					}
					fn := Callee(info, call)
					if fn == nil || fn.Name() != "ChainCloser" || len(call.Args) < 2 {
						return true
					}
					firstOK := false
					for _, cv := range codecVars {
						if cv != nil && dependsOnObj(info, cc, call.Args[0], cv, 2) {
							firstOK = true
						}
					}
					lastOK := true
					for _, cv := range codecVars {
						if cv != nil && dependsOnObj(info, cc, call.Args[len(call.Args)-1], cv, 2) {
							lastOK = false
						}
					}
					c.Ob("COMPRESSION-PAIRED", id+"/close-order "+k, call.Pos(), firstOK && lastOK, true,
						"ChainCloser(%s, …, %s): the codec is closed (flushed) first and the underlying stream last: %v", exprString(call.Args[0]), exprString(call.Args[len(call.Args)-1]), firstOK && lastOK)
					return true
				})
			}
		}
	}
	c.Ob("COMPRESSION-PAIRED", "switch-count", token.NoPos, n >= 2, true, "%d switches over CompressionType analysed (reader and writer)", n)
}

// c11ExtTables cross-checks the sibling `switch filepath.Ext(path)` tables of buffetch.
func c11ExtTables(c *Ctx, pkF *packages.Package) {
	p := c.P
	info := pkF.TypesInfo
	type entry struct {
		format, compression string
		pos                 token.Pos
	}
	tables := map[string]map[string]entry{} // function -> ".ext" or ".gz/.ext" -> entry
	var walk func(fn string, sw *ast.SwitchStmt, prefix string, outerComp string)
	assigned := func(stmts []ast.Stmt) (format, comp string) {
		for _, s := range stmts {
			as, ok := s.(*ast.AssignStmt)
			if !ok || len(as.Lhs) != 1 || len(as.Rhs) != 1 {
				continue
			}
			o := identObjOrSel(info, as.Rhs[0])
			if o == nil {
				continue
			}
			if _, isConst := o.(*types.Const); !isConst {
				continue
			}
			switch {
			case strings.HasPrefix(o.Name(), "format"):
				format = o.Name()
			case strings.HasPrefix(o.Name(), "CompressionType"):
				comp = o.Name()
			}
		}
		return
	}
	isExtSwitch := func(sw *ast.SwitchStmt) bool {
		call, ok := ast.Unparen(sw.Tag).(*ast.CallExpr)
		if !ok {
			return false
		}
		fn := Callee(info, call)
		return fn != nil && fn.Pkg() != nil && fn.Pkg().Path() == "path/filepath" && fn.Name() == "Ext"
	}
	walk = func(fn string, sw *ast.SwitchStmt, prefix string, outerComp string) {
		for _, st := range sw.Body.List {
			cc := st.(*ast.CaseClause)
			if cc.List == nil {
				continue
			}
			format, comp := assigned(cc.Body)
			if comp == "" {
				comp = outerComp
			}
			var inner *ast.SwitchStmt
			for _, s := range cc.Body {
				if isw, ok := s.(*ast.SwitchStmt); ok && isw.Tag != nil && isExtSwitch(isw) {
					inner = isw
				}
			}
			for _, e := range cc.List {
				tv := info.Types[e]
				if tv.Value == nil || tv.Value.Kind() != constant.String {
					continue
				}
				ext := constant.StringVal(tv.Value)
				if inner != nil {
					walk(fn, inner, prefix+ext+"/", comp)
					continue
				}
				if tables[fn] == nil {
					tables[fn] = map[string]entry{}
				}
				tables[fn][prefix+ext] = entry{format, comp, cc.Pos()}
			}
		}
	}
	for _, fr := range p.FuncsOf(pkF) {
		if fr.Decl.Body == nil {
			continue
		}
		name := fr.Decl.Name.Name
		ast.Inspect(fr.Decl.Body, func(n ast.Node) bool {
			sw, ok := n.(*ast.SwitchStmt)
			if !ok || sw.Tag == nil || !isExtSwitch(sw) {
				return true
			}
			if _, nested := tables[name]; nested {
				return false
			}
			walk(name, sw, "", "")
			return false
		})
	}
	fns := sortedKeys(tables)
	c.Ob("EXT-TABLE-AGREES", "tables", token.NoPos, len(fns) >= 3, true, "%d sibling extension tables found: %v", len(fns), fns)
	// agreement across functions
	all := map[string]map[string]entry{} // ext -> fn -> entry
	for fn, t := range tables {
		for ext, e := range t {
			if all[ext] == nil {
				all[ext] = map[string]entry{}
			}
			all[ext][fn] = e
		}
	}
	for _, ext := range sortedKeys(all) {
		byFn := all[ext]
		vals := map[string][]string{}
		var pos token.Pos
		for fn, e := range byFn {
			if e.format == "" {
				continue // decided at run time (a stat of the path): not a table entry
			}
			k := e.format + "/" + e.compression
			vals[k] = append(vals[k], fn)
			pos = e.pos
		}
		if len(byFn) < 2 {
			c.Ob("EXT-TABLE-AGREES", "ext "+ext, pos, true, false, "%s appears in one table only", ext)
			continue
		}
		var desc []string
		for k, f := range vals {
			sort.Strings(f)
			desc = append(desc, k+" in "+strings.Join(f, ","))
		}
		sort.Strings(desc)
		c.Ob("EXT-TABLE-AGREES", "ext "+ext, pos, len(vals) <= 1, true, "extension %s maps to the same (format/compression) in all %d tables that list it: %s", ext, len(byFn), strings.Join(desc, "; "))
	}
	// compression by outer extension, and .gz inner table == .zst inner table
	for _, fn := range fns {
		t := tables[fn]
		gz, zst := map[string]string{}, map[string]string{}
		for ext, e := range t {
			switch {
			case strings.HasPrefix(ext, ".gz/"):
				gz[strings.TrimPrefix(ext, ".gz/")] = e.format
				c.Ob("EXT-TABLE-AGREES", fn+"/compression "+ext, e.pos, e.compression == "CompressionTypeGzip", true, "%s: compression %s", ext, e.compression)
			case strings.HasPrefix(ext, ".zst/"):
				zst[strings.TrimPrefix(ext, ".zst/")] = e.format
				c.Ob("EXT-TABLE-AGREES", fn+"/compression "+ext, e.pos, e.compression == "CompressionTypeZstd", true, "%s: compression %s", ext, e.compression)
			case ext == ".tgz":
				c.Ob("EXT-TABLE-AGREES", fn+"/compression "+ext, e.pos, e.compression == "CompressionTypeGzip", true, "%s: compression %s", ext, e.compression)
			default:
				c.Ob("EXT-TABLE-AGREES", fn+"/compression "+ext, e.pos, e.compression == "", true, "%s: no compression (%q)", ext, e.compression)
			}
			// an inner entry agrees with the outer entry of the same extension
			if i := strings.Index(ext, "/"); i > 0 {
				if outer, ok := t[ext[i+1:]]; ok {
					c.Ob("EXT-TABLE-AGREES", fn+"/inner=outer "+ext, e.pos, outer.format == e.format, true, "%s -> %s, %s -> %s", ext, e.format, ext[i+1:], outer.format)
				}
			}
		}
		if len(gz) > 0 || len(zst) > 0 {
			c.Ob("EXT-TABLE-AGREES", fn+"/gz=zst", token.NoPos, reflect.DeepEqual(gz, zst), true, ".gz inner table %v equals .zst inner table %v", gz, zst)
		}
	}
}

// param of NewImageFile/newImageFile/newImageFileNoValidate -> ImageFile accessor carrying the same attribute
var c11ParamAccessor = map[string]string{
	"fileDescriptor":          "FileDescriptorProto",
	"moduleFullName":          "FullName",
	"commitID":                "CommitID",
	"externalPath":            "ExternalPath",
	"localPath":               "LocalPath",
	"isImport":                "IsImport",
	"isSyntaxUnspecified":     "IsSyntaxUnspecified",
	"unusedDependencyIndexes": "UnusedDependencyIndexes",
}

// constants passed in a copy of an ImageFile, with the reason they are right
var c11CopyConstAllowed = map[string]string{
	"private/bufpkg/bufimage/bufimageutil.filterImageFile:unusedDependencyIndexes": "a filtered file's dependency list is rebuilt from the imports its remaining elements require (remapDependencies), so none is unused",
}

// c11ImageFileCopies (IMAGEFILE-COPY, added after seeded changes C11-a and C11-c).
//   - accessor/parameter agreement: wherever an ImageFile constructor receives `x.Acc()` with Acc one of the eight
//     attribute accessors, it is at the position of the parameter that carries that attribute;
//   - copy completeness: a call that passes three or more accessors of one ImageFile x is a copy of x; each of its
//     other attribute arguments is the matching accessor, a local derived from it, or a parameter of the enclosing
//     function (the attribute the copy is for) — never a constant, unless reviewed;
//   - the struct literal stores each parameter under the field of its name and each accessor returns that field;
//   - per-file state: in NewImageForProto every variable handed to NewImageFile is declared inside the loop over
//     the files (state declared outside is inherited by the next file that does not set it).
func c11ImageFileCopies(c *Ctx) {
	const rule = "IMAGEFILE-COPY"
	c.Rule(rule, "ImageFile attributes travel under their own name through constructors, copies and accessors", 30)
	p := c.P
	pkImg := p.Pkg(pkgImage)
	ctor := p.Func(pkgImage, "newImageFileNoValidate")
	if pkImg == nil || ctor == nil {
		c.Fail(rule, "anchor", token.NoPos, "bufimage.newImageFileNoValidate not found")
		return
	}
	var pnames []string
	for _, fl := range ctor.Decl.Type.Params.List {
		for _, nm := range fl.Names {
			pnames = append(pnames, nm.Name)
		}
	}
	for _, n := range pnames {
		if _, ok := c11ParamAccessor[n]; !ok {
			c.Ob(rule, "param-table/"+n, ctor.Decl.Pos(), false, true, "constructor parameter %s has no accessor in the checker's table (a new attribute must be reviewed)", n)
		}
	}
	// literal and accessors
	info := pkImg.TypesInfo
	if lit := findCompositeLit(info, ctor.Decl.Body, "imageFile"); lit == nil {
		c.Fail(rule, "literal", ctor.Decl.Pos(), "imageFile literal not found")
	} else {
		for k, v := range litKeys(lit) {
			want := k
			if k == "fileDescriptorProto" {
				want = "fileDescriptor"
			}
			o := identObj(info, v)
			ok := o != nil && o.Name() == want
			if k == "fileDescriptorProto" {
				ok = false
				ast.Inspect(v, func(n ast.Node) bool {
					if id, isID := n.(*ast.Ident); isID && id.Name == want {
						ok = true
					}
					return true
				})
			}
			c.Ob(rule, "literal/"+k, v.Pos(), ok, true, "field %s of the imageFile literal is set from parameter %s: %v (%s)", k, want, ok, short(exprString(v), 50))
		}
	}
	for pname, acc := range c11ParamAccessor {
		fr := p.Func(pkgImage, "imageFile."+acc)
		if fr == nil {
			c.Fail(rule, "accessor/"+acc, token.NoPos, "method imageFile.%s not found", acc)
			continue
		}
		field := pname
		if pname == "fileDescriptor" {
			field = "fileDescriptorProto"
		}
		ok := false
		ast.Inspect(fr.Decl.Body, func(n ast.Node) bool {
			if r, isRet := n.(*ast.ReturnStmt); isRet && len(r.Results) == 1 {
				ast.Inspect(r.Results[0], func(m ast.Node) bool {
					if sel, isSel := m.(*ast.SelectorExpr); isSel && sel.Sel.Name == field {
						ok = true
					}
					return true
				})
			}
			return true
		})
		c.Ob(rule, "accessor/"+acc, fr.Decl.Pos(), ok, true, "imageFile.%s returns field %s: %v", acc, field, ok)
	}
	// call sites
	isCtor := func(fn *types.Func) bool {
		if fn == nil || fn.Pkg() == nil || fn.Pkg().Path() != modPath+"/"+pkgImage {
			return false
		}
		switch fn.Name() {
		case "NewImageFile", "newImageFile", "newImageFileNoValidate":
			return true
		}
		return false
	}
	accessorSet := map[string]bool{}
	for _, a := range c11ParamAccessor {
		accessorSet[a] = true
	}
	nSites := 0
	for _, pk := range p.ModulePkgs() {
		info := pk.TypesInfo
		for _, fr := range p.FuncsOf(pk) {
			if fr.Decl.Body == nil {
				continue
			}
			fr := fr
			ast.Inspect(fr.Decl.Body, func(n ast.Node) bool {
				call, ok := n.(*ast.CallExpr)
				if !ok || !isCtor(Callee(info, call)) || len(call.Args) != len(pnames) {
					return true
				}
				nSites++
				c.CallSites++
				// accessors per receiver
				perRecv := map[types.Object]int{}
				for i, a := range call.Args {
					ac, isCall := ast.Unparen(a).(*ast.CallExpr)
					if !isCall || len(ac.Args) != 0 {
						continue
					}
					sel, isSel := ac.Fun.(*ast.SelectorExpr)
					if !isSel || !accessorSet[sel.Sel.Name] || namedName(info.TypeOf(sel.X)) != "ImageFile" {
						continue
					}
					want := c11ParamAccessor[pnames[i]]
					c.Ob(rule, fr.ID()+"/arg "+pnames[i], a.Pos(), sel.Sel.Name == want, true, "%s() is passed as %s (want %s())", sel.Sel.Name, pnames[i], want)
					if o := identObj(info, sel.X); o != nil {
						perRecv[o]++
					}
				}
				var src types.Object
				for o, n := range perRecv {
					if n >= 3 {
						src = o
					}
				}
				if src == nil {
					return true
				}
				// a copy of src
				for i, a := range call.Args {
					if i == 0 {
						continue // the descriptor is what copies replace
					}
					a = ast.Unparen(a)
					verdict, ok := "", false
					switch {
					case isAccessorOf(info, a, src, c11ParamAccessor[pnames[i]]):
						verdict, ok = "the matching accessor", true
					case identObj(info, a) != nil && isParamObj(info, fr.Decl, identObj(info, a)):
						verdict, ok = "a parameter of the copying function (the attribute the copy is for)", true
					case identObj(info, a) != nil && localDerivedFromAccessor(info, fr.Decl.Body, identObj(info, a), src, c11ParamAccessor[pnames[i]]):
						verdict, ok = "a local derived from the matching accessor", true
					default:
						key := fr.ID() + ":" + pnames[i]
						if why, allowed := c11CopyConstAllowed[key]; allowed {
							verdict, ok = "reviewed: "+why, true
						} else {
							verdict = "neither the source's " + c11ParamAccessor[pnames[i]] + "() nor a parameter: " + exprString(a)
						}
					}
					c.Ob(rule, fr.ID()+"/copy "+pnames[i], a.Pos(), ok, true, "copy of %s: attribute %s is %s", src.Name(), pnames[i], verdict)
				}
				return true
			})
		}
	}
	c.Ob(rule, "call-sites", token.NoPos, nSites >= 8, true, "%d ImageFile constructor call sites analysed", nSites)

	// per-file state in NewImageForProto
	if in := p.Func(pkgImage, "NewImageForProto"); in != nil {
		info := pkImg.TypesInfo
		ast.Inspect(in.Decl.Body, func(n ast.Node) bool {
			rs, ok := n.(*ast.RangeStmt)
			if !ok {
				return true
			}
			ast.Inspect(rs.Body, func(m ast.Node) bool {
				call, ok := m.(*ast.CallExpr)
				if !ok || !isCtor(Callee(info, call)) {
					return true
				}
				for i, a := range call.Args {
					o := identObj(info, a)
					if o == nil {
						continue
					}
					if _, isVar := o.(*types.Var); !isVar || o.Pkg() == nil {
						continue
					}
					inside := o.Pos() >= rs.Pos() && o.Pos() <= rs.End()
					c.Ob(rule, "NewImageForProto/per-file "+pnames[i], a.Pos(), inside, true, "variable %s handed to NewImageFile is declared inside the loop over the files (fresh for every file): %v", o.Name(), inside)
				}
				return true
			})
			return true
		})
	}
}

func isAccessorOf(info *types.Info, e ast.Expr, recv types.Object, acc string) bool {
	call, ok := ast.Unparen(e).(*ast.CallExpr)
	if !ok || len(call.Args) != 0 {
		return false
	}
	sel, ok := call.Fun.(*ast.SelectorExpr)
	return ok && sel.Sel.Name == acc && identObj(info, sel.X) == recv
}

func isParamObj(info *types.Info, fd *ast.FuncDecl, o types.Object) bool {
	v, ok := o.(*types.Var)
	return ok && isParamOf(info, fd, v)
}

// localDerivedFromAccessor: some assignment to v has a right-hand side mentioning recv.acc(), directly or through
// one more local (x := recv.acc(); v := make(..., len(x)); copy(v, x)).
func localDerivedFromAccessor(info *types.Info, body ast.Node, v, recv types.Object, acc string) bool {
	mentions := func(e ast.Node) bool {
		hit := false
		ast.Inspect(e, func(n ast.Node) bool {
			if ex, ok := n.(ast.Expr); ok && isAccessorOf(info, ex, recv, acc) {
				hit = true
			}
			return true
		})
		return hit
	}
	hit := false
	var locals []types.Object
	ast.Inspect(body, func(n ast.Node) bool {
		if as, ok := n.(*ast.AssignStmt); ok {
			for i, l := range as.Lhs {
				if i < len(as.Rhs) && mentions(as.Rhs[i]) {
					if identObj(info, l) == v {
						hit = true
					} else if o := identObj(info, l); o != nil {
						locals = append(locals, o)
					}
				}
			}
		}
		return true
	})
	if hit {
		return true
	}
	for _, lo := range locals {
		ast.Inspect(body, func(n ast.Node) bool {
			switch x := n.(type) {
			case *ast.AssignStmt:
				for i, l := range x.Lhs {
					if identObj(info, l) == v && i < len(x.Rhs) && usesObj(info, x.Rhs[i], lo) {
						hit = true
					}
				}
			case *ast.CallExpr:
				// copy(v, x)
				if id, ok := x.Fun.(*ast.Ident); ok && id.Name == "copy" && len(x.Args) == 2 && identObj(info, x.Args[0]) == v && identObj(info, x.Args[1]) == lo {
					hit = true
				}
			}
			return true
		})
	}
	return hit
}

// c11ProtoImageFileBuilder finds, by what it does rather than by its name, the function of bufimage that builds the
// proto form of an image file: the one holding the imagev1.ImageFile_builder literal.
func c11ProtoImageFileBuilder(p *Prog) *FuncRef {
	pk := p.Pkg(pkgImage)
	if pk == nil {
		return nil
	}
	var out *FuncRef
	for _, fr := range p.FuncsOf(pk) {
		if fr.Decl.Body != nil && findCompositeLit(fr.Info(), fr.Decl.Body, "ImageFile_builder") != nil {
			if out != nil {
				return nil // ambiguous: undecided
			}
			out = fr
		}
	}
	return out
}

// c11ImageFileToProto finds the function that hands an ImageFile's attributes (three or more of its accessors) to
// the builder function.
func c11ImageFileToProto(p *Prog, builder *FuncRef) *FuncRef {
	pk := p.Pkg(pkgImage)
	if pk == nil || builder == nil {
		return nil
	}
	for _, fr := range p.FuncsOf(pk) {
		if fr.Decl.Body == nil {
			continue
		}
		info := fr.Info()
		found := false
		ast.Inspect(fr.Decl.Body, func(n ast.Node) bool {
			call, ok := n.(*ast.CallExpr)
			if !ok || Callee(info, call) != builder.Obj {
				return true
			}
			acc := 0
			for _, a := range call.Args {
				if ac, ok := ast.Unparen(a).(*ast.CallExpr); ok && len(ac.Args) == 0 {
					if sel, ok := ac.Fun.(*ast.SelectorExpr); ok && namedName(info.TypeOf(sel.X)) == "ImageFile" {
						acc++
					}
				}
			}
			if acc >= 3 {
				found = true
			}
			return true
		})
		if found {
			return fr
		}
	}
	return nil
}

// c11SubdirRemap (SUBDIR-REMAP-TOTAL, round 2): for archive and git inputs --path/--exclude-path values are relative to
// the `subdir` option and one function joins them onto it before targeting. Both lists must be remapped whenever the
// sub-directory is not ".": a return that hands a parameter back unchanged is allowed only on the edge where the
// sub-directory parameter equals "." (a shortcut that also looks at the *other* list - "no --path, nothing to do" -
// leaves --exclude-path values pointing outside the sub-directory, and the archive packaging stops agreeing with the
// directory packaging). The function is found by shape: (string, []string, []string) -> ([]string, []string) in
// buffetch/internal whose closures call normalpath.Join.
func c11SubdirRemap(c *Ctx, pk *packages.Package) {
	const rule = "SUBDIR-REMAP-TOTAL"
	c.Rule(rule, "path and exclude-path lists of archive/git inputs are both joined onto subdir unless subdir is \".\"", 2)
	p := c.P
	isStrSlice := func(t types.Type) bool {
		sl, ok := t.Underlying().(*types.Slice)
		if !ok {
			return false
		}
		b, ok := sl.Elem().Underlying().(*types.Basic)
		return ok && b.Kind() == types.String
	}
	found := 0
	for _, sf := range p.SSAFuncsOf([]*packages.Package{pk}) {
		sig := sf.Signature
		if sf.Parent() != nil || sig.Recv() != nil || sig.Params().Len() != 3 || sig.Results().Len() != 2 {
			continue
		}
		if b, ok := sig.Params().At(0).Type().Underlying().(*types.Basic); !ok || b.Kind() != types.String {
			continue
		}
		if !isStrSlice(sig.Params().At(1).Type()) || !isStrSlice(sig.Params().At(2).Type()) || !isStrSlice(sig.Results().At(0).Type()) || !isStrSlice(sig.Results().At(1).Type()) {
			continue
		}
		callsJoin := func(f *ssa.Function) bool {
			for _, g := range reachSSA(f, 2) {
				for _, call := range callsIn(g) {
					if calleeIs(staticCalleeObj(call.Call), "private/pkg/normalpath", "Join") {
						return true
					}
				}
			}
			return false
		}
		if !callsJoin(sf) {
			continue
		}
		found++
		subdir := sf.Params[0]
		name := sf.Name()
		// the parameter is captured by the mapping closures, so the builder spills it to a cell
		var cell ssa.Value
		for _, ref := range *subdir.Referrers() {
			if st, ok := ref.(*ssa.Store); ok && st.Val == ssa.Value(subdir) {
				if _, isAlloc := st.Addr.(*ssa.Alloc); isAlloc {
					cell = st.Addr
				}
			}
		}
		isSubdir := func(v ssa.Value) bool {
			if v == ssa.Value(subdir) {
				return true
			}
			if cell == nil {
				return false
			}
			if v == cell {
				return true
			}
			u, ok := v.(*ssa.UnOp)
			return ok && u.Op == token.MUL && u.X == cell
		}
		for i := 0; i < 2; i++ {
			mapped, identityOK, identityBad := 0, 0, 0
			for _, r := range returnsOf(sf) {
				v := stripConv(r.Results[i])
				if _, isParam := v.(*ssa.Parameter); !isParam {
					// a remapped list: must come from a call whose callback joins onto the sub-directory
					if dependsOnCall(v, func(cc *ssa.CallCommon) bool {
						// joined in place (a loop appending normalpath.Join(subdir, p)) ...
						if calleeIs(staticCalleeObj(cc), "private/pkg/normalpath", "Join") {
							for _, a := range cc.Args {
								if isSubdir(a) {
									return true
								}
							}
						}
						// ... or by a named helper of the module that is given the sub-directory and joins onto it
						if callee := cc.StaticCallee(); callee != nil && callee.Pkg != nil && strings.HasPrefix(callee.Pkg.Pkg.Path(), modPath) && callee.Blocks != nil {
							for _, a := range cc.Args {
								if isSubdir(a) && callsJoin(callee) {
									return true
								}
							}
						}
						// ... or by a mapping callback that captures the sub-directory
						for _, a := range cc.Args {
							if mc, ok := a.(*ssa.MakeClosure); ok {
								for _, b := range mc.Bindings {
									if isSubdir(b) {
										return true
									}
								}
							}
						}
						return false
					}) {
						mapped++
					} else {
						identityBad++
					}
					continue
				}
				guarded := false
				for _, ge := range guardingEdges(r.Block()) {
					bin, ok := ge.If.Cond.(*ssa.BinOp)
					if !ok || (bin.Op != token.EQL && bin.Op != token.NEQ) {
						continue
					}
					x, y := bin.X, bin.Y
					if isConstString(x, ".") {
						x, y = y, x
					}
					if isSubdir(x) && isConstString(y, ".") && ge.Branch == (bin.Op == token.EQL) {
						guarded = true
					}
				}
				if guarded {
					identityOK++
				} else {
					identityBad++
				}
			}
			which := []string{"paths", "exclude-paths"}[i]
			c.Ob(rule, name+"/"+which, sf.Pos(), mapped >= 1 && identityBad == 0, true, "%s: %d return(s) join the list onto the sub-directory, %d return it unchanged on the subdir == \".\" edge, %d return it unchanged (or otherwise unmapped) elsewhere", which, mapped, identityOK, identityBad)
		}
	}
	if found == 0 {
		c.Fail(rule, "anchor", token.NoPos, "no (subdir, paths, excludePaths) -> (paths, excludePaths) remapping function found in buffetch/internal")
	}
}
