package main

// Control-flow helpers over go/cfg: node location, dominance, reachability, branch edges and a
// small forward dataflow engine over finite fact sets (bit sets).

import (
	"go/ast"
	"go/token"
	"go/types"

	"golang.org/x/tools/go/cfg"
)

// FnCFG is the CFG of one function body plus derived relations.
type FnCFG struct {
	G       *cfg.CFG
	Body    *ast.BlockStmt
	Info    *types.Info
	domSets [][]uint64 // domSets[i] = blocks dominating block i
	live    []bool
	pred    [][]int32
}

// CFGOf builds (and caches) the CFG of a function body.
func (p *Prog) CFGOf(body *ast.BlockStmt, info *types.Info) *FnCFG {
	if f, ok := p.cfgs[body]; ok {
		return f
	}
	mayReturn := func(call *ast.CallExpr) bool {
		switch fun := ast.Unparen(call.Fun).(type) {
		case *ast.Ident:
			if b, ok := info.Uses[fun].(*types.Builtin); ok && b.Name() == "panic" {
				return false
			}
		case *ast.SelectorExpr:
			if fn, ok := info.Uses[fun.Sel].(*types.Func); ok && fn.Pkg() != nil {
				full := fn.Pkg().Path() + "." + fn.Name()
				switch full {
				case "os.Exit", "log.Fatal", "log.Fatalf", "log.Fatalln", "log.Panic", "log.Panicf":
					return false
				}
			}
		}
		return true
	}
	g := cfg.New(body, mayReturn)
	f := &FnCFG{G: g, Body: body, Info: info}
	n := len(g.Blocks)
	f.live = make([]bool, n)
	f.pred = make([][]int32, n)
	// liveness from entry
	var stack []int32
	if n > 0 {
		f.live[0] = true
		stack = append(stack, 0)
	}
	for len(stack) > 0 {
		b := stack[len(stack)-1]
		stack = stack[:len(stack)-1]
		for _, s := range g.Blocks[b].Succs {
			if !f.live[s.Index] {
				f.live[s.Index] = true
				stack = append(stack, s.Index)
			}
		}
	}
	for _, b := range g.Blocks {
		if !f.live[b.Index] {
			continue
		}
		for _, s := range b.Succs {
			f.pred[s.Index] = append(f.pred[s.Index], b.Index)
		}
	}
	f.computeDominators()
	p.cfgs[body] = f
	return f
}

func (f *FnCFG) computeDominators() {
	n := len(f.G.Blocks)
	// dom sets as bit vectors (functions are small)
	words := (n + 63) / 64
	dom := make([][]uint64, n)
	full := make([]uint64, words)
	for i := range full {
		full[i] = ^uint64(0)
	}
	for i := 0; i < n; i++ {
		dom[i] = make([]uint64, words)
		if i == 0 {
			dom[i][0] = 1
		} else {
			copy(dom[i], full)
		}
	}
	changed := true
	for changed {
		changed = false
		for i := 1; i < n; i++ {
			if !f.live[i] {
				continue
			}
			tmp := make([]uint64, words)
			copy(tmp, full)
			for _, p := range f.pred[i] {
				for w := range tmp {
					tmp[w] &= dom[p][w]
				}
			}
			tmp[i/64] |= 1 << (uint(i) % 64)
			for w := range tmp {
				if tmp[w] != dom[i][w] {
					changed = true
					dom[i] = tmp
					break
				}
			}
		}
	}
	f.domSets = dom
}

func (f *FnCFG) blockDominates(a, b int32) bool {
	if !f.live[a] || !f.live[b] {
		return false
	}
	return f.domSets[b][a/64]&(1<<(uint(a)%64)) != 0
}

// Locate finds the block and node index of the CFG node that contains n (smallest enclosing).
func (f *FnCFG) Locate(n ast.Node) (blk int32, idx int, ok bool) {
	best := token.Pos(-1)
	var bestEnd token.Pos
	for _, b := range f.G.Blocks {
		if !f.live[b.Index] {
			continue
		}
		for i, x := range b.Nodes {
			if x.Pos() <= n.Pos() && n.End() <= x.End() {
				if !ok || (x.End()-x.Pos()) < (bestEnd-best) {
					best, bestEnd = x.Pos(), x.End()
					blk, idx, ok = b.Index, i, true
				}
			}
		}
	}
	return
}

// Dominates reports whether every path from entry to b passes a first.
func (f *FnCFG) Dominates(a, b ast.Node) bool {
	ab, ai, ok1 := f.Locate(a)
	bb, bi, ok2 := f.Locate(b)
	if !ok1 || !ok2 {
		return false
	}
	if ab == bb {
		if ai == bi {
			return a.Pos() <= b.Pos()
		}
		return ai < bi
	}
	return f.blockDominates(ab, bb)
}

// reachableBlocks returns the set of blocks reachable from the successors of block b
// (b itself is included only when on a cycle), optionally not passing through stop blocks.
func (f *FnCFG) reachableFromSuccs(b int32, stop func(int32) bool) map[int32]bool {
	seen := map[int32]bool{}
	var stack []int32
	for _, s := range f.G.Blocks[b].Succs {
		if stop != nil && stop(s.Index) {
			continue
		}
		if !seen[s.Index] {
			seen[s.Index] = true
			stack = append(stack, s.Index)
		}
	}
	for len(stack) > 0 {
		x := stack[len(stack)-1]
		stack = stack[:len(stack)-1]
		for _, s := range f.G.Blocks[x].Succs {
			if stop != nil && stop(s.Index) {
				continue
			}
			if !seen[s.Index] {
				seen[s.Index] = true
				stack = append(stack, s.Index)
			}
		}
	}
	return seen
}

// Reachable reports whether there is a path on which b executes after a.
func (f *FnCFG) Reachable(a, b ast.Node) bool {
	ab, ai, ok1 := f.Locate(a)
	bb, bi, ok2 := f.Locate(b)
	if !ok1 || !ok2 {
		return false
	}
	if ab == bb && (bi > ai || (bi == ai && b.Pos() > a.Pos())) {
		return true
	}
	return f.reachableFromSuccs(ab, nil)[bb]
}

// Returns lists the return statements of the function (not of nested literals) that are live.
func (f *FnCFG) Returns() []*ast.ReturnStmt {
	var out []*ast.ReturnStmt
	for _, b := range f.G.Blocks {
		if !f.live[b.Index] {
			continue
		}
		for _, n := range b.Nodes {
			if r, ok := n.(*ast.ReturnStmt); ok {
				out = append(out, r)
			}
		}
	}
	return out
}

// FallsOffEnd reports whether control can reach the end of the body without a return statement.
func (f *FnCFG) FallsOffEnd() bool {
	for _, b := range f.G.Blocks {
		if !f.live[b.Index] || len(b.Succs) > 0 {
			continue
		}
		if len(b.Nodes) == 0 {
			return true
		}
		switch last := b.Nodes[len(b.Nodes)-1].(type) {
		case *ast.ReturnStmt:
		case *ast.ExprStmt:
			if call, ok := last.X.(*ast.CallExpr); ok {
				if id, ok := call.Fun.(*ast.Ident); ok && id.Name == "panic" {
					continue
				}
			}
			return true
		default:
			return true
		}
	}
	return false
}

// Cond returns the branch condition of a two-way block (nil otherwise). Succs[0] is the true edge.
func (f *FnCFG) Cond(b *cfg.Block) ast.Expr {
	if len(b.Succs) != 2 || len(b.Nodes) == 0 {
		return nil
	}
	e, _ := b.Nodes[len(b.Nodes)-1].(ast.Expr)
	return e
}

// ---- bit-set forward dataflow -------------------------------------------------------------

// Flow describes a forward dataflow problem over facts encoded in a uint64.
type Flow struct {
	Init uint64
	Must bool // true: meet = AND (facts that hold on every path); false: meet = OR
	// Node transfers facts across one CFG node.
	Node func(n ast.Node, in uint64) uint64
	// Edge refines facts along the true (succ 0) / false (succ 1) edge of a conditional block.
	Edge func(cond ast.Expr, branch bool, in uint64) uint64
}

// Solve runs the analysis; the result gives the facts at block entry and helpers to query
// facts just before a node.
type FlowResult struct {
	f   *FnCFG
	fl  *Flow
	in  []uint64
	set []bool
}

func (f *FnCFG) Solve(fl *Flow) *FlowResult {
	n := len(f.G.Blocks)
	r := &FlowResult{f: f, fl: fl, in: make([]uint64, n), set: make([]bool, n)}
	if n == 0 {
		return r
	}
	r.in[0], r.set[0] = fl.Init, true
	work := []int32{0}
	inWork := map[int32]bool{0: true}
	for len(work) > 0 {
		b := work[0]
		work = work[1:]
		inWork[b] = false
		blk := f.G.Blocks[b]
		out := r.in[b]
		for _, nd := range blk.Nodes {
			if fl.Node != nil {
				out = fl.Node(nd, out)
			}
		}
		cond := f.Cond(blk)
		for si, s := range blk.Succs {
			v := out
			if cond != nil && fl.Edge != nil {
				v = fl.Edge(cond, si == 0, v)
			}
			var nv uint64
			if !r.set[s.Index] {
				nv = v
			} else if fl.Must {
				nv = r.in[s.Index] & v
			} else {
				nv = r.in[s.Index] | v
			}
			if !r.set[s.Index] || nv != r.in[s.Index] {
				r.in[s.Index], r.set[s.Index] = nv, true
				if !inWork[s.Index] {
					inWork[s.Index] = true
					work = append(work, s.Index)
				}
			}
		}
	}
	return r
}

// Before returns the facts holding immediately before the CFG node containing n.
func (r *FlowResult) Before(n ast.Node) (uint64, bool) {
	b, idx, ok := r.f.Locate(n)
	if !ok || !r.set[b] {
		return 0, false
	}
	out := r.in[b]
	for i := 0; i < idx; i++ {
		if r.fl.Node != nil {
			out = r.fl.Node(r.f.G.Blocks[b].Nodes[i], out)
		}
	}
	return out, true
}

// ---- return classification ----------------------------------------------------------------

// retErrKind classifies the error operand of a return statement.
type retErrKind int

const (
	retNil    retErrKind = iota // last result is the nil literal
	retNonNil                   // last result is a call/composite that is certainly non-nil, or unknown expression
	retVar                      // last result is a variable (may be nil or not)
	retBare                     // bare return with named results
)

func classifyReturn(info *types.Info, r *ast.ReturnStmt) retErrKind {
	if len(r.Results) == 0 {
		return retBare
	}
	last := ast.Unparen(r.Results[len(r.Results)-1])
	if isNilIdent(info, last) {
		return retNil
	}
	if _, ok := last.(*ast.Ident); ok {
		return retVar
	}
	return retNonNil
}

// errNilTest recognises `x != nil` / `x == nil` over an identifier; returns the object and
// whether the TRUE edge means "x is non-nil".
func errNilTest(info *types.Info, cond ast.Expr) (obj types.Object, trueMeansNonNil bool, ok bool) {
	be, isBin := ast.Unparen(cond).(*ast.BinaryExpr)
	if !isBin || (be.Op != token.NEQ && be.Op != token.EQL) {
		return nil, false, false
	}
	var side ast.Expr
	if isNilIdent(info, be.Y) {
		side = be.X
	} else if isNilIdent(info, be.X) {
		side = be.Y
	} else {
		return nil, false, false
	}
	o := identObj(info, side)
	if o == nil {
		return nil, false, false
	}
	return o, be.Op == token.NEQ, true
}

// ReachableAvoiding reports whether some path leads from just after node `from` to node `to`
// without executing any CFG node that contains one of the avoid nodes.
// If from is nil the search starts at function entry.
func (f *FnCFG) ReachableAvoiding(from, to ast.Node, avoid []ast.Node) bool {
	contains := func(outer, inner ast.Node) bool {
		return outer.Pos() <= inner.Pos() && inner.End() <= outer.End()
	}
	isAvoid := func(n ast.Node) bool {
		for _, a := range avoid {
			if contains(n, a) {
				return true
			}
		}
		return false
	}
	var startB int32
	startI := 0
	if from != nil {
		b, i, ok := f.Locate(from)
		if !ok {
			return false
		}
		startB, startI = b, i+1
	}
	seen := map[int32]bool{}
	type item struct {
		b int32
		i int
	}
	work := []item{{startB, startI}}
	for len(work) > 0 {
		it := work[len(work)-1]
		work = work[:len(work)-1]
		blk := f.G.Blocks[it.b]
		killed := false
		for i := it.i; i < len(blk.Nodes); i++ {
			n := blk.Nodes[i]
			if to != nil && contains(n, to) {
				// evaluating the target node evaluates any avoid node nested in the same CFG node
				// (e.g. `return errors.Join(err, w.Close())`): the path passes through it.
				if isAvoid(n) {
					killed = true
					break
				}
				return true
			}
			if isAvoid(n) {
				killed = true
				break
			}
		}
		if killed {
			continue
		}
		for _, s := range blk.Succs {
			if !seen[s.Index] {
				seen[s.Index] = true
				work = append(work, item{s.Index, 0})
			}
		}
	}
	return false
}

// ExitReachableAvoiding reports whether a function exit (return statement or falling off the end)
// is reachable from `from` without passing an avoid node; it returns the offending return (nil when
// the exit is the end of the body).
func (f *FnCFG) ExitReachableAvoiding(from ast.Node, avoid []ast.Node, skip func(*ast.ReturnStmt) bool) (bool, *ast.ReturnStmt) {
	for _, r := range f.Returns() {
		if skip != nil && skip(r) {
			continue
		}
		if f.ReachableAvoiding(from, r, avoid) {
			return true, r
		}
	}
	return false, nil
}

// EndReachableAvoiding reports whether the end of the function (a block without successors: explicit return or
// falling off the end) can be reached from entry without executing a CFG node containing one of the avoid nodes.
func (f *FnCFG) EndReachableAvoiding(avoid []ast.Node) bool {
	contains := func(outer, inner ast.Node) bool { return outer.Pos() <= inner.Pos() && inner.End() <= outer.End() }
	seen := map[int32]bool{0: true}
	work := []int32{0}
	for len(work) > 0 {
		b := work[len(work)-1]
		work = work[:len(work)-1]
		blk := f.G.Blocks[b]
		killed := false
		for _, n := range blk.Nodes {
			for _, a := range avoid {
				if contains(n, a) {
					killed = true
				}
			}
			if killed {
				break
			}
		}
		if killed {
			continue
		}
		if len(blk.Succs) == 0 {
			return true
		}
		for _, s := range blk.Succs {
			if !seen[s.Index] {
				seen[s.Index] = true
				work = append(work, s.Index)
			}
		}
	}
	return false
}
