package main

// SSA helpers: call enumeration, backward slices (data dependence inside one function), and
// control dependence on a branch edge.

import (
	"fmt"
	"go/token"
	"go/types"
	"strings"

	"golang.org/x/tools/go/ssa"
)

// ssaCall is a call-like instruction with its common part.
type ssaCall struct {
	Instr ssa.Instruction
	Call  *ssa.CallCommon
	Value ssa.Value // nil for defer/go
}

func (c ssaCall) Pos() token.Pos { return c.Instr.Pos() }

// callsIn lists the calls of a single function (no nested closures).
func callsIn(fn *ssa.Function) []ssaCall {
	var out []ssaCall
	for _, b := range fn.Blocks {
		for _, ins := range b.Instrs {
			switch x := ins.(type) {
			case *ssa.Call:
				out = append(out, ssaCall{x, &x.Call, x})
			case *ssa.Defer:
				out = append(out, ssaCall{x, &x.Call, nil})
			case *ssa.Go:
				out = append(out, ssaCall{x, &x.Call, nil})
			}
		}
	}
	return out
}

// callsDeep lists calls of fn and all nested closures.
func callsDeep(fn *ssa.Function) []ssaCall {
	var out []ssaCall
	for _, f := range allSSAFuncs(fn) {
		out = append(out, callsIn(f)...)
	}
	return out
}

// staticCalleeObj returns the *types.Func of the call (static callee or interface method).
func staticCalleeObj(cc *ssa.CallCommon) *types.Func {
	if cc.IsInvoke() {
		return cc.Method
	}
	if sc := cc.StaticCallee(); sc != nil {
		if fn, ok := sc.Object().(*types.Func); ok {
			return fn.Origin()
		}
		if sc.Origin() != nil {
			if fn, ok := sc.Origin().Object().(*types.Func); ok {
				return fn
			}
		}
	}
	return nil
}

// isFuncNamed reports whether fn is pkgpath.name (function) or a method `recv.name` when recv != "".
func isFuncNamed(fn *types.Func, pkgpath, recv, name string) bool {
	if recv == "" {
		return calleeIs(fn, pkgpath, name)
	}
	return methodIs(fn, pkgpath, recv, name)
}

// sliceBack computes the backward data-dependence slice of v within its function: every value
// reachable through operands (calls contribute their arguments and, for closures, nothing else).
// Loads from an Alloc follow all stores to that Alloc in the function.
func sliceBack(v ssa.Value, visit func(ssa.Value) bool) {
	seen := map[ssa.Value]bool{}
	var rec func(x ssa.Value)
	rec = func(x ssa.Value) {
		if x == nil || seen[x] {
			return
		}
		seen[x] = true
		if !visit(x) {
			return
		}
		switch t := x.(type) {
		case *ssa.UnOp:
			if t.Op == token.MUL {
				// load: follow stores into the address when it is a local alloc
				if al, ok := t.X.(*ssa.Alloc); ok {
					if refs := al.Referrers(); refs != nil {
						for _, r := range *refs {
							if st, ok := r.(*ssa.Store); ok && st.Addr == al {
								rec(st.Val)
							}
						}
					}
				}
			}
		}
		if al, ok := x.(*ssa.Alloc); ok {
			for _, st := range storesInto(al) {
				rec(st)
			}
		}
		if ins, ok := x.(ssa.Instruction); ok {
			for _, op := range ins.Operands(nil) {
				if op != nil && *op != nil {
					rec(*op)
				}
			}
		}
	}
	rec(v)
}

// dependsOnCall reports whether v's backward slice contains a call satisfying pred.
func dependsOnCall(v ssa.Value, pred func(*ssa.CallCommon) bool) bool {
	found := false
	sliceBack(v, func(x ssa.Value) bool {
		if c, ok := x.(*ssa.Call); ok && pred(&c.Call) {
			found = true
		}
		return !found
	})
	return found
}

// dependsOnValue reports whether v's backward slice contains target.
func dependsOnValue(v ssa.Value, target ssa.Value) bool {
	found := false
	sliceBack(v, func(x ssa.Value) bool {
		if x == target {
			found = true
		}
		return !found
	})
	return found
}

// edgeDominates reports whether block b is only reachable through the given successor edge
// (branch true = Succs[0]) of the If terminating block `from`.
func edgeDominates(from *ssa.BasicBlock, branch bool, b *ssa.BasicBlock) bool {
	if len(from.Succs) != 2 {
		return false
	}
	idx := 1
	if branch {
		idx = 0
	}
	succ := from.Succs[idx]
	other := from.Succs[1-idx]
	if succ == other {
		return false
	}
	// the edge dominates b iff succ dominates b and succ's only predecessor path from `from` is this edge
	if !succ.Dominates(b) {
		return false
	}
	// succ must not be reachable otherwise than via this edge without passing through from…
	// a sufficient condition: every predecessor of succ is either `from` or dominated by succ (loop back edges)
	for _, p := range succ.Preds {
		if p != from && !succ.Dominates(p) {
			return false
		}
	}
	return true
}

// ifOf returns the If instruction terminating a block, or nil.
func ifOf(b *ssa.BasicBlock) *ssa.If {
	if len(b.Instrs) == 0 {
		return nil
	}
	i, _ := b.Instrs[len(b.Instrs)-1].(*ssa.If)
	return i
}

// nilCompare recognises cond = (x != nil) or (x == nil); returns x and whether true edge means non-nil.
func nilCompare(cond ssa.Value) (x ssa.Value, trueIsNonNil bool, ok bool) {
	b, isBin := cond.(*ssa.BinOp)
	if !isBin || (b.Op != token.NEQ && b.Op != token.EQL) {
		return nil, false, false
	}
	isNil := func(v ssa.Value) bool {
		c, ok := v.(*ssa.Const)
		return ok && c.IsNil()
	}
	switch {
	case isNil(b.Y):
		x = b.X
	case isNil(b.X):
		x = b.Y
	default:
		return nil, false, false
	}
	return x, b.Op == token.NEQ, true
}

// guardingEdges lists, for a block, the (If, branch) pairs whose edge dominates it.
type guardEdge struct {
	If     *ssa.If
	Branch bool
}

func guardingEdges(b *ssa.BasicBlock) []guardEdge {
	var out []guardEdge
	fn := b.Parent()
	for _, blk := range fn.Blocks {
		i := ifOf(blk)
		if i == nil {
			continue
		}
		if edgeDominates(blk, true, b) {
			out = append(out, guardEdge{i, true})
		}
		if edgeDominates(blk, false, b) {
			out = append(out, guardEdge{i, false})
		}
	}
	return out
}

// instrBefore reports whether a executes before b on every path reaching b (a dominates b).
func instrDominates(a, b ssa.Instruction) bool {
	ab, bb := a.Block(), b.Block()
	if ab == bb {
		for _, ins := range ab.Instrs {
			if ins == a {
				return true
			}
			if ins == b {
				return false
			}
		}
		return false
	}
	return ab.Dominates(bb)
}

// returnsOf lists the Return instructions of fn.
func returnsOf(fn *ssa.Function) []*ssa.Return {
	var out []*ssa.Return
	for _, b := range fn.Blocks {
		if len(b.Instrs) == 0 {
			continue
		}
		if r, ok := b.Instrs[len(b.Instrs)-1].(*ssa.Return); ok {
			out = append(out, r)
		}
	}
	return out
}

// isNilConst reports whether v is the nil constant.
func isNilConst(v ssa.Value) bool {
	c, ok := v.(*ssa.Const)
	return ok && c.IsNil()
}

// stripConv peels ChangeInterface/MakeInterface/ChangeType/Convert wrappers.
func stripConv(v ssa.Value) ssa.Value {
	for {
		switch x := v.(type) {
		case *ssa.MakeInterface:
			v = x.X
		case *ssa.ChangeInterface:
			v = x.X
		case *ssa.ChangeType:
			v = x.X
		case *ssa.Convert:
			v = x.X
		default:
			return v
		}
	}
}

// ---- interprocedural provenance ---------------------------------------------------------------

// callersIndex maps every module SSA function to its static call sites (built once).
func (p *Prog) callersIndex() map[*ssa.Function][]ssaCall {
	if p.callers != nil {
		return p.callers
	}
	idx := map[*ssa.Function][]ssaCall{}
	for _, sf := range p.SSAFuncsOf(p.ModulePkgs()) {
		for _, call := range callsDeep(sf) {
			if sc := call.Call.StaticCallee(); sc != nil {
				idx[sc] = append(idx[sc], call)
			}
		}
	}
	p.callers = idx
	return idx
}

// Origins describes where a value can come from, following parameters to the arguments of static
// callers (depth-bounded), closures' free variables to their bindings, phis, loads of fields and
// constants. Each origin is "field:<pkg>.<Type>.<field>", "const:<v>", "param:<fn>#i" (unresolved),
// "call:<callee>" or "expr:<kind>".
func (p *Prog) Origins(v ssa.Value, depth int) []string {
	set := map[string]bool{}
	seen := map[ssa.Value]bool{}
	var rec func(x ssa.Value, d int)
	rec = func(x ssa.Value, d int) {
		if x == nil || seen[x] {
			return
		}
		seen[x] = true
		x = stripConv(x)
		switch t := x.(type) {
		case *ssa.Const:
			if t.Value == nil {
				set["const:nil"] = true
			} else {
				set["const:"+t.Value.ExactString()] = true
			}
		case *ssa.Phi:
			for _, e := range t.Edges {
				rec(e, d)
			}
		case *ssa.UnOp:
			if t.Op == token.MUL {
				switch a := t.X.(type) {
				case *ssa.FieldAddr:
					set["field:"+fieldName(a.X.Type(), a.Field)] = true
					return
				case *ssa.Alloc:
					if refs := a.Referrers(); refs != nil {
						for _, r := range *refs {
							if st, ok := r.(*ssa.Store); ok && st.Addr == a {
								rec(st.Val, d)
							}
						}
					}
					return
				case *ssa.FreeVar:
					rec(a, d)
					return
				case *ssa.Global:
					set["global:"+a.Name()] = true
					return
				}
				set["expr:load"] = true
				return
			}
			if t.Op == token.NOT {
				rec(t.X, d)
				return
			}
			set["expr:unop"] = true
		case *ssa.Alloc:
			for _, st := range storesInto(t) {
				rec(st, d)
			}
		case *ssa.Field:
			set["field:"+fieldName(t.X.Type(), t.Field)] = true
		case *ssa.BinOp:
			rec(t.X, d)
			rec(t.Y, d)
		case *ssa.Parameter:
			fn := t.Parent()
			idx := -1
			for i, prm := range fn.Params {
				if prm == t {
					idx = i
				}
			}
			callers := p.callersIndex()[fn]
			if d <= 0 || len(callers) == 0 || idx < 0 {
				set[fmt.Sprintf("param:%s#%d", ssaFuncName(fn), idx)] = true
				return
			}
			for _, cs := range callers {
				if idx < len(cs.Call.Args) {
					rec(cs.Call.Args[idx], d-1)
				}
			}
		case *ssa.FreeVar:
			fn := t.Parent()
			idx := -1
			for i, fv := range fn.FreeVars {
				if fv == t {
					idx = i
				}
			}
			resolved := false
			if par := fn.Parent(); par != nil && idx >= 0 {
				for _, b := range par.Blocks {
					for _, ins := range b.Instrs {
						if mc, ok := ins.(*ssa.MakeClosure); ok && mc.Fn == fn && idx < len(mc.Bindings) {
							rec(mc.Bindings[idx], d)
							resolved = true
						}
					}
				}
			}
			if !resolved {
				set["freevar:"+t.Name()] = true
			}
		case *ssa.Call:
			if fn := staticCalleeObj(&t.Call); fn != nil {
				set["call:"+funcIDFull(fn)] = true
			} else {
				set["call:dynamic"] = true
			}
		case *ssa.Extract:
			rec(t.Tuple, d)
		default:
			set[fmt.Sprintf("expr:%T", x)] = true
		}
	}
	rec(v, depth)
	return sortedKeys(set)
}

func fieldName(t types.Type, idx int) string {
	if pt, ok := t.Underlying().(*types.Pointer); ok {
		t = pt.Elem()
	}
	name := namedPath(t)
	name = strings.TrimPrefix(name, modPath+"/")
	if st, ok := t.Underlying().(*types.Struct); ok && idx < st.NumFields() {
		return name + "." + st.Field(idx).Name()
	}
	return fmt.Sprintf("%s.#%d", name, idx)
}

// storesInto lists the values stored into an alloc or into element/field addresses derived from it
// (array literals for variadic calls, struct temporaries).
func storesInto(al *ssa.Alloc) []ssa.Value {
	var out []ssa.Value
	var visit func(addr ssa.Value, depth int)
	visit = func(addr ssa.Value, depth int) {
		refs := addr.Referrers()
		if refs == nil || depth > 3 {
			return
		}
		for _, r := range *refs {
			switch x := r.(type) {
			case *ssa.Store:
				if x.Addr == addr {
					out = append(out, x.Val)
				}
			case *ssa.IndexAddr:
				if x.X == addr {
					visit(x, depth+1)
				}
			case *ssa.FieldAddr:
				if x.X == addr {
					visit(x, depth+1)
				}
			}
		}
	}
	visit(al, 0)
	return out
}

// sliceBackDeep is sliceBack that also follows the results of static calls to functions of the module into the
// callee's return statements (so that a value produced by an extracted helper is traced to where the helper got it).
func sliceBackDeep(v ssa.Value, visit func(ssa.Value) bool) {
	seen := map[ssa.Value]bool{}
	var rec func(x ssa.Value)
	follow := func(call *ssa.Call, idx int) {
		callee := call.Call.StaticCallee()
		if callee == nil || callee.Blocks == nil || callee.Pkg == nil || !strings.HasPrefix(callee.Pkg.Pkg.Path(), modPath) {
			return
		}
		for _, r := range returnsOf(callee) {
			if idx < len(r.Results) {
				rec(r.Results[idx])
			}
		}
	}
	rec = func(x ssa.Value) {
		if x == nil || seen[x] {
			return
		}
		seen[x] = true
		if !visit(x) {
			return
		}
		switch t := x.(type) {
		case *ssa.UnOp:
			if t.Op == token.MUL {
				if al, ok := t.X.(*ssa.Alloc); ok {
					if refs := al.Referrers(); refs != nil {
						for _, r := range *refs {
							if st, ok := r.(*ssa.Store); ok && st.Addr == al {
								rec(st.Val)
							}
						}
					}
				}
			}
		case *ssa.Extract:
			if call, ok := t.Tuple.(*ssa.Call); ok {
				follow(call, t.Index)
			}
		case *ssa.Call:
			follow(t, 0)
		}
		if al, ok := x.(*ssa.Alloc); ok {
			for _, st := range storesInto(al) {
				rec(st)
			}
		}
		if ins, ok := x.(ssa.Instruction); ok {
			for _, op := range ins.Operands(nil) {
				if op != nil && *op != nil {
					rec(*op)
				}
			}
		}
	}
	rec(v)
}

func dependsOnCallDeep(v ssa.Value, pred func(*ssa.CallCommon) bool) bool {
	found := false
	sliceBackDeep(v, func(x ssa.Value) bool {
		if c, ok := x.(*ssa.Call); ok && pred(&c.Call) {
			found = true
		}
		return !found
	})
	return found
}

// reachSSA returns fn, its anonymous functions and the module functions it calls statically, transitively up to depth.
func reachSSA(fn *ssa.Function, depth int) []*ssa.Function {
	seen := map[*ssa.Function]bool{}
	var out []*ssa.Function
	var rec func(f *ssa.Function, d int)
	rec = func(f *ssa.Function, d int) {
		if f == nil || seen[f] || f.Blocks == nil {
			return
		}
		seen[f] = true
		out = append(out, f)
		for _, a := range f.AnonFuncs {
			rec(a, d)
		}
		if d == 0 {
			return
		}
		for _, call := range callsIn(f) {
			if callee := call.Call.StaticCallee(); callee != nil && callee.Pkg != nil && strings.HasPrefix(callee.Pkg.Pkg.Path(), modPath) {
				rec(callee, d-1)
			}
		}
	}
	rec(fn, depth)
	return out
}

func dependsOnValueDeep(v ssa.Value, target ssa.Value) bool {
	found := false
	sliceBackDeep(v, func(x ssa.Value) bool {
		if x == target {
			found = true
		}
		return !found
	})
	return found
}

// checkThenInsertResult describes, for one map value of a function, how comma-ok lookups relate to stores.
type checkThenInsertResult struct {
	Map           ssa.Value
	Lookups       int
	Stores        int
	StoreOnFound  bool // some store into the map is reachable only when a lookup found the key (overwrites an entry)
	ErrOnFound    bool // some return of a non-nil error is dominated by the "found" edge of a lookup
	StoreOnAbsent bool // some store is dominated by the "absent" edge of a lookup
}

// ssaCheckThenInsert analyses every map that fn looks up with the comma-ok form: `v, ok := m[k]`. It is written on
// SSA so that `if ok {…} else {…}`, `if !ok {…} else if … {…}`, early `continue`s and the like all look the same.
func ssaCheckThenInsert(fn *ssa.Function) []checkThenInsertResult {
	byMap := map[ssa.Value]*checkThenInsertResult{}
	var order []ssa.Value
	rootMap := func(v ssa.Value) ssa.Value {
		// loads of a local alloc holding the map resolve to the alloc
		if u, ok := v.(*ssa.UnOp); ok && u.Op == token.MUL {
			return u.X
		}
		return v
	}
	type found struct {
		blk    *ssa.BasicBlock
		branch bool
	}
	foundEdges := map[ssa.Value][]found{}
	for _, b := range fn.Blocks {
		for _, ins := range b.Instrs {
			lk, ok := ins.(*ssa.Lookup)
			if !ok || !lk.CommaOk {
				continue
			}
			if _, isMap := lk.X.Type().Underlying().(*types.Map); !isMap {
				continue
			}
			m := rootMap(lk.X)
			r := byMap[m]
			if r == nil {
				r = &checkThenInsertResult{Map: m}
				byMap[m] = r
				order = append(order, m)
			}
			r.Lookups++
			// the ok component and the branches on it
			if refs := lk.Referrers(); refs != nil {
				for _, ref := range *refs {
					ex, isEx := ref.(*ssa.Extract)
					if !isEx || ex.Index != 1 {
						continue
					}
					for _, ib := range fn.Blocks {
						i := ifOf(ib)
						if i == nil {
							continue
						}
						cond, pos := condPolarity(i.Cond)
						if cond == ssa.Value(ex) {
							foundEdges[m] = append(foundEdges[m], found{ib, pos})
						}
					}
				}
			}
		}
	}
	for _, b := range fn.Blocks {
		for _, ins := range b.Instrs {
			switch x := ins.(type) {
			case *ssa.MapUpdate:
				m := rootMap(x.Map)
				r := byMap[m]
				if r == nil {
					continue
				}
				r.Stores++
				for _, fe := range foundEdges[m] {
					if edgeDominates(fe.blk, fe.branch, b) {
						r.StoreOnFound = true
					}
					if edgeDominates(fe.blk, !fe.branch, b) {
						r.StoreOnAbsent = true
					}
				}
			case *ssa.Return:
				if len(x.Results) == 0 {
					continue
				}
				last := x.Results[len(x.Results)-1]
				if !isErrorType(last.Type()) || isNilConst(last) {
					continue
				}
				for m, fes := range foundEdges {
					for _, fe := range fes {
						if edgeDominates(fe.blk, fe.branch, b) {
							byMap[m].ErrOnFound = true
						}
					}
				}
			}
		}
	}
	var out []checkThenInsertResult
	for _, m := range order {
		out = append(out, *byMap[m])
	}
	return out
}

// variadicElems returns the values packed into the implicit slice of a variadic call argument (append(s, x, y),
// f(a, xs...) excluded): the builder allocates a [n]T array, stores each element and slices it.
func variadicElems(arg ssa.Value) []ssa.Value {
	sl, ok := arg.(*ssa.Slice)
	if !ok {
		return nil
	}
	al, ok := sl.X.(*ssa.Alloc)
	if !ok {
		return nil
	}
	var out []ssa.Value
	for _, ref := range *al.Referrers() {
		ia, ok := ref.(*ssa.IndexAddr)
		if !ok {
			continue
		}
		for _, r2 := range *ia.Referrers() {
			if st, ok := r2.(*ssa.Store); ok && st.Addr == ssa.Value(ia) {
				out = append(out, st.Val)
			}
		}
	}
	return out
}

// isBuiltinCall reports a call of the named builtin.
func isBuiltinCall(cc *ssa.CallCommon, name string) bool {
	b, ok := cc.Value.(*ssa.Builtin)
	return ok && b.Name() == name
}

// dependsOnCallUp is dependsOnCall that, when the value depends on a parameter of an unexported module function,
// continues into the corresponding argument of every static caller (all callers must satisfy it; depth-bounded). It is
// what keeps a value-provenance rule true after the code that consumes the value was moved into a helper.
func dependsOnCallUp(p *Prog, v ssa.Value, pred func(*ssa.CallCommon) bool, depth int) bool {
	if dependsOnCall(v, pred) {
		return true
	}
	if depth == 0 {
		return false
	}
	var params []*ssa.Parameter
	sliceBack(v, func(x ssa.Value) bool {
		if prm, ok := x.(*ssa.Parameter); ok {
			params = append(params, prm)
		}
		return true
	})
	for _, prm := range params {
		fn := prm.Parent()
		if fn == nil || fn.Object() == nil || fn.Object().Exported() {
			continue
		}
		idx := -1
		for i, q := range fn.Params {
			if q == prm {
				idx = i
			}
		}
		callers := p.callersIndex()[fn]
		if idx < 0 || len(callers) == 0 {
			continue
		}
		all := true
		for _, cs := range callers {
			if idx >= len(cs.Call.Args) || !dependsOnCallUp(p, cs.Call.Args[idx], pred, depth-1) {
				all = false
			}
		}
		if all {
			return true
		}
	}
	return false
}

// dominatedByCallUp: instr is dominated by a call satisfying pred in its own function, or its function is an
// unexported module helper all of whose call sites are (depth-bounded).
func dominatedByCallUp(p *Prog, instr ssa.Instruction, pred func(*ssa.CallCommon) bool, depth int) bool {
	f := instr.Parent()
	for _, call := range callsIn(f) {
		if pred(call.Call) && instrDominates(call.Instr, instr) {
			return true
		}
	}
	if depth == 0 || f.Object() == nil || f.Object().Exported() {
		return false
	}
	callers := p.callersIndex()[f]
	if len(callers) == 0 {
		return false
	}
	for _, cs := range callers {
		if !dominatedByCallUp(p, cs.Instr, pred, depth-1) {
			return false
		}
	}
	return true
}

// spilledResult looks through the result cell of a function with a defer: `return x, err` becomes stores to the result
// cells, rundefers, loads; the value the return statement stored (in the return's own block) is what was returned.
func spilledResult(r *ssa.Return, v ssa.Value) ssa.Value {
	u, ok := v.(*ssa.UnOp)
	if !ok || u.Op != token.MUL {
		return v
	}
	al, ok := u.X.(*ssa.Alloc)
	if !ok {
		return v
	}
	var last ssa.Value
	for _, ins := range r.Block().Instrs {
		if ins == ssa.Instruction(u) {
			break
		}
		if st, ok := ins.(*ssa.Store); ok && st.Addr == ssa.Value(al) {
			last = st.Val
		}
	}
	if last != nil {
		return last
	}
	return v
}

// dependsOnCallUpDeep is dependsOnCallUp that also looks into the results of module functions at every level (a value
// prepared by a small helper two frames up: `pwd := getCleanedPwd(); validateAll(pwd, outs)` → `validate(pwd, out)`).
func dependsOnCallUpDeep(p *Prog, v ssa.Value, pred func(*ssa.CallCommon) bool, depth int) bool {
	if dependsOnCall(v, pred) || dependsOnCallDeep(v, pred) {
		return true
	}
	if depth == 0 {
		return false
	}
	var params []*ssa.Parameter
	sliceBack(v, func(x ssa.Value) bool {
		if prm, ok := x.(*ssa.Parameter); ok {
			params = append(params, prm)
		}
		return true
	})
	for _, prm := range params {
		fn := prm.Parent()
		if fn == nil || fn.Object() == nil || fn.Object().Exported() {
			continue
		}
		idx := -1
		for i, q := range fn.Params {
			if q == prm {
				idx = i
			}
		}
		callers := p.callersIndex()[fn]
		if idx < 0 || len(callers) == 0 {
			continue
		}
		all := true
		for _, cs := range callers {
			if idx >= len(cs.Call.Args) || !dependsOnCallUpDeep(p, cs.Call.Args[idx], pred, depth-1) {
				all = false
			}
		}
		if all {
			return true
		}
	}
	return false
}
