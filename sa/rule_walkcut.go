package main

import (
	"go/token"

	"golang.org/x/tools/go/packages"
	"golang.org/x/tools/go/ssa"
)

// walkCutSites lists, in self-recursive graph walks that mark nodes in a visited set (a store into a map parameter)
// and recurse over the node's neighbours in a loop, the success returns that lie after the node was marked but before
// its neighbours were looked at: the node counts as visited, yet whatever is only reachable through it is never
// walked. "Remote modules are never part of the result" is a reason not to record the node, not a reason not to walk
// on - a local module behind a remote one is lost. The visited test itself comes before the mark and is not of this
// shape; error returns are not success returns; a walk over a list that is already the transitive closure
// (Module.ModuleDeps) is exempt, since cutting it loses nothing.
func walkCutSites(f *ssa.Function) (walk bool, cuts []*ssa.Return) {
	if len(f.Blocks) == 0 {
		return false, nil
	}
	// the recursion loop: a static self call inside a loop
	var loopHead *ssa.BasicBlock
	for _, call := range callsIn(f) {
		if call.Call.StaticCallee() != f {
			continue
		}
		b := call.Instr.Block()
		for _, h := range f.Blocks {
			if l := loopBlocks(h); l != nil && l[b] {
				if loopHead == nil || h.Dominates(loopHead) {
					loopHead = h
				}
			}
		}
	}
	if loopHead == nil {
		return false, nil
	}
	// the visited mark: a MapUpdate on a map that is a parameter, before the loop
	var marks []*ssa.MapUpdate
	for _, b := range f.Blocks {
		for _, ins := range b.Instrs {
			mu, ok := ins.(*ssa.MapUpdate)
			if !ok {
				continue
			}
			if _, isParam := stripConv(mu.Map).(*ssa.Parameter); !isParam {
				continue
			}
			if b.Dominates(loopHead) && b != loopHead {
				marks = append(marks, mu)
			}
		}
	}
	if len(marks) == 0 {
		return false, nil
	}
	first := marks[0]
	// a walk whose neighbour list is already the transitive closure loses nothing by not walking through a node: the
	// nodes behind it are in the caller's own list. Reviewed closure accessors, one line each:
	//   bufmodule.Module.ModuleDeps - documented and implemented (getModuleDepsRec) as direct and transitive deps
	for _, call := range callsIn(f) {
		if call.Call.IsInvoke() && walkClosureAccessors[call.Call.Method.Name()] && call.Instr.Block().Dominates(loopHead) {
			return true, nil
		}
	}
	// branch points between the mark and the loop with a side that never gets to the loop. The loop's own emptiness
	// test (a rotated `for i := range n` is guarded by `if 0 < n` whose other side is the code after the loop) is
	// not one of them.
	var away []*ssa.BasicBlock
	inLoop := loopBlocks(loopHead)
	for _, b := range f.Blocks {
		if ifOf(b) == nil || inLoop[b] || !b.Dominates(loopHead) || !first.Block().Dominates(b) {
			continue
		}
		guard := false
		for _, s := range b.Succs {
			if s == loopHead {
				guard = true
			}
		}
		if guard {
			continue
		}
		for _, s := range b.Succs {
			if !blockReaches(s, loopHead) {
				away = append(away, s)
			}
		}
	}
	for _, r := range returnsOf(f) {
		rb := r.Block()
		onAway := false
		for _, a := range away {
			if a.Dominates(rb) {
				onAway = true
			}
		}
		if !onAway {
			continue
		}
		// success return: no results, or an error result that is the nil constant
		success := true
		for _, res := range r.Results {
			if isErrorType(res.Type()) && !isNilConst(res) {
				success = false
			}
		}
		if success {
			cuts = append(cuts, r)
		}
	}
	return true, cuts
}

var walkClosureAccessors = map[string]bool{"ModuleDeps": true}

// ruleWalkCut (WALK-CUT): zero instances are expected.
func ruleWalkCut(c *Ctx, rule string, pkgs []*packages.Package, min int) {
	c.Rule(rule, "a recursive graph walk that has marked a node visited goes on to the node's neighbours", min)
	p := c.P
	n, walks := 0, 0
	for _, sf := range p.SSAFuncsOf(pkgs) {
		for _, f := range allSSAFuncs(sf) {
			w, cuts := walkCutSites(f)
			if !w {
				continue
			}
			walks++
			for _, r := range cuts {
				n++
				c.Ob(rule, ssaFuncName(f)+"/cut", r.Pos(), false, true, "%s returns success after marking the node visited and before recursing over its neighbours: everything reachable only through this node is never walked", ssaFuncName(f))
			}
			if len(cuts) == 0 {
				c.Ob(rule, ssaFuncName(f)+"/walks-on", f.Pos(), true, true, "%s: every success return after the visited mark comes after the loop over the neighbours", ssaFuncName(f))
			}
		}
	}
	c.Ob(rule, "functions-scanned", token.NoPos, n == 0, walks >= min, "%d recursive marked walks scanned, %d cut short", walks, n)
}
