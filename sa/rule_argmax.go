package main

import (
	"fmt"
	"go/token"
	"go/types"

	"golang.org/x/tools/go/packages"
	"golang.org/x/tools/go/ssa"
)

// argmaxSite is an `if cand <cmp> bound { selected = … }` inside a loop.
type argmaxSite struct {
	Fn       *ssa.Function
	If       *ssa.If
	Branch   bool   // the edge on which the selection is recorded
	Selected string // the loop-carried variable that records the selection
	OK       bool
	Why      string
}

// loopBlocks returns the natural loop of header h (blocks that reach a back edge into h without leaving through h),
// or nil when h is not a loop header.
func loopBlocks(h *ssa.BasicBlock) map[*ssa.BasicBlock]bool {
	in := map[*ssa.BasicBlock]bool{}
	var work []*ssa.BasicBlock
	for _, pr := range h.Preds {
		if h.Dominates(pr) {
			if !in[pr] {
				in[pr] = true
				work = append(work, pr)
			}
		}
	}
	if len(work) == 0 {
		return nil
	}
	in[h] = true
	for len(work) > 0 {
		b := work[len(work)-1]
		work = work[:len(work)-1]
		if b == h {
			continue
		}
		for _, pr := range b.Preds {
			if !in[pr] {
				in[pr] = true
				work = append(work, pr)
			}
		}
	}
	return in
}

// findArgmaxSites implements ARGMAX-LOOP on SSA. In a loop, a branch taken when a per-iteration value compares
// greater/later (or smaller/earlier) than a bound, and on which a loop-carried variable is set to something that does
// not depend on its own previous value (the selection: the element, its index), is a running arg-max. It is correct
// only if the bound is loop-carried too and is set, on the same branch, to the value it was just compared with;
// otherwise every later candidate is compared with a stale bound and the result depends on the order of the elements.
func findArgmaxSites(f *ssa.Function) []argmaxSite {
	var out []argmaxSite
	for _, h := range f.Blocks {
		loop := loopBlocks(h)
		if loop == nil {
			continue
		}
		var phis []*ssa.Phi
		for _, ins := range h.Instrs {
			if ph, ok := ins.(*ssa.Phi); ok {
				phis = append(phis, ph)
			}
		}
		if len(phis) == 0 {
			continue
		}
		inLoop := func(v ssa.Value) bool {
			ins, ok := v.(ssa.Instruction)
			return ok && ins.Block() != nil && loop[ins.Block()]
		}
		// newValueOn returns the value a header phi receives when control passes the given edge (nil: unchanged)
		newValueOn := func(ph *ssa.Phi, from *ssa.BasicBlock, branch bool) ssa.Value {
			var found ssa.Value
			seen := map[ssa.Value]bool{}
			var walk func(v ssa.Value)
			walk = func(v ssa.Value) {
				if v == nil || seen[v] || found != nil {
					return
				}
				seen[v] = true
				q, ok := v.(*ssa.Phi)
				if !ok || q == ph || !loop[q.Block()] {
					return
				}
				for i, e := range q.Edges {
					pr := q.Block().Preds[i]
					if edgeDominates(from, branch, pr) || (pr == from && from.Succs[map[bool]int{true: 0, false: 1}[branch]] == q.Block()) {
						if e != ssa.Value(ph) {
							if eq, isPhi := e.(*ssa.Phi); !(isPhi && loop[eq.Block()] && eq != ph && false) {
								found = e
								return
							}
						}
					} else {
						walk(e)
					}
				}
			}
			for i, e := range ph.Edges {
				if h.Dominates(h.Preds[i]) { // back edge
					if pr := h.Preds[i]; edgeDominates(from, branch, pr) && e != ssa.Value(ph) {
						if _, isPhi := e.(*ssa.Phi); !isPhi {
							return e
						}
					}
					walk(e)
				}
			}
			return found
		}
		for b := range loop {
			iff := ifOf(b)
			if iff == nil || !loop[b.Succs[0]] || !loop[b.Succs[1]] {
				continue // not a branch, or the loop's own exit test
			}
			cond, pos := condPolarity(iff.Cond)
			var x, y ssa.Value
			switch t := cond.(type) {
			case *ssa.BinOp:
				switch t.Op {
				case token.LSS, token.GTR, token.LEQ, token.GEQ:
					x, y = t.X, t.Y
				}
			case *ssa.Call:
				if o := staticCalleeObj(&t.Call); o != nil && (o.Name() == "After" || o.Name() == "Before") && len(t.Call.Args) == 2 {
					x, y = t.Call.Args[0], t.Call.Args[1]
				}
			}
			if x == nil {
				continue
			}
			// which side is the bound: a header phi, or a value from outside the loop; the other side is per-iteration
			isBound := func(v ssa.Value) bool {
				v = stripConv(v)
				if ph, ok := v.(*ssa.Phi); ok && ph.Block() == h {
					return true
				}
				if _, isConst := v.(*ssa.Const); isConst {
					return false
				}
				return !inLoop(v)
			}
			var cand, bound ssa.Value
			switch {
			case isBound(y) && inLoop(x) && !isBound(x):
				cand, bound = x, y
			case isBound(x) && inLoop(y) && !isBound(y):
				cand, bound = y, x
			default:
				continue
			}
			for _, branch := range []bool{true, false} {
				if branch != pos {
					continue // the recording branch is the one on which the comparison holds
				}
				var selected *ssa.Phi
				var boundPhi *ssa.Phi
				if bp, ok := stripConv(bound).(*ssa.Phi); ok && bp.Block() == h {
					boundPhi = bp
				}
				for _, ph := range phis {
					if ph == boundPhi {
						continue
					}
					nv := newValueOn(ph, b, branch)
					if nv == nil {
						continue
					}
					if _, isConst := nv.(*ssa.Const); isConst {
						continue // a flag
					}
					if dependsOnValue(nv, ph) {
						continue // an accumulator (count+1, append(list, x)), not a selection
					}
					if bt, ok := ph.Type().Underlying().(*types.Basic); ok && bt.Info()&types.IsBoolean != 0 {
						continue
					}
					selected = ph
					break
				}
				if selected == nil {
					continue
				}
				site := argmaxSite{Fn: f, If: iff, Branch: branch, Selected: selected.Comment}
				switch {
				case boundPhi == nil:
					site.Why = "the bound it is compared with is never updated in the loop"
				default:
					nv := newValueOn(boundPhi, b, branch)
					switch {
					case nv == nil:
						site.Why = "the bound is loop-carried but not updated on the branch that records the selection"
					case sameSSAExpr(nv, cand, 4) || dependsOnValue(nv, stripConv(cand)):
						site.OK = true
						site.Why = "the bound is set to the value just compared"
					default:
						site.Why = "the bound is updated on that branch, but not to the value that was compared"
					}
				}
				out = append(out, site)
			}
		}
	}
	return out
}

// sameSSAExpr reports whether two values are the same expression: identical, or the same side-effect-free operation
// (len, field load, index, accessor call without arguments) on the same operands - go/ssa does no common-subexpression
// elimination, so `len(x.p) > best` followed by `best = len(x.p)` are two instructions.
func sameSSAExpr(a, b ssa.Value, depth int) bool {
	a, b = stripConv(a), stripConv(b)
	if a == b {
		return true
	}
	if depth == 0 || a == nil || b == nil {
		return false
	}
	switch x := a.(type) {
	case *ssa.Call:
		y, ok := b.(*ssa.Call)
		if !ok || len(x.Call.Args) != len(y.Call.Args) {
			return false
		}
		if bx, ok := x.Call.Value.(*ssa.Builtin); ok {
			by, ok := y.Call.Value.(*ssa.Builtin)
			if !ok || bx.Name() != by.Name() || (bx.Name() != "len" && bx.Name() != "cap") {
				return false
			}
		} else if x.Call.IsInvoke() {
			if !y.Call.IsInvoke() || x.Call.Method != y.Call.Method || len(x.Call.Args) != 0 || !sameSSAExpr(x.Call.Value, y.Call.Value, depth-1) {
				return false
			}
		} else {
			ox, oy := staticCalleeObj(&x.Call), staticCalleeObj(&y.Call)
			if ox == nil || ox != oy || len(x.Call.Args) > 1 {
				return false
			}
		}
		for i := range x.Call.Args {
			if !sameSSAExpr(x.Call.Args[i], y.Call.Args[i], depth-1) {
				return false
			}
		}
		return true
	case *ssa.UnOp:
		y, ok := b.(*ssa.UnOp)
		return ok && x.Op == y.Op && sameSSAExpr(x.X, y.X, depth-1)
	case *ssa.FieldAddr:
		y, ok := b.(*ssa.FieldAddr)
		return ok && x.Field == y.Field && sameSSAExpr(x.X, y.X, depth-1)
	case *ssa.Field:
		y, ok := b.(*ssa.Field)
		return ok && x.Field == y.Field && sameSSAExpr(x.X, y.X, depth-1)
	case *ssa.IndexAddr:
		y, ok := b.(*ssa.IndexAddr)
		return ok && sameSSAExpr(x.X, y.X, depth-1) && sameSSAExpr(x.Index, y.Index, depth-1)
	}
	return false
}

// ruleArgmax records one obligation per running arg-max found in pkgs.
func ruleArgmax(c *Ctx, rule string, pkgs []*packages.Package, min int) {
	c.Rule(rule, "a running maximum is updated together with the element it selects", min)
	p := c.P
	for _, sf := range p.SSAFuncsOf(pkgs) {
		for _, f := range allSSAFuncs(sf) {
			// several conditions may guard one recording branch (`if eligible(x) && len(x) > best`): the selection is a
			// correct arg-max when one of them is a comparison with a bound that is updated to the compared value
			bySel := map[string][]argmaxSite{}
			var order []string
			for _, s := range findArgmaxSites(f) {
				if _, ok := bySel[s.Selected]; !ok {
					order = append(order, s.Selected)
				}
				bySel[s.Selected] = append(bySel[s.Selected], s)
			}
			for _, sel := range order {
				sites := bySel[sel]
				best := sites[0]
				for _, s := range sites {
					if s.OK {
						best = s
					}
				}
				c.Ob(rule, fmt.Sprintf("%s/argmax(%s)", ssaFuncName(f), sel), best.If.Pos(), best.OK, true,
					"the branch records the selection in %s; %s (a stale bound makes the selection depend on the order in which the elements are visited)", sel, best.Why)
			}
		}
	}
}
