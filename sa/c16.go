package main

// C16 — configuration files round-trip; migration preserves behaviour (field/accessor coverage only).

import (
	"fmt"
	"go/ast"
	"go/token"
	"go/types"
	"golang.org/x/tools/go/packages"
	"golang.org/x/tools/go/ssa"
	"strings"
)

func init() {
	register(&propCheck{
		ID: "C16",
		Explanation: "Coverage obligations that make a lossless round trip possible: (1) R-FIELDCOV — for every external (YAML/JSON) struct of bufconfig, every field the readers consume " +
			"is also produced by a writer (assignment target or composite-literal key) and vice versa, except families that are read-only by design (buf.gen.yaml v1/v1beta1, which " +
			"the writer always re-emits as v2) and a frozen, reasoned list; (2) R-ACCESSORCOV — every exported method of the config interfaces that reach the writers' static call " +
			"closure is called there (calls on the concrete implementations count), with reasoned exceptions for metadata and derived values; (3) the v2 buf.yaml writer's collapse " +
			"of a single '.' module is fully guarded: every field of the dropped element is tested in the guard, hoisted in the branch, or zeroed-and-hoisted earlier; (4) every " +
			"switch over FileVersion in bufconfig covers all versions or has an error default; (5) writer determinism is an obligation of C02 (R-MAPORDER instances in bufconfig and " +
			"bufmigrate). NOT decided: value-level equality after write+read, and all of migration equivalence (images and check results before/after `buf config migrate`).",
		Assumptions: []string{"YAML marshalling of the external structs is lossless"},
		Run:         runC16,
	})
}

// struct families the writers never emit, with the reason
var c16ReadOnlyFamilies = []struct{ prefix, reason string }{
	{"externalBufGenYAMLFileV1", "buf.gen.yaml v1/v1beta1 are only read; writeBufGenYAMLFile always writes v2"},
	{"externalGeneratePluginConfigV1", "plugin entries of buf.gen.yaml v1/v1beta1: read-only"},
	{"externalGenerateManagedConfigV1", "managed section of buf.gen.yaml v1/v1beta1: read-only"},
	{"externalTypesConfigV1", "v1 top-level types: read-only (translated by bufmigrate)"},
	{"externalFileVersion", "version probe used to dispatch on the file version"},
}

// per-field exceptions "Type.Field" → reason
var c16FieldExceptions = map[string]string{
	"externalBufLockFileDepV1Beta1V1.Branch":     "legacy field kept only so that strict parsing accepts old lock files; ignored on read and never written",
	"externalBufLockFileDepV1Beta1V1.CreateTime": "legacy field kept only so that strict parsing accepts old lock files; ignored on read and never written",
	"externalInputConfigV2.Tag":                  "alias of commit: the reader folds tag into CommitOrTag and the writer emits it as commit",
}

// accessor exceptions "Iface.Method" → reason
var c16AccessorExceptions = map[string]string{
	"FileType":                           "file metadata, not content",
	"ObjectData":                         "provenance of the bytes that were read, not content",
	"LintConfig.FileVersion":             "version of the enclosing file, written once at the top",
	"BreakingConfig.FileVersion":         "version of the enclosing file, written once at the top",
	"CheckConfig.FileVersion":            "version of the enclosing file, written once at the top",
	"BufGenYAMLFile.FileVersion":         "the writer always emits v2",
	"BufYAMLFile.TopLevelLintConfig":     "defaults already folded into every ModuleConfig by the reader; the writer re-derives the hoisting",
	"BufYAMLFile.TopLevelBreakingConfig": "defaults already folded into every ModuleConfig by the reader; the writer re-derives the hoisting",
	"GenerateConfig.GenerateTypeConfig":  "v1-only top-level type filter without a v2 top-level key; bufmigrate moves it to the inputs before writing",
	"GeneratePluginConfig.Opt":           "the writer reads the underlying opts field to keep the scalar/list form",
	"GeneratePluginConfig.Strategy":      "the writer reads the underlying strategy pointer to keep 'unset'",
	"GeneratePluginConfig.RemoteHost":    "derived from Name()",
	"PluginConfig.Ref":                   "derived from Name() (remote plugins)",
	"PluginConfig.Type":                  "derived from Name()/Args()",
}

func runC16(c *Ctx) {
	p := c.P
	c.Rule("R-FIELDCOV", "every external config field that is read is also written, and conversely", 150)
	c.Rule("R-ACCESSORCOV", "every accessor of the config interfaces is consulted by the writers", 60)
	c.Rule("COLLAPSE-GUARD", "the lossy collapse of the single root module is guarded on every field it would drop", 4)
	c.Rule("VERSION-SWITCH", "switches over FileVersion are total or fail loudly", 8)
	c16MigrateCoverage(c)
	c16PathsRerooted(c)
	c16WriterIndependent(c)
	c16TablesInverse(c)
	c16FilterAfterMap(c, "FILTER-AFTER-MAP")
	c16BinaryBeforeBuiltin(c)
	c16MigrateUseList(c)
	c16DeletePaired(c)
	c16RebaseKeepsAll(c)
	c16NameFromWholeRef(c)
	c16DeprecationsComplete(c)
	if q := c.P.Pkg("private/bufpkg/bufconfig"); q != nil {
		c16SectionsKept(c, q)
	}
	c16HoistCountsAll(c)
	{
		// module-wide: the config constructors are called from the commands, the migration, the workspace and the generators
		pkgs := c.P.ModulePkgs()
		ruleArgsNamesake(c, "ARGS-NAMESAKE", pkgs, 20)
	}
	pk := p.Pkg("private/bufpkg/bufconfig")
	if pk == nil {
		c.Fail("R-FIELDCOV", "anchor", token.NoPos, "bufconfig not found")
		return
	}
	sel := func(tn string) bool { return strings.HasPrefix(tn, "external") }
	reads, writes := structFieldUses(p, pk, sel)
	for _, f := range allStructFields(pk, sel) {
		tn := f[:strings.Index(f, ".")]
		fn := f[strings.Index(f, ".")+1:]
		pos := token.NoPos
		if obj := pk.Types.Scope().Lookup(tn); obj != nil {
			pos = obj.Pos()
		}
		if why, ok := c16FieldExceptions[f]; ok {
			c.Ob("R-FIELDCOV", f, pos, true, false, "reviewed exception: %s (reads=%d writes=%d)", why, reads[f], writes[f])
			continue
		}
		ro := ""
		for _, fam := range c16ReadOnlyFamilies {
			if strings.HasPrefix(tn, fam.prefix) {
				ro = fam.reason
			}
		}
		// helper types nested only in read-only families
		if ro == "" && strings.HasSuffix(tn, "ConfigV1") {
			ro = "nested option type of the read-only buf.gen.yaml v1 managed section"
		}
		switch {
		case ro != "":
			ok := reads[f] > 0 || fn == "Version"
			c.Ob("R-FIELDCOV", f, pos, ok, true, "read-only family (%s): consumed by a reader: %v", ro, ok)
		case fn == "Version":
			c.Ob("R-FIELDCOV", f, pos, writes[f] > 0, true, "version is written here and read through the generic externalFileVersion probe: writes=%d", writes[f])
		default:
			ok := reads[f] > 0 && writes[f] > 0
			msg := "read and written"
			if reads[f] > 0 && writes[f] == 0 {
				msg = "accepted by the reader but never written back: the value is lost on write"
			} else if reads[f] == 0 && writes[f] > 0 {
				msg = "written but never read: the value is lost on read"
			} else if reads[f] == 0 && writes[f] == 0 {
				msg = "neither read nor written"
			}
			c.Ob("R-FIELDCOV", f, pos, ok, true, "%s (reads=%d writes=%d)", msg, reads[f], writes[f])
		}
	}
	// (2) accessors
	entries := []string{"writeBufYAMLFile", "writeBufLockFile", "writeBufGenYAMLFile", "writeBufWorkYAMLFile"}
	found := 0
	for _, e := range entries {
		if p.Func("private/bufpkg/bufconfig", e) != nil {
			found++
		}
	}
	if found != len(entries) {
		c.Fail("R-ACCESSORCOV", "entries", token.NoPos, "only %d of the %d writer entry points found", found, len(entries))
	}
	uncalled := map[string]bool{}
	for _, u := range uncalledAccessors(p, pk, entries) {
		uncalled[u] = true
	}
	// enumerate all accessors of interfaces used by the writers (same enumeration as uncalledAccessors): list via scope
	for _, name := range pk.Types.Scope().Names() {
		obj, ok := pk.Types.Scope().Lookup(name).(*types.TypeName)
		if !ok || !obj.Exported() {
			continue
		}
		it, ok := obj.Type().Underlying().(*types.Interface)
		if !ok {
			continue
		}
		if !c16IsConfigIface(name) {
			continue
		}
		for i := 0; i < it.NumMethods(); i++ {
			m := it.Method(i)
			if !m.Exported() {
				continue
			}
			key := name + "." + m.Name()
			if !uncalled[key] {
				c.Ob("R-ACCESSORCOV", key, m.Pos(), true, false, "consulted inside the writers' call closure")
				continue
			}
			why := c16AccessorExceptions[key]
			if why == "" {
				why = c16AccessorExceptions[m.Name()]
			}
			if why != "" {
				c.Ob("R-ACCESSORCOV", key, m.Pos(), true, false, "not consulted, reviewed: %s", why)
				continue
			}
			c.Ob("R-ACCESSORCOV", key, m.Pos(), false, true, "accessor %s is never consulted by any writer: whatever the reader stored behind it is dropped when the file is written", key)
		}
	}
	c16Collapse(c)
	// (4) FileVersion switches
	for _, es := range findEnumSwitches(p, pk) {
		if namedName(es.Type) != "FileVersion" {
			continue
		}
		ok := len(es.Missing) == 0 || (es.HasDefault && es.DefaultErr)
		c.Ob("VERSION-SWITCH", es.Fn+"/switch FileVersion", es.Switch.Pos(), ok, len(es.Missing) > 0, "missing %v, default=%v", es.Missing, es.HasDefault)
	}
	c16Extra(c)
}

func c16IsConfigIface(name string) bool {
	switch name {
	case "BufYAMLFile", "ModuleConfig", "LintConfig", "BreakingConfig", "CheckConfig", "PluginConfig", "BufLockFile", "BufGenYAMLFile", "BufWorkYAMLFile",
		"GenerateConfig", "GenerateManagedConfig", "GeneratePluginConfig", "InputConfig", "GenerateTypeConfig", "ManagedDisableRule", "ManagedOverrideRule":
		return true
	}
	return false
}

// c16Collapse: `X.Modules = []T{}` guarded by a condition on X.Modules[0]: every field of T is accounted for.
func c16Collapse(c *Ctx) {
	p := c.P
	fr := p.Func("private/bufpkg/bufconfig", "writeBufYAMLFile")
	if fr == nil {
		c.Fail("COLLAPSE-GUARD", "writeBufYAMLFile", token.NoPos, "not found")
		return
	}
	found := false
	// the collapse may live in writeBufYAMLFile or in a helper of the package it calls
	deepInspect(p, fr, 2, func(n ast.Node, info *types.Info) bool {
		ifs, ok := n.(*ast.IfStmt)
		if !ok {
			return true
		}
		// the branch assigns an empty literal to a slice-of-struct field
		var target *ast.SelectorExpr
		var elem *types.Struct
		var elemName string
		for _, st := range ifs.Body.List {
			as, ok := st.(*ast.AssignStmt)
			if !ok || len(as.Lhs) != 1 || len(as.Rhs) != 1 {
				continue
			}
			cl, ok := as.Rhs[0].(*ast.CompositeLit)
			if !ok || len(cl.Elts) != 0 {
				continue
			}
			se, ok := as.Lhs[0].(*ast.SelectorExpr)
			if !ok {
				continue
			}
			if sl, ok := info.TypeOf(se).Underlying().(*types.Slice); ok {
				if st, ok := sl.Elem().Underlying().(*types.Struct); ok {
					target, elem, elemName = se, st, namedName(sl.Elem())
				}
			}
		}
		if target == nil {
			return true
		}
		found = true
		tstr := exprString(target)
		ownerName := namedName(info.TypeOf(target.X))
		listField := target.Sel.Name
		encl := p.EnclosingFuncDecl(ifs)
		// aliases of the first element: `m := X.Modules[0]`
		aliases := map[string]bool{tstr + "[0]": true}
		if encl != nil {
			ast.Inspect(encl.Body, func(m ast.Node) bool {
				if as, ok := m.(*ast.AssignStmt); ok && len(as.Lhs) == 1 && len(as.Rhs) == 1 && exprString(as.Rhs[0]) == tstr+"[0]" {
					if id, ok := as.Lhs[0].(*ast.Ident); ok {
						aliases[id.Name] = true
					}
				}
				return true
			})
		}
		mentions := func(e ast.Node, f string) bool {
			hit := false
			ast.Inspect(e, func(m ast.Node) bool {
				if se, ok := m.(*ast.SelectorExpr); ok && se.Sel.Name == f && aliases[exprString(se.X)] {
					hit = true
				}
				return true
			})
			return hit
		}
		// conditions that guard the collapse: the if itself and every enclosing if of the same function
		var guards []ast.Expr
		guards = append(guards, ifs.Cond)
		for q := p.Parent(ifs); q != nil && encl != nil && q != ast.Node(encl); q = p.Parent(q) {
			if oi, ok := q.(*ast.IfStmt); ok {
				guards = append(guards, oi.Cond)
			}
		}
		for i := 0; i < elem.NumFields(); i++ {
			f := elem.Field(i).Name()
			how := ""
			for _, gd := range guards {
				if mentions(gd, f) {
					how = "tested in the guard"
				}
			}
			if how == "" {
				// hoisted in the branch: some assignment's right-hand side mentions Modules[0].F
				for _, st := range ifs.Body.List {
					if as, ok := st.(*ast.AssignStmt); ok {
						for _, r := range as.Rhs {
							if mentions(r, f) {
								how = "hoisted to the top level in the branch"
							}
						}
					}
				}
			}
			if how == "" {
				// zeroed for every element and hoisted under the like-named top-level field, earlier in the same function
				// or in a helper of the writer (matched by the owner type and field names, not by variable names)
				zeroed, hoisted := false, false
				deepInspect(p, fr, 2, func(m ast.Node, minfo *types.Info) bool {
					as, ok := m.(*ast.AssignStmt)
					if !ok || len(as.Lhs) != 1 || len(as.Rhs) != 1 {
						return true
					}
					if p.EnclosingFuncDecl(as) == encl && as.Pos() > ifs.Pos() {
						return true
					}
					se, ok := ast.Unparen(as.Lhs[0]).(*ast.SelectorExpr)
					if !ok || se.Sel.Name != f {
						return true
					}
					switch x := ast.Unparen(se.X).(type) {
					case *ast.IndexExpr:
						if ls, ok := ast.Unparen(x.X).(*ast.SelectorExpr); ok && ls.Sel.Name == listField && namedName(minfo.TypeOf(ls.X)) == ownerName {
							if cl, ok := as.Rhs[0].(*ast.CompositeLit); ok && len(cl.Elts) == 0 {
								zeroed = true
							}
						}
					default:
						if namedName(minfo.TypeOf(se.X)) == ownerName {
							hoisted = true
						}
					}
					return true
				})
				if zeroed && hoisted {
					how = "hoisted to the like-named top-level field and zeroed in every element beforehand (always taken when there is a single module)"
				}
			}
			c.Ob("COLLAPSE-GUARD", fmt.Sprintf("writeBufYAMLFile/%s.%s", elemName, f), ifs.Pos(), how != "", true,
				"field %s of the collapsed module entry: %s", f, map[bool]string{true: how, false: "neither tested in the guard, nor hoisted, nor zeroed: it is silently dropped when the module list is collapsed"}[how != ""])
		}
		return true
	})
	if !found {
		c.Fail("COLLAPSE-GUARD", "writeBufYAMLFile/collapse", fr.Decl.Pos(), "no collapse of the module list found")
	}
}

// accessors a v1->v2 conversion need not consult
var c16MigrateNotConsulted = map[string]string{
	"FileVersion": "the result is a v2 configuration by construction",
}

// c16MigrateCoverage (MIGRATE-ACCESSORCOV, added after finding F24): a function of bufmigrate that turns a v1 or
// v1beta1 configuration value into its v2 equivalent (equivalent…InV2) consults every attribute of its input: each
// exported niladic method of the parameter's interface is called on the parameter, or the parameter is handed whole
// to another such conversion whose input interface has the method. An attribute that is not consulted cannot be
// preserved (Disabled() was not: switched-off checks came back on).
func c16MigrateCoverage(c *Ctx) {
	const rule = "MIGRATE-ACCESSORCOV"
	c.Rule(rule, "the v1->v2 conversions of bufmigrate consult every attribute of the configuration they convert", 15)
	p := c.P
	pk := p.Pkg("private/buf/bufmigrate")
	if pk == nil {
		c.Fail(rule, "anchor", token.NoPos, "bufmigrate not found")
		return
	}
	info := pk.TypesInfo
	type conv struct {
		fr    *FuncRef
		param *types.Var
		iface *types.Interface
		name  string
	}
	convs := map[*types.Func]*conv{}
	for _, fr := range p.FuncsOf(pk) {
		n := fr.Decl.Name.Name
		if !strings.HasPrefix(n, "equivalent") || !strings.HasSuffix(n, "InV2") || fr.Decl.Body == nil {
			continue
		}
		for _, fl := range fr.Decl.Type.Params.List {
			for _, nm := range fl.Names {
				v, _ := info.Defs[nm].(*types.Var)
				if v == nil {
					continue
				}
				if it, ok := v.Type().Underlying().(*types.Interface); ok && strings.HasSuffix(namedPath(v.Type()), "bufconfig."+namedName(v.Type())) {
					fobj, _ := info.Defs[fr.Decl.Name].(*types.Func)
					convs[fobj] = &conv{fr, v, it, namedName(v.Type())}
				}
			}
		}
	}
	if len(convs) < 3 {
		c.Fail(rule, "conversions", token.NoPos, "only %d equivalent…InV2 conversions found in bufmigrate", len(convs))
	}
	for _, cv := range convs {
		called := map[string]bool{}
		var delegated []*conv
		ast.Inspect(cv.fr.Decl.Body, func(n ast.Node) bool {
			call, ok := n.(*ast.CallExpr)
			if !ok {
				return true
			}
			if sel, ok := call.Fun.(*ast.SelectorExpr); ok && identObj(info, sel.X) == types.Object(cv.param) {
				called[sel.Sel.Name] = true
			}
			if fn := Callee(info, call); fn != nil {
				if d, ok := convs[fn]; ok {
					for _, a := range call.Args {
						if identObj(info, a) == types.Object(cv.param) {
							delegated = append(delegated, d)
						}
					}
				}
			}
			return true
		})
		for i := 0; i < cv.iface.NumMethods(); i++ {
			m := cv.iface.Method(i)
			sig := m.Type().(*types.Signature)
			if !m.Exported() || sig.Params().Len() != 0 || sig.Results().Len() == 0 {
				continue
			}
			key := cv.fr.Decl.Name.Name + "/" + cv.name + "." + m.Name()
			if why, ok := c16MigrateNotConsulted[m.Name()]; ok && !called[m.Name()] {
				c.Ob(rule, key, cv.fr.Decl.Pos(), true, false, "not consulted, reviewed: %s", why)
				continue
			}
			ok := called[m.Name()]
			via := "called on the parameter"
			if !ok {
				for _, d := range delegated {
					for j := 0; j < d.iface.NumMethods(); j++ {
						if d.iface.Method(j).Name() == m.Name() {
							ok = true
							via = "the parameter is handed whole to " + d.fr.Decl.Name.Name
						}
					}
				}
			}
			if !ok {
				via = "never consulted: the attribute cannot survive the migration"
			}
			c.Ob(rule, key, cv.fr.Decl.Pos(), ok, true, "%s.%s(): %s", cv.name, m.Name(), via)
		}
	}
}

// c16PathsRerooted (WRITE-PATHS-REROOTED, round 2): in a v2 buf.yaml the ignore paths of a module are written relative
// to the workspace, while the in-memory configs hold them relative to the module. The writer helpers take the module
// directory and define a closure that joins a path onto it. Every value obtained from a *Paths() accessor (directly, or
// as the range value over the accessor's map) that is stored into an external struct must pass through that closure:
// a list stored as it is reads back, after a round trip, as paths under the workspace root instead of the module.
func c16PathsRerooted(c *Ctx) {
	const rule = "WRITE-PATHS-REROOTED"
	c.Rule(rule, "module-relative path lists are joined onto the module directory when a workspace buf.yaml is written", 2)
	p := c.P
	pk := p.Pkg("private/bufpkg/bufconfig")
	if pk == nil {
		c.Fail(rule, "anchor", token.NoPos, "bufconfig not found")
		return
	}
	info := pk.TypesInfo
	for _, fr := range p.FuncsOf(pk) {
		if fr.Decl.Body == nil || fr.Decl.Type.Params == nil {
			continue
		}
		// the module-directory parameter and the joining closure
		var dirParam types.Object
		for _, f := range fr.Decl.Type.Params.List {
			for _, nm := range f.Names {
				if strings.HasSuffix(nm.Name, "DirPath") {
					dirParam = info.Defs[nm]
				}
			}
		}
		if dirParam == nil {
			continue
		}
		joiners := map[types.Object]bool{}
		ast.Inspect(fr.Decl.Body, func(n ast.Node) bool {
			as, ok := n.(*ast.AssignStmt)
			if !ok || len(as.Lhs) != 1 || len(as.Rhs) != 1 {
				return true
			}
			fl, ok := as.Rhs[0].(*ast.FuncLit)
			if !ok {
				return true
			}
			joins := false
			ast.Inspect(fl.Body, func(m ast.Node) bool {
				if call, ok := m.(*ast.CallExpr); ok && calleeIs(Callee(info, call), "private/pkg/normalpath", "Join") && len(call.Args) >= 1 && identObj(info, call.Args[0]) == dirParam {
					joins = true
				}
				return true
			})
			if joins {
				if o := identObj(info, as.Lhs[0]); o != nil {
					joiners[o] = true
				}
			}
			return true
		})
		// a join written in place (anonymous closure or loop) counts like the named closure
		isDirectJoin := func(m ast.Node) bool {
			call, ok := m.(*ast.CallExpr)
			return ok && calleeIs(Callee(info, call), "private/pkg/normalpath", "Join") && len(call.Args) >= 1 && identObj(info, call.Args[0]) == dirParam
		}
		anyJoin := len(joiners) > 0
		ast.Inspect(fr.Decl.Body, func(m ast.Node) bool {
			if isDirectJoin(m) {
				anyJoin = true
			}
			return true
		})
		if !anyJoin {
			continue
		}
		isPathsCall := func(e ast.Expr) bool {
			call, ok := ast.Unparen(e).(*ast.CallExpr)
			if !ok {
				return false
			}
			sel, ok := ast.Unparen(call.Fun).(*ast.SelectorExpr)
			return ok && strings.HasSuffix(sel.Sel.Name, "Paths") && len(call.Args) == 0
		}
		// range values over a *Paths() accessor
		sources := map[types.Object]bool{}
		ast.Inspect(fr.Decl.Body, func(n ast.Node) bool {
			if rs, ok := n.(*ast.RangeStmt); ok && isPathsCall(rs.X) && rs.Value != nil {
				if o := identObj(info, rs.Value); o != nil {
					sources[o] = true
				}
			}
			return true
		})
		mentions := func(e ast.Expr) (src, joined bool) {
			ast.Inspect(e, func(m ast.Node) bool {
				switch x := m.(type) {
				case *ast.Ident:
					if o := info.Uses[x]; o != nil {
						if sources[o] {
							src = true
						}
						if joiners[o] {
							joined = true
						}
					}
				case *ast.CallExpr:
					if isDirectJoin(x) {
						joined = true
					}
					if id, ok := ast.Unparen(x.Fun).(*ast.Ident); ok && (id.Name == "len" || id.Name == "cap") {
						return false // only the size is used
					}
					if isPathsCall(x) {
						if _, isMap := info.TypeOf(x).Underlying().(*types.Map); !isMap {
							src = true
						}
					}
				}
				return true
			})
			return
		}
		k := 0
		ast.Inspect(fr.Decl.Body, func(n ast.Node) bool {
			as, ok := n.(*ast.AssignStmt)
			if !ok || len(as.Lhs) != len(as.Rhs) {
				return true
			}
			for i, l := range as.Lhs {
				// the target: a field of an external struct, or (when the block was moved into a helper) a local or
				// named result that carries the list out of the function
				root := ast.Unparen(l)
				if ix, ok := root.(*ast.IndexExpr); ok {
					root = ast.Unparen(ix.X)
				}
				name := ""
				switch t := root.(type) {
				case *ast.SelectorExpr:
					if !strings.HasPrefix(namedName(info.TypeOf(t.X)), "external") {
						continue
					}
					name = t.Sel.Name
				case *ast.Ident:
					name = t.Name
				default:
					continue
				}
				src, joined := mentions(as.Rhs[i])
				if !src {
					continue
				}
				k++
				c.Ob(rule, fr.Decl.Name.Name+"/"+name, as.Pos(), joined, true, "%s is written from a module-relative path list through the joining closure: %v", exprString(l), joined)
			}
			return true
		})
	}
}

// c16WriterIndependent (WRITE-INDEPENDENT, round 2): the writers turn each attribute of a config into its own key. An
// attribute A written only on the edge where a *different* string attribute B is empty (an if / else-if or switch
// chain over presence tests) silently drops A whenever both are set - e.g. a git input with both `branch` and `ref`.
// Decided on SSA for every store into an external* struct in bufconfig: no guarding edge of the store is the "empty"
// edge of a presence test (x == "" / x != "") on another accessor of the same config value.
func c16WriterIndependent(c *Ctx) {
	const rule = "WRITE-INDEPENDENT"
	c.Rule(rule, "an attribute is not written only when another attribute is absent", 20)
	p := c.P
	pk := p.Pkg("private/bufpkg/bufconfig")
	if pk == nil {
		c.Fail(rule, "anchor", token.NoPos, "bufconfig not found")
		return
	}
	accessorOf := func(v ssa.Value) (recv ssa.Value, name string) {
		sliceBack(v, func(x ssa.Value) bool {
			if call, ok := x.(*ssa.Call); ok && call.Call.IsInvoke() && len(call.Call.Args) == 0 && name == "" {
				recv, name = call.Call.Value, call.Call.Method.Name()
			}
			return name == ""
		})
		return
	}
	for _, sf := range p.SSAFuncsOf([]*packages.Package{pk}) {
		for _, f := range allSSAFuncs(sf) {
			for _, b := range f.Blocks {
				for _, ins := range b.Instrs {
					st, ok := ins.(*ssa.Store)
					if !ok {
						continue
					}
					fa, ok := st.Addr.(*ssa.FieldAddr)
					if !ok {
						continue
					}
					pt, ok := fa.X.Type().Underlying().(*types.Pointer)
					if !ok || !strings.HasPrefix(namedName(pt.Elem()), "external") {
						continue
					}
					recv, acc := accessorOf(st.Val)
					if acc == "" {
						continue
					}
					field := pt.Elem().Underlying().(*types.Struct).Field(fa.Field).Name()
					var foreign []string
					for _, ge := range guardingEdges(b) {
						bin, ok := ge.If.Cond.(*ssa.BinOp)
						if !ok || (bin.Op != token.EQL && bin.Op != token.NEQ) {
							continue
						}
						other := bin.X
						if isConstString(bin.X, "") {
							other = bin.Y
						} else if !isConstString(bin.Y, "") {
							continue
						}
						call, ok := other.(*ssa.Call)
						if !ok || !call.Call.IsInvoke() || call.Call.Value != recv || call.Call.Method.Name() == acc {
							continue
						}
						// the edge on which `other` is empty
						if ge.Branch == (bin.Op == token.EQL) {
							foreign = append(foreign, call.Call.Method.Name())
						}
					}
					c.Ob(rule, ssaFuncName(f)+"/"+namedName(pt.Elem())+"."+field, st.Pos(), len(foreign) == 0, true, "%s (from %s()) is written regardless of other attributes: %v %v", field, acc, len(foreign) == 0, foreign)
				}
			}
		}
	}
}
