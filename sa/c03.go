package main

// C03 — no documented breaking change goes unreported (registry, matching keys, directions, tables).

import (
	"fmt"
	"go/ast"
	"go/token"
	"go/types"
	"strings"

	"golang.org/x/tools/go/packages"
)

func init() {
	register(&propCheck{
		ID: "C03",
		Explanation: "Structural necessary conditions of 'no false negative': (1) registry integrity — every breaking RuleSpecBuilder has a handler variable of bufcheckserverhandle " +
			"whose name agrees with the rule ID and with the builder variable (catches cross-wiring), IDs are unique, every non-deprecated breaking builder is listed in each of " +
			"V1Beta1Spec/V1Spec/V2Spec, deprecated builders name existing non-deprecated replacements; (2) R-LABEL — with labels current/previous seeded at " +
			"Request.ProtosourceFiles()/AgainstProtosourceFiles() and propagated through index builders, map index, range and helper parameters, each pair adapter invokes its " +
			"callback as f(w, req, <current>, <previous>) where the current element was looked up in the current index with the previous key; (3) every " +
			"'range X / lookup in Y / annotate on not-found' loop of the handlers ranges over previous and looks up in current (deletions are detected in the right direction), " +
			"keyed by the range key, with the single documented two-direction rule listed; (4) AddProtosourceAnnotation locations: argument 0 is current or nil, argument 1 previous; " +
			"(5) from every registered breaking handler an annotation call is reachable in the static call graph; (6) the wire and wire+JSON compatibility tables have a key for " +
			"every protoreflect.Kind and enum switches in the handlers cover their enum or have a default. NOT decided: that each predicate implements the documented notion of breaking.",
		Assumptions: []string{"index builders of bufprotosource are pure functions of their file arguments", "the rule ID is the documented contract of a rule"},
		Run:         runC03,
	})
}

func checkPkgs(p *Prog) []*packages.Package {
	var out []*packages.Package
	for _, rel := range []string{pkgCheckHandle, pkgCheckUtil} {
		if pk := p.Pkg(rel); pk != nil {
			out = append(out, pk)
		}
	}
	return out
}

// seedHandlerParams labels params 2/3 of functions bound to *Pair* adapters.
func seedHandlerParams(l *labeler, t *checkTables) func() {
	return func() {
		// literals handed directly to a pair adapter (adapters built on adapters)
		for _, pk := range l.pkgs {
			info := pk.TypesInfo
			for _, f := range pk.Syntax {
				ast.Inspect(f, func(n ast.Node) bool {
					call, ok := n.(*ast.CallExpr)
					if !ok || len(call.Args) != 1 {
						return true
					}
					fn := Callee(info, call)
					if fn == nil || !strings.HasPrefix(fn.Name(), "NewBreaking") || !strings.HasSuffix(fn.Name(), "PairRuleHandler") {
						return true
					}
					lit, ok := call.Args[0].(*ast.FuncLit)
					if !ok {
						return true
					}
					idx := 0
					for _, fld := range lit.Type.Params.List {
						for _, nm := range fld.Names {
							switch idx {
							case 2:
								l.set(info.Defs[nm], labCur)
							case 3:
								l.set(info.Defs[nm], labPrev)
							}
							idx++
						}
					}
					return true
				})
			}
		}
		for _, hb := range t.Handlers {
			if !strings.Contains(hb.Adapter, "Pair") || hb.Func == nil {
				continue
			}
			fr := l.decls[hb.Func]
			if fr == nil {
				continue
			}
			idx := 0
			for _, fld := range fr.Decl.Type.Params.List {
				for _, nm := range fld.Names {
					switch idx {
					case 2:
						l.set(fr.Info().Defs[nm], labCur)
					case 3:
						l.set(fr.Info().Defs[nm], labPrev)
					}
					idx++
				}
			}
		}
	}
}

// registryIntegrity is shared by C03 (breaking) and C05 (lint).
func registryIntegrity(c *Ctx, rule string, t *checkTables, typ string) {
	p := c.P
	n := 0
	for _, name := range sortedKeys(t.Builders) {
		b := t.Builders[name]
		if b.Type != typ {
			continue
		}
		n++
		inst := "builder " + b.ID
		prefix := map[string]string{"breaking": "Breaking", "lint": "Lint"}[typ]
		infix := strings.TrimSuffix(strings.TrimPrefix(b.Var, prefix), "RuleSpecBuilder")
		for _, ver := range []string{"V1Beta1", "V1", "V2"} {
			infix = strings.TrimSuffix(infix, ver) // version-specific variants of one rule
		}
		okVar := strings.HasPrefix(b.Var, prefix) && normID(camelToUpperSnake(infix)) == normID(b.ID)
		c.Ob(rule, inst+"/var-name", b.Pos, okVar, false, "builder variable %s agrees with ID %s: %v", b.Var, b.ID, okVar)
		if b.HandlerObj == nil || b.HandlerVar == "" {
			// deprecated rules may carry an inline no-op handler: they must then name replacements or be documented no-ops
			c.Ob(rule, inst+"/handler", b.Pos, b.Deprecated, false, "builder has an inline handler instead of a bufcheckserverhandle variable (allowed only for deprecated rules): deprecated=%v", b.Deprecated)
			continue
		}
		hInfix := strings.TrimPrefix(b.HandlerVar, "Handle"+prefix)
		okH := strings.HasPrefix(b.HandlerVar, "Handle"+prefix) && normID(camelToUpperSnake(hInfix)) == normID(b.ID)
		c.Ob(rule, inst+"/handler-name", b.Pos, okH, true, "handler %s agrees with ID %s (cross-wiring check): %v", b.HandlerVar, b.ID, okH)
		hb := t.Handlers[b.HandlerVar]
		c.Ob(rule, inst+"/handler-bound", b.Pos, hb != nil, false, "handler variable %s is built by a bufcheckserverutil adapter: %v", b.HandlerVar, hb != nil)
		if hb != nil && hb.Func != nil {
			// the bound function's name agrees as well
			fInfix := strings.TrimPrefix(hb.Func.Name(), "handle"+prefix)
			okF := normID(camelToUpperSnake(fInfix)) == normID(b.ID)
			c.Ob(rule, inst+"/bound-func-name", hb.Pos, okF, true, "%s = %s(%s): bound function agrees with ID %s: %v", hb.Var, hb.Adapter, hb.Func.Name(), b.ID, okF)
		}
	}
	// presence in every spec, replacements
	for _, sname := range []string{"V1Beta1Spec", "V1Spec", "V2Spec"} {
		st := t.Specs[sname]
		if st == nil {
			c.Fail(rule, "spec "+sname, token.NoPos, "spec table %s not found", sname)
			continue
		}
		inSpec := map[string]*specRow{}
		for i := range st.Rows {
			r := &st.Rows[i]
			if r.Builder == nil {
				c.Ob(rule, sname+"/row "+r.BuilderVar, r.Pos, false, false, "row refers to unknown builder %s", r.BuilderVar)
				continue
			}
			if prev, dup := inSpec[r.Builder.ID]; dup && prev != nil {
				c.Ob(rule, sname+"/duplicate "+r.Builder.ID, r.Pos, false, false, "rule %s listed twice in %s", r.Builder.ID, sname)
			}
			inSpec[r.Builder.ID] = r
		}
		for _, name := range sortedKeys(t.Builders) {
			b := t.Builders[name]
			if b.Type != typ {
				continue
			}
			row := inSpec[b.ID]
			if row != nil && row.Builder != b {
				continue // another version-specific builder of the same ID is the one listed
			}
			if !b.Deprecated {
				why, introduced := ruleIntroducedLater[sname+"/"+b.ID]
				switch {
				case row != nil:
					c.Ob(rule, sname+"/has "+b.ID, row.Pos, true, false, "listed with categories %v", row.Categories)
				case introduced:
					c.Ob(rule, sname+"/has "+b.ID, st.Pos, true, false, "not in %s by design: %s", sname, why)
				default:
					c.Ob(rule, sname+"/has "+b.ID, st.Pos, false, true, "non-deprecated %s rule %s is missing from %s: configurations of that version can never run it", typ, b.ID, sname)
				}
				continue
			}
			if row == nil {
				continue
			}
			// deprecated: the named replacements (possibly none) exist, same type, non-deprecated, in the same spec
			okR := true
			for _, rid := range b.Replacements {
				if inSpec[rid] == nil || inSpec[rid].Builder.Deprecated || inSpec[rid].Builder.Type != typ {
					okR = false
				}
			}
			c.Ob(rule, sname+"/deprecated "+b.ID, row.Pos, okR, true, "deprecated rule %s is replaced by %v, all existing non-deprecated %s rules of %s: %v", b.ID, b.Replacements, typ, sname, okR)
		}
	}
	if n < 40 {
		c.Fail(rule, "builder-count", token.NoPos, "only %d %s builders found", n, typ)
	}
	_ = p
}

// rules that a spec version does not contain by design ("<Spec>/<ID>" → reason)
var ruleIntroducedLater = map[string]string{
	"V1Beta1Spec/SYNTAX_SPECIFIED":                  "introduced with the v1 rule set",
	"V1Beta1Spec/IMPORT_USED":                       "introduced with the v1 rule set",
	"V1Beta1Spec/PACKAGE_NO_IMPORT_CYCLE":           "introduced with the v1 rule set",
	"V1Beta1Spec/PROTOVALIDATE":                     "introduced with the v1 rule set",
	"V1Beta1Spec/STABLE_PACKAGE_NO_IMPORT_UNSTABLE": "introduced with the v2 rule set",
	"V1Spec/STABLE_PACKAGE_NO_IMPORT_UNSTABLE":      "introduced with the v2 rule set",
	"V1Beta1Spec/PACKAGE_EXTENSION_NO_DELETE":       "introduced with the v1 rule set",
	"V1Beta1Spec/EXTENSION_NO_DELETE":               "introduced with the v1 rule set",
	"V2Spec/ENUM_FIRST_VALUE_ZERO":                  "v1beta1-only rule superseded by ENUM_ZERO_VALUE_SUFFIX semantics",
	"V1Beta1Spec/FIELD_SAME_DEFAULT":                "introduced with the v2 rule set",
	"V1Spec/FIELD_SAME_DEFAULT":                     "introduced with the v2 rule set",
	"V1Beta1Spec/FIELD_WIRE_COMPATIBLE_TYPE":        "v1beta1 used FIELD_SAME_TYPE in every category; type-compatibility rules came with v1",
	"V1Beta1Spec/FIELD_WIRE_JSON_COMPATIBLE_TYPE":   "v1beta1 used FIELD_SAME_TYPE in every category; type-compatibility rules came with v1",
	"V1Spec/EXTENSION_NO_DELETE":                    "introduced with the v2 rule set",
	"V1Beta1Spec/FIELD_NOT_REQUIRED":                "introduced with the v2 rule set",
	"V1Spec/FIELD_NOT_REQUIRED":                     "introduced with the v2 rule set",
	"V1Spec/FIELD_NO_DESCRIPTOR":                    "v1beta1-only rule (dropped from v1 and v2)",
	"V2Spec/FIELD_NO_DESCRIPTOR":                    "v1beta1-only rule (dropped from v1 and v2)",
	"V1Spec/PACKAGE_EXTENSION_NO_DELETE":            "introduced with the v2 rule set",
	"V1Spec/ENUM_FIRST_VALUE_ZERO":                  "v1beta1-only rule",
}

func runC03(c *Ctx) {
	p := c.P
	c.Rule("REGISTRY", "breaking rule builders, handlers, IDs and spec tables are mutually consistent", 150)
	c.Rule("LABEL-ADAPTER", "pair adapters call f(w, req, current, previous) with the current element looked up by the previous key", 10)
	c.Rule("LABEL-NODELETE", "deletion loops range over previous and look up in current, keyed by the range key", 22)
	c.Rule("LABEL-ANNOTATION", "annotations of breaking handlers are located at the current element and refer to the previous one", 35)
	c.Rule("LABEL-CONSISTENT", "every labelled parameter of a helper receives one label at all of its call sites (sibling call sites agree)", 20)
	c.Rule("CAN-REPORT", "an annotation call is reachable from every registered breaking handler", 55)
	c.Rule("TABLE-TOTAL", "compatibility tables cover every protoreflect.Kind; enum switches of the handlers cover their enum or have a default", 4)
	c.Rule("GROUPS-DOCUMENTED", "compatibility groups never merge kinds that the protobuf documentation lists as incompatible (a merged pair would go unreported)", 2)
	c.Rule("EXEMPTION-WEAKENS", "a deletion is excused only by the reservation the category demands (all aliases' names reserved)", 1)

	t := extractCheckTables(p)
	for _, e := range t.Errors {
		c.Fail("REGISTRY", "extract", token.NoPos, "%s", e)
	}
	registryIntegrity(c, "REGISTRY", t, "breaking")

	pkgs := checkPkgs(p)
	if len(pkgs) != 2 {
		c.Fail("LABEL-ADAPTER", "anchor", token.NoPos, "handler packages not found")
		return
	}
	l := newLabeler(p, pkgs)
	l.Run(seedHandlerParams(l, t))
	pkH, pkU := p.Pkg(pkgCheckHandle), p.Pkg(pkgCheckUtil)
	c03EmptyCurrent(c, l)
	c03PreviousNeverSkipped(c, l)
	c03NoCountShortcut(c, l, "NO-COUNT-SHORTCUT")
	c03DefaultFromDefault(c, "DEFAULT-RESOLVED", pkH)
	c03CompareFirst(c, "COMPARE-FIRST", pkH)
	c03ReservedMeansReserved(c, "RESERVED-MEANS-RESERVED", pkH)
	ruleEqualityHelper(c, "EQUALITY-HELPER", pkgs)
	c.Rule("SUPPRESSION-CONFIGURED", "the annotation filter drops an annotation only under a condition that reads the configuration", 4)
	ruleSuppressionGuarded(c, "SUPPRESSION-CONFIGURED")

	// (2) adapters
	for _, fr := range p.FuncsOf(pkU) {
		if !strings.HasPrefix(fr.Decl.Name.Name, "NewBreaking") || !strings.HasSuffix(fr.Decl.Name.Name, "PairRuleHandler") {
			continue
		}
		info := fr.Info()
		if fr.Decl.Type.Params == nil || len(fr.Decl.Type.Params.List) != 1 || len(fr.Decl.Type.Params.List[0].Names) != 1 {
			c.Fail("LABEL-ADAPTER", fr.ID(), fr.Decl.Pos(), "adapter does not take exactly one callback parameter")
			continue
		}
		fobj := info.Defs[fr.Decl.Type.Params.List[0].Names[0]]
		calls := 0
		for _, site := range adapterCallbackSites(p, fr, fobj) {
			call, info := site.Call, site.Info
			encl := site.Frames[0].Decl
			calls++
			c.CallSites++
			if len(call.Args) != 4 {
				c.Ob("LABEL-ADAPTER", fr.ID()+"/call", call.Pos(), false, true, "callback is not invoked with four arguments")
				continue
			}
			lc, lp := l.L(info, call.Args[2]), l.L(info, call.Args[3])
			c.Ob("LABEL-ADAPTER", fr.ID()+"/call-args", call.Pos(), lc == labCur && lp == labPrev, true,
				"callback invoked as f(w, req, %s=%s, %s=%s); want (current, previous)", exprString(call.Args[2]), labString(lc), exprString(call.Args[3]), labString(lp))
			// the current element comes from a lookup in a current index with a previous key
			cobj := identObj(info, call.Args[2])
			okLookup := false
			desc := "no comma-ok lookup defines the current element"
			ast.Inspect(encl.Body, func(m ast.Node) bool {
				as, ok := m.(*ast.AssignStmt)
				if !ok || len(as.Rhs) != 1 || len(as.Lhs) < 1 || identObj(info, as.Lhs[0]) != cobj || cobj == nil {
					return true
				}
				ix, ok := ast.Unparen(as.Rhs[0]).(*ast.IndexExpr)
				if !ok || !containsNode(p.enclosingStmtList(as), call) {
					return true
				}
				lm, lk := l.L(info, ix.X), l.L(info, ix.Index)
				desc = fmt.Sprintf("%s := %s[%s] with index=%s, key=%s", cobj.Name(), exprString(ix.X), exprString(ix.Index), labString(lm), labString(lk))
				if lm == labCur && lk == labPrev {
					okLookup = true
				}
				return true
			})
			c.Ob("LABEL-ADAPTER", fr.ID()+"/lookup", call.Pos(), okLookup, true, "current element is found in the current index under the previous element's key: %s", desc)
			// every pair that exists reaches the callback: the conditions around the call consult nothing of the elements
			// themselves (a filter such as `ok && !file.IsImport()` in one adapter lets the rules built on it miss what the
			// rules built on its siblings report - added after round-4 seed C04-k)
			filter := adapterFilterCond(p, l, call, info, encl)
			c.Ob("LABEL-ADAPTER", fr.ID()+"/unfiltered", call.Pos(), filter == "", true, "no condition around the callback consults the current or previous element (every existing pair is handed on): %q", filter)
		}
		if calls == 0 {
			c.Fail("LABEL-ADAPTER", fr.ID()+"/call", fr.Decl.Pos(), "adapter never invokes its callback")
		}
	}

	// (3) deletion direction
	bothDirs := map[string]string{
		"handleBreakingMessageSameRequiredFields": "documented to report a removed and an added required field",
	}
	n := 0
	perFn := map[string][]string{}
	for _, nf := range findNotFoundLoops(p, pkH) {
		if nf.Fn == nil {
			continue
		}
		info := pkH.TypesInfo
		lx, ly := l.L(info, nf.X), l.L(info, nf.Y)
		keyOK := identObj(info, nf.Key) != nil && identObj(info, nf.Key) == identObj(info, nf.Range.Key)
		inst := relPkg(pkH.PkgPath) + "." + nf.Fn.Name.Name + "/not-found-loop"
		dir := labString(lx) + "→" + labString(ly)
		perFn[nf.Fn.Name.Name] = append(perFn[nf.Fn.Name.Name], dir)
		if _, both := bothDirs[nf.Fn.Name.Name]; both {
			c.Ob("LABEL-NODELETE", inst, nf.Range.Pos(), keyOK && ((lx == labPrev && ly == labCur) || (lx == labCur && ly == labPrev)), true,
				"two-direction rule (%s): ranges over %s, looks up in %s", bothDirs[nf.Fn.Name.Name], labString(lx), labString(ly))
			n++
			continue
		}
		n++
		c.Ob("LABEL-NODELETE", inst, nf.Range.Pos(), lx == labPrev && ly == labCur && keyOK, true,
			"ranges over %s (%s), looks up %s in %s (%s), keyed by the range key: %v; want previous→current",
			exprString(nf.X), labString(lx), exprString(nf.Key), exprString(nf.Y), labString(ly), keyOK)
	}
	for fn := range bothDirs {
		dirs := perFn[fn]
		ok := len(dirs) == 2 && dirs[0] != dirs[1]
		c.Ob("LABEL-NODELETE", relPkg(pkH.PkgPath)+"."+fn+"/both-directions", token.NoPos, ok, true, "loops found: %v (want one previous→current and one current→previous)", dirs)
	}
	// every NO_DELETE rule has at least one such loop in its call closure
	closure := newCallClosure(p, pkgs)
	for _, name := range sortedKeys(t.Builders) {
		b := t.Builders[name]
		if b.Type != "breaking" || !strings.Contains(b.ID, "NO_DELETE") {
			continue
		}
		hb := t.Handlers[b.HandlerVar]
		if hb == nil || hb.Func == nil {
			continue
		}
		has := false
		badLoop := ""
		for fn := range closure.reach(hb.Func) {
			if len(perFn[fn.Name()]) > 0 {
				has = true
			}
			// generalised shape: a loop whose body annotates must iterate a previous collection
			if fr := closure.decls[fn]; fr != nil {
				ast.Inspect(fr.Decl.Body, func(m ast.Node) bool {
					rs, ok := m.(*ast.RangeStmt)
					if !ok {
						return true
					}
					ann := false
					for _, st := range rs.Body.List {
						ast.Inspect(st, func(k ast.Node) bool {
							if _, nested := k.(*ast.RangeStmt); nested {
								return false
							}
							if call, ok := k.(*ast.CallExpr); ok && (isAnnotationCall(fr.Info(), call) || annotatesHere(fr.Pkg, fr.Decl, call)) {
								ann = true
							}
							return true
						})
					}
					if !ann {
						return true
					}
					lx := l.L(fr.Info(), rs.X)
					if lx == labPrev {
						has = true
					} else if lx != 0 {
						badLoop = fmt.Sprintf("%s ranges over %s (%s) and annotates", fn.Name(), exprString(rs.X), labString(lx))
					}
					return true
				})
			}
		}
		c.Ob("LABEL-NODELETE", "rule "+b.ID+"/has-deletion-loop", hb.Pos, has && badLoop == "", true, "a loop over a previous collection that annotates is reachable from %s: %v %s", hb.Func.Name(), has, badLoop)
	}

	// sibling call sites agree: where a function takes two or more labelled parameters of one type (a
	// current/previous pair), each keeps a single label over all call sites and both labels occur.
	// Unary symmetric helpers (called once per side) are legitimately mixed and are not subjects.
	for _, fr := range l.decls {
		if fr.Decl.Type.Params == nil {
			continue
		}
		groups := map[string][]*ast.Ident{}
		for _, fld := range fr.Decl.Type.Params.List {
			for _, nm := range fld.Names {
				obj := fr.Info().Defs[nm]
				if obj == nil || l.lab[obj] == 0 || isBasicType(obj.Type()) {
					continue
				}
				k := types.TypeString(obj.Type(), nil)
				groups[k] = append(groups[k], nm)
			}
		}
		for _, k := range sortedKeys(groups) {
			g := groups[k]
			if len(g) < 2 {
				continue
			}
			var union uint8
			ok := true
			var desc []string
			for _, nm := range g {
				lv := l.lab[fr.Info().Defs[nm]]
				union |= lv
				if lv == labCur|labPrev {
					ok = false
				}
				desc = append(desc, nm.Name+"="+labString(lv))
			}
			if union != labCur|labPrev {
				continue // not a current/previous pair
			}
			if !ok {
				// every parameter sees both sides: either a pair helper with a swapped call site, or a helper that is
				// called once per side with several same-typed arguments (a constructor: newFieldDefault(comparable,
				// printable)). The call sites tell them apart: at a pair's call site the arguments carry different
				// labels, at a per-side helper's call site they all carry the same one.
				perSide := true
				sites := 0
				idx := map[types.Object]int{}
				pi := 0
				for _, fld := range fr.Decl.Type.Params.List {
					for _, nm := range fld.Names {
						idx[fr.Info().Defs[nm]] = pi
						pi++
					}
				}
				for _, caller := range l.decls {
					if caller.Decl.Body == nil {
						continue
					}
					ast.Inspect(caller.Decl.Body, func(n ast.Node) bool {
						call, isCall := n.(*ast.CallExpr)
						if !isCall || Callee(caller.Info(), call) != fr.Obj {
							return true
						}
						sites++
						var first uint8
						for _, nm := range g {
							i := idx[fr.Info().Defs[nm]]
							if i >= len(call.Args) {
								continue
							}
							lv := l.L(caller.Info(), call.Args[i])
							if lv == 0 {
								continue
							}
							if first == 0 {
								first = lv
							} else if lv != first {
								perSide = false // the arguments of one call come from different sides: a pair
							}
						}
						return true
					})
				}
				if perSide && sites > 0 {
					continue
				}
			}
			c.Ob("LABEL-CONSISTENT", fr.ID()+"/"+strings.Join(func() []string {
				var ns []string
				for _, nm := range g {
					ns = append(ns, nm.Name)
				}
				return ns
			}(), ","), g[0].Pos(), ok, true, "parameters of type %s over all call sites: %s", k, strings.Join(desc, ", "))
		}
	}

	// (4) annotation locations
	info := pkH.TypesInfo
	for _, f := range pkH.Syntax {
		ast.Inspect(f, func(x ast.Node) bool {
			call, ok := x.(*ast.CallExpr)
			if !ok || !isAnnotationCall(info, call) {
				return true
			}
			sel := call.Fun.(*ast.SelectorExpr)
			if sel.Sel.Name != "AddProtosourceAnnotation" || len(call.Args) < 2 || isNilIdent(info, call.Args[1]) {
				return true
			}
			fd := p.EnclosingFuncDecl(call)
			if fd == nil {
				return true
			}
			l0, l1 := l.L(info, call.Args[0]), l.L(info, call.Args[1])
			ok0 := l0 == labCur || l0 == 0
			ok1 := l1 == labPrev
			c.Ob("LABEL-ANNOTATION", relPkg(pkH.PkgPath)+"."+fd.Name.Name, call.Pos(), ok0 && ok1, true,
				"AddProtosourceAnnotation(location=%s [%s], againstLocation=%s [%s]); want (current|nil, previous)", short(exprString(call.Args[0]), 40), labString(l0), short(exprString(call.Args[1]), 40), labString(l1))
			return true
		})
	}

	// (5) can report
	for _, name := range sortedKeys(t.Builders) {
		b := t.Builders[name]
		if b.Type != "breaking" {
			continue
		}
		hb := t.Handlers[b.HandlerVar]
		if hb == nil {
			continue
		}
		can := false
		switch {
		case hb.Func != nil:
			for fn := range closure.reach(hb.Func) {
				if closure.annotates[fn] {
					can = true
				}
			}
		case hb.Lit != nil:
			ast.Inspect(hb.Lit, func(m ast.Node) bool {
				if call, ok := m.(*ast.CallExpr); ok {
					if isAnnotationCall(pkH.TypesInfo, call) {
						can = true
					}
					if fn := Callee(pkH.TypesInfo, call); fn != nil {
						for g := range closure.reach(fn) {
							if closure.annotates[g] {
								can = true
							}
						}
					}
				}
				return true
			})
		}
		c.Ob("CAN-REPORT", "rule "+b.ID, hb.Pos, can, true, "an AddAnnotation/AddProtosourceAnnotation call is reachable from the handler of %s: %v", b.ID, can)
	}

	// every implementation of ResponseWriter.AddProtosourceAnnotation really adds an annotation on every path
	for _, fr := range p.FuncsOf(pkU) {
		if fr.Decl.Name.Name != "AddProtosourceAnnotation" || fr.Decl.Recv == nil {
			continue
		}
		var adds []ast.Node
		ast.Inspect(fr.Decl.Body, func(n ast.Node) bool {
			if call, ok := n.(*ast.CallExpr); ok {
				if sel, ok := call.Fun.(*ast.SelectorExpr); ok && sel.Sel.Name == "AddAnnotation" {
					adds = append(adds, call)
				}
			}
			return true
		})
		g := p.CFGOf(fr.Decl.Body, fr.Info())
		skipped := len(adds) == 0 || g.EndReachableAvoiding(adds)
		c.Ob("CAN-REPORT", fr.ID()+"/always-adds", fr.Decl.Pos(), !skipped, true, "every path through AddProtosourceAnnotation reaches the underlying AddAnnotation (no annotation is silently dropped): %v", !skipped)
	}

	// (6) tables
	wireTbl, wireJSONTbl := compatTableNames(p)
	for ti, name := range []string{wireTbl, wireJSONTbl} {
		cl := pkgVarLiteral(pkH, name)
		if cl == nil {
			c.Fail("TABLE-TOTAL", []string{"wire-groups", "wire-json-groups"}[ti], token.NoPos, "compatibility table not found (no map[protoreflect.Kind] literal used by the registered handler)")
			continue
		}
		missing, total, ok := mapLiteralMissingKeys(pkH.TypesInfo, cl)
		c.Ob("TABLE-TOTAL", []string{"wire-groups", "wire-json-groups"}[ti], cl.Pos(), ok && len(missing) == 0, true, "%s: %d distinct protoreflect.Kind values, missing keys: %v", name, total, missing)
	}
	c04GroupsDocumented(c)
	c04AllNames(c)
	for _, es := range findEnumSwitches(p, pkH) {
		// a switch with a default is total by construction; one without is partial by design (only the listed
		// kinds need extra work) — counted, never failed: no rule can tell a forgotten case from an intended omission
		if es.HasDefault || len(es.Missing) == 0 {
			c.Ob("TABLE-TOTAL", es.Fn+"/switch "+typeShort(es.Type), es.Switch.Pos(), true, false, "switch over %s is total (missing %d constants, default=%v)", typeShort(es.Type), len(es.Missing), es.HasDefault)
		} else {
			c.Note("TABLE-TOTAL: partial switch without default in %s over %s (%d constants not listed): not an obligation", es.Fn, typeShort(es.Type), len(es.Missing))
		}
	}
	c04Extra(c)
	c03PresenceIndex(c)
	c03LossyConversion(c)
	c03LoopEarlySuccess(c)
	c04NormaliseTotal(c)
	c04NilOutSameSide(c)
	c03SubsetByPair(c, "SUBSET-BY-PAIR")
	c03IndexAccumulates(c, "INDEX-ACCUMULATES")
	c04SiblingSkipGuards(c, "SIBLING-SKIP-GUARDS")
	c.Rule("FILES-COMPLETE", "every input file (current and previous) is converted for the rule handlers whatever the parallelism", 1)
	goAggRule(c, "FILES-COMPLETE", func(rel string) bool { return rel == "private/bufpkg/bufprotosource" })
}

// enclosingStmtList returns the innermost block/clause that contains n.
func (p *Prog) enclosingStmtList(n ast.Node) ast.Node {
	for cur := p.Parent(n); cur != nil; cur = p.Parent(cur) {
		switch cur.(type) {
		case *ast.BlockStmt, *ast.CaseClause, *ast.CommClause:
			// for an `if x, ok := m[k]; ok { … }` the assign's parent is the IfStmt: use it
			if ifs, ok := p.Parent(n).(*ast.IfStmt); ok {
				return ifs
			}
			return cur
		}
	}
	return nil
}

// ---- static call closure inside a package set ---------------------------------------------------------------

type callClosure struct {
	p         *Prog
	decls     map[*types.Func]*FuncRef
	edges     map[*types.Func][]*types.Func
	annotates map[*types.Func]bool
	memo      map[*types.Func]map[*types.Func]bool
}

func newCallClosure(p *Prog, pkgs []*packages.Package) *callClosure {
	cc := &callClosure{p: p, decls: map[*types.Func]*FuncRef{}, edges: map[*types.Func][]*types.Func{}, annotates: map[*types.Func]bool{}, memo: map[*types.Func]map[*types.Func]bool{}}
	for _, pk := range pkgs {
		for _, fr := range p.FuncsOf(pk) {
			if fr.Obj == nil {
				continue
			}
			cc.decls[fr.Obj] = fr
			ast.Inspect(fr.Decl.Body, func(n ast.Node) bool {
				switch x := n.(type) {
				case *ast.CallExpr:
					if isAnnotationCall(fr.Info(), x) {
						cc.annotates[fr.Obj] = true
					}
					if fn := Callee(fr.Info(), x); fn != nil {
						cc.edges[fr.Obj] = append(cc.edges[fr.Obj], fn.Origin())
					}
				case *ast.Ident:
					// function values passed around (helpers given as arguments)
					if fn, ok := fr.Info().Uses[x].(*types.Func); ok {
						cc.edges[fr.Obj] = append(cc.edges[fr.Obj], fn.Origin())
					}
				}
				return true
			})
		}
	}
	return cc
}

func (cc *callClosure) reach(fn *types.Func) map[*types.Func]bool {
	fn = fn.Origin()
	if m, ok := cc.memo[fn]; ok {
		return m
	}
	seen := map[*types.Func]bool{fn: true}
	work := []*types.Func{fn}
	for len(work) > 0 {
		f := work[len(work)-1]
		work = work[:len(work)-1]
		for _, g := range cc.edges[f] {
			if !seen[g] && cc.decls[g] != nil {
				seen[g] = true
				work = append(work, g)
			}
		}
	}
	cc.memo[fn] = seen
	return seen
}

// adapterFilterCond returns the text of a condition around the callback call of a pair adapter that consults the
// current or previous element ("" when there is none).
func adapterFilterCond(p *Prog, l *labeler, call *ast.CallExpr, info *types.Info, encl *ast.FuncDecl) string {
	filter := ""
	for cur := p.Parent(call); cur != nil && cur != ast.Node(encl); cur = p.Parent(cur) {
		ifs, ok := cur.(*ast.IfStmt)
		if !ok || (ifs.Init != nil && containsNode(ifs.Init, call)) || containsNode(ifs.Cond, call) {
			continue
		}
		ast.Inspect(ifs.Cond, func(m ast.Node) bool {
			if id, ok := m.(*ast.Ident); ok {
				if o := info.Uses[id]; o != nil && l.lab[o] != 0 && !isErrorType(o.Type()) {
					filter = exprString(ifs.Cond)
				}
			}
			return true
		})
	}
	return filter
}
