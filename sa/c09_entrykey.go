package main

import (
	"go/token"
	"go/types"
	"sort"
	"strings"

	"golang.org/x/tools/go/packages"
	"golang.org/x/tools/go/ssa"
)

// c09EntryKey (ENTRY-KEY; C09, after round-5 seed C09-c): "a subsequent read yields either 'not cached' or content
// whose digest equals the digest pinned by the requesting key". What is stored under a key is not only the files:
// module.yaml records the dependency keys with digests of the storing key's digest type. Two keys that differ in any
// component - digest type, registry, owner, name, commit - therefore name two entries, in every layout of the store
// and for the lock file alike. Decided on SSA for the module data store: the functions that map a ModuleKey to a
// path (one ModuleKey parameter, a string result) all build it from the same set of key accessors, and that set
// includes the digest's Type and the CommitID.
func c09EntryKey(c *Ctx) {
	const rule = "ENTRY-KEY"
	c.Rule(rule, "every path the module data store derives from a key is built from the same, complete set of key components", 2)
	p := c.P
	pk := p.Pkg("private/bufpkg/bufmodule/bufmodulestore")
	if pk == nil {
		c.Fail(rule, "anchor", token.NoPos, "bufmodulestore not found")
		return
	}
	type site struct {
		f   *ssa.Function
		set []string
	}
	var sites []site
	for _, sf := range p.SSAFuncsOf([]*packages.Package{pk}) {
		sig := sf.Signature
		if sig.Recv() != nil || sig.Params().Len() != 1 || namedPath(sig.Params().At(0).Type()) != modPath+"/private/bufpkg/bufmodule.ModuleKey" {
			continue
		}
		if sig.Results().Len() == 0 {
			continue
		}
		if b, ok := sig.Results().At(0).Type().Underlying().(*types.Basic); !ok || b.Kind() != types.String {
			continue
		}
		set := map[string]bool{}
		for _, r := range returnsOf(sf) {
			if len(r.Results) == 0 {
				continue
			}
			sliceBackDeep(r.Results[0], func(x ssa.Value) bool {
				if cl, ok := x.(*ssa.Call); ok && cl.Call.IsInvoke() {
					set[cl.Call.Method.Name()] = true
				}
				return true
			})
		}
		if len(set) == 0 {
			continue
		}
		sites = append(sites, site{sf, sortedKeys(set)})
	}
	sort.Slice(sites, func(i, j int) bool { return sites[i].f.Name() < sites[j].f.Name() })
	if len(sites) < 2 {
		c.Fail(rule, "anchor", token.NoPos, "expected at least two key-to-path functions in bufmodulestore, found %d", len(sites))
		return
	}
	// the reference is the union: a component one layout separates entries by separates them in all
	union := map[string]bool{}
	for _, s := range sites {
		for _, k := range s.set {
			union[k] = true
		}
	}
	for _, s := range sites {
		var missing []string
		have := map[string]bool{}
		for _, k := range s.set {
			have[k] = true
		}
		for k := range union {
			if !have[k] {
				missing = append(missing, k)
			}
		}
		sort.Strings(missing)
		complete := have["Type"] && have["Digest"] && have["CommitID"]
		c.Ob(rule, s.f.Name()+"/components", s.f.Pos(), len(missing) == 0 && complete, true, "%s builds the path from key accessors [%s]; components a sibling uses and this one does not: %v; digest type and commit included: %v", s.f.Name(), strings.Join(s.set, " "), missing, complete)
	}
}
