package main

// R-MAPORDER (P12): classification of every iteration over a map by the order-sensitivity of its
// effects, and the "sorted before use" obligation for slices filled in map order.

import (
	"fmt"
	"go/ast"
	"go/token"
	"go/types"
	"sort"
	"strings"

	"golang.org/x/tools/go/packages"
)

type mapLoop struct {
	Pkg     *packages.Package
	Fn      ast.Node // enclosing FuncDecl/FuncLit
	FnName  string   // module-relative pkg + decl name
	Range   *ast.RangeStmt
	MapType string
	Key     string // stable key: FnName + "/range " + MapType + "#n"
	Effects []loopEffect
	depth   int // inlining depth of helper bodies
}

type loopEffect struct {
	Kind   string // see classifyLoop
	Obj    types.Object
	Pos    token.Pos
	Detail string
}

// order-insensitive effect kinds
var commutativeKinds = map[string]bool{
	"map-store": true, "delete": true, "counter": true, "const-store": true, "index-store": true,
	"return-const": true, "absorbing-call": true, "local": true, "minmax-store": true, "panic": true,
}

// findMapLoops lists every `for … range m` with m of map type in the package (generated files skipped).
func findMapLoops(p *Prog, pk *packages.Package) []*mapLoop {
	var out []*mapLoop
	info := pk.TypesInfo
	ord := map[string]int{}
	for _, f := range pk.Syntax {
		if isGenerated(f) {
			continue
		}
		ast.Inspect(f, func(n ast.Node) bool {
			rs, ok := n.(*ast.RangeStmt)
			if !ok {
				return true
			}
			t := info.TypeOf(rs.X)
			if t == nil {
				return true
			}
			if _, isMap := t.Underlying().(*types.Map); !isMap {
				return true
			}
			fd := p.EnclosingFuncDecl(rs)
			name := relPkg(pk.PkgPath) + ".<init>"
			if fd != nil {
				name = relPkg(pk.PkgPath) + "." + declName(fd)
			}
			mt := typeShort(t)
			base := name + "/range " + mt
			ord[base]++
			out = append(out, &mapLoop{Pkg: pk, Fn: p.EnclosingFunc(rs), FnName: name, Range: rs, MapType: mt, Key: fmt.Sprintf("%s#%d", base, ord[base])})
			return true
		})
	}
	return out
}

// classifyLoop fills l.Effects.
func classifyLoop(p *Prog, l *mapLoop, absorbing func(fn *types.Func) bool) {
	info := l.Pkg.TypesInfo
	body := l.Range.Body
	isLocal := func(obj types.Object) bool {
		if obj == nil {
			return true
		}
		return obj.Pos() >= l.Range.Pos() && obj.Pos() < l.Range.End()
	}
	rootObj := func(e ast.Expr) types.Object {
		for {
			switch x := ast.Unparen(e).(type) {
			case *ast.Ident:
				return identObj(info, x)
			case *ast.SelectorExpr:
				// package-qualified identifier or field chain
				if id, ok := x.X.(*ast.Ident); ok {
					if _, isPkg := info.Uses[id].(*types.PkgName); isPkg {
						return info.Uses[x.Sel]
					}
				}
				e = x.X
			case *ast.IndexExpr:
				e = x.X
			case *ast.StarExpr:
				e = x.X
			case *ast.CallExpr:
				return nil
			default:
				return nil
			}
		}
	}
	isConst := func(e ast.Expr) bool {
		if tv, ok := info.Types[e]; ok && tv.Value != nil {
			return true
		}
		if isNilIdent(info, e) {
			return true
		}
		// composite literal of an empty struct (set element)
		if cl, ok := ast.Unparen(e).(*ast.CompositeLit); ok && len(cl.Elts) == 0 {
			return true
		}
		return false
	}
	add := func(kind string, obj types.Object, pos token.Pos, detail string) {
		l.Effects = append(l.Effects, loopEffect{Kind: kind, Obj: obj, Pos: pos, Detail: detail})
	}
	isAppendTo := func(rhs ast.Expr, lhs ast.Expr) bool {
		call, ok := ast.Unparen(rhs).(*ast.CallExpr)
		if !ok || len(call.Args) == 0 {
			return false
		}
		id, ok := call.Fun.(*ast.Ident)
		if !ok {
			return false
		}
		if b, ok := info.Uses[id].(*types.Builtin); !ok || b.Name() != "append" {
			return false
		}
		return exprString(call.Args[0]) == exprString(lhs)
	}
	isMinMax := func(rhs ast.Expr) bool {
		call, ok := ast.Unparen(rhs).(*ast.CallExpr)
		if !ok {
			return false
		}
		id, ok := call.Fun.(*ast.Ident)
		if !ok {
			return false
		}
		b, ok := info.Uses[id].(*types.Builtin)
		return ok && (b.Name() == "max" || b.Name() == "min")
	}
	var loopBreakTargets = map[ast.Stmt]bool{l.Range: true}
	inlined := map[*ast.FuncLit]bool{}
	inlinedDecl := map[*ast.FuncDecl]bool{}
	ast.Inspect(body, func(n ast.Node) bool {
		switch x := n.(type) {
		case *ast.AssignStmt:
			for i, lhs := range x.Lhs {
				if id, ok := lhs.(*ast.Ident); ok && id.Name == "_" {
					continue
				}
				obj := rootObj(lhs)
				if x.Tok == token.DEFINE {
					continue
				}
				var rhs ast.Expr
				if len(x.Rhs) == len(x.Lhs) {
					rhs = x.Rhs[i]
				} else if len(x.Rhs) == 1 {
					rhs = x.Rhs[0]
				}
				if isLocal(obj) && obj != nil {
					continue
				}
				switch l2 := ast.Unparen(lhs).(type) {
				case *ast.IndexExpr:
					ct := info.TypeOf(l2.X)
					if ct != nil {
						if _, isMap := ct.Underlying().(*types.Map); isMap {
							if rhs != nil && isAppendTo(rhs, lhs) {
								// appending under the loop's own key: every iteration owns a distinct element
								if kobj := identObj(info, l.Range.Key); kobj != nil && identObj(info, l2.Index) == kobj {
									add("map-store", obj, x.Pos(), exprString(lhs)+" (indexed by the loop key)")
								} else {
									add("append-map-elem", obj, x.Pos(), exprString(lhs))
								}
							} else {
								add("map-store", obj, x.Pos(), exprString(l2.X))
							}
							continue
						}
					}
					add("index-store", obj, x.Pos(), exprString(l2.X))
					continue
				}
				switch {
				case rhs != nil && isAppendTo(rhs, lhs):
					add("append", obj, x.Pos(), exprString(lhs))
				case x.Tok != token.ASSIGN:
					// compound assignment
					t := info.TypeOf(lhs)
					if b, ok := t.Underlying().(*types.Basic); ok && b.Info()&types.IsString != 0 {
						add("concat", obj, x.Pos(), exprString(lhs))
					} else {
						add("counter", obj, x.Pos(), exprString(lhs))
					}
				case rhs != nil && isConst(rhs):
					add("const-store", obj, x.Pos(), exprString(lhs))
				case rhs != nil && isMinMax(rhs):
					add("minmax-store", obj, x.Pos(), exprString(lhs))
				default:
					if iterationTemp(p, info, l, obj) {
						add("local", obj, x.Pos(), exprString(lhs)+" (iteration temporary)")
					} else if lazyInit(p, info, x, obj, l.Range) {
						add("const-store", obj, x.Pos(), exprString(lhs)+" (lazy initialisation under `== nil`)")
					} else {
						add("scalar-store", obj, x.Pos(), exprString(lhs))
					}
				}
			}
		case *ast.IncDecStmt:
			if obj := rootObj(x.X); !isLocal(obj) || obj == nil {
				add("counter", obj, x.Pos(), exprString(x.X))
			}
		case *ast.SendStmt:
			add("send", nil, x.Pos(), "channel send")
		case *ast.GoStmt:
			add("go", nil, x.Pos(), "goroutine started per element")
		case *ast.DeferStmt:
			add("defer", nil, x.Pos(), "defer per element")
		case *ast.LabeledStmt:
			switch s := x.Stmt.(type) {
			case *ast.ForStmt, *ast.RangeStmt, *ast.SwitchStmt, *ast.SelectStmt, *ast.TypeSwitchStmt:
				_ = s
			}
		case *ast.BranchStmt:
			if x.Tok == token.BREAK || x.Tok == token.GOTO {
				// does it leave the map loop? find the innermost breakable ancestor
				target := ast.Stmt(nil)
				if x.Label == nil {
					for cur := p.Parent(x); cur != nil; cur = p.Parent(cur) {
						switch c := cur.(type) {
						case *ast.ForStmt, *ast.RangeStmt, *ast.SwitchStmt, *ast.SelectStmt, *ast.TypeSwitchStmt:
							target = c.(ast.Stmt)
						}
						if target != nil {
							break
						}
					}
				} else {
					// labelled: leaves the map loop iff the label is on or outside it
					if lo := info.Uses[x.Label]; lo != nil && lo.Pos() <= l.Range.Pos() {
						target = l.Range
					}
				}
				if target != nil && loopBreakTargets[target] {
					add("break", nil, x.Pos(), "break out of the map loop")
				}
			}
		case *ast.ReturnStmt:
			// only returns of the function owning the loop
			if p.EnclosingFunc(x) != l.Fn {
				return true
			}
			allConst := true
			for _, r := range x.Results {
				if !isConst(r) {
					allConst = false
				}
			}
			ft := funcType(l.Fn)
			lastIsErr := false
			if ft != nil && ft.Results != nil && len(ft.Results.List) > 0 {
				lastIsErr = isErrorType(info.TypeOf(ft.Results.List[len(ft.Results.List)-1].Type))
			}
			switch {
			case len(x.Results) == 0 || allConst:
				add("return-const", nil, x.Pos(), "")
			case lastIsErr && !isConst(x.Results[len(x.Results)-1]):
				// error return: other results must be zero values/constants
				zero := true
				for _, r := range x.Results[:len(x.Results)-1] {
					if !isConst(r) {
						if cl, ok := ast.Unparen(r).(*ast.CompositeLit); !ok || len(cl.Elts) != 0 {
							zero = false
						}
					}
				}
				if zero {
					add("return-error", nil, x.Pos(), "")
				} else {
					add("return-value", nil, x.Pos(), nodeString(p, x))
				}
			default:
				add("return-value", nil, x.Pos(), nodeString(p, x))
			}
		case *ast.CallExpr:
			// builtins
			if id, ok := ast.Unparen(x.Fun).(*ast.Ident); ok {
				if b, ok := info.Uses[id].(*types.Builtin); ok {
					switch b.Name() {
					case "delete":
						add("delete", rootObj(x.Args[0]), x.Pos(), exprString(x.Args[0]))
					case "panic":
						add("panic", nil, x.Pos(), "")
					case "close":
						add("send", nil, x.Pos(), "close of a channel")
					}
					return true
				}
			}
			// conversions are not calls
			if tv, ok := info.Types[x.Fun]; ok && tv.IsType() {
				return true
			}
			// effect call? (statement position, or the callee returns nothing / only an error)
			callee := Callee(info, x)
			isStmt := false
			if _, ok := p.Parent(x).(*ast.ExprStmt); ok {
				isStmt = true
			}
			var sig *types.Signature
			if callee != nil {
				sig, _ = callee.Type().(*types.Signature)
			} else if t := info.TypeOf(x.Fun); t != nil {
				sig, _ = t.Underlying().(*types.Signature)
			}
			onlyErr := sig != nil && (sig.Results().Len() == 0 || (sig.Results().Len() == 1 && isErrorType(sig.Results().At(0).Type())))
			if !isStmt && !onlyErr {
				return true // query: value is consumed by the surrounding expression
			}
			if !isStmt {
				// an error-only call used as an operand of a return or as an argument is a constructor/query;
				// the enclosing return statement is classified on its own
				switch par := p.Parent(x).(type) {
				case *ast.ReturnStmt, *ast.CallExpr, *ast.CompositeLit, *ast.KeyValueExpr:
					_ = par
					return true
				}
			}
			// sorting a loop-local slice is confined to the element
			if callee != nil && callee.Pkg() != nil && (callee.Pkg().Path() == "sort" || callee.Pkg().Path() == "slices") && len(x.Args) > 0 {
				if ro := rootObj(x.Args[0]); ro != nil && isLocal(ro) {
					add("local", ro, x.Pos(), exprString(x.Fun))
					return true
				}
			}
			// receiver or callee local to the loop body: effect confined to the element
			if sel, ok := ast.Unparen(x.Fun).(*ast.SelectorExpr); ok {
				if ro := rootObj(sel.X); ro != nil && isLocal(ro) {
					if _, isPkg := ro.(*types.PkgName); !isPkg {
						// a method on the loop's own key/value or on a body-local value
						add("local", ro, x.Pos(), exprString(x.Fun))
						return true
					}
				}
			}
			if callee != nil && absorbing != nil && absorbing(callee) {
				add("absorbing-call", nil, x.Pos(), funcIDFull(callee))
				return true
			}
			name := "dynamic " + exprString(x.Fun)
			if callee != nil {
				name = funcIDFull(callee)
			}
			if callee == nil {
				if lit := localClosure(p, info, l.Fn, x.Fun); lit != nil && !inlined[lit] {
					// a closure defined in the same function: its effects are classified inline
					inlined[lit] = true
					sub := &mapLoop{Pkg: l.Pkg, Fn: l.Fn, FnName: l.FnName, Range: &ast.RangeStmt{For: lit.Pos(), Key: l.Range.Key, X: l.Range.X, Body: lit.Body}}
					classifyLoop(p, sub, absorbing)
					for _, e := range sub.Effects {
						if e.Kind == "return-const" || e.Kind == "return-error" || e.Kind == "return-value" {
							continue // returns of the closure are not returns of the loop's function
						}
						l.Effects = append(l.Effects, e)
					}
					return true
				} else if lit != nil {
					return true
				}
				// the callback parameter of a higher-order helper (`forEachDeleted(prev, cur, func(k, v) error {…})`):
				// what the call does is what the function literals handed in at the helper's call sites do. They are
				// classified in place, all of them; if some call site passes anything but a literal the call stays
				// an unknown effect.
				if lits := callbackLiterals(p, l, x.Fun); len(lits) > 0 {
					for _, cb := range lits {
						if inlined[cb.lit] {
							continue
						}
						inlined[cb.lit] = true
						sub := &mapLoop{Pkg: l.Pkg, Fn: cb.fn, FnName: l.FnName, depth: l.depth + 1, Range: &ast.RangeStmt{For: cb.lit.Pos(), Key: l.Range.Key, X: l.Range.X, Body: cb.lit.Body}}
						classifyLoop(p, sub, absorbing)
						for _, e := range sub.Effects {
							if e.Kind == "return-const" || e.Kind == "return-value" {
								continue
							}
							l.Effects = append(l.Effects, e)
						}
					}
					return true
				}
			}
			// a helper of the same package (an extracted loop body): its effects are classified in place, like a closure's
			if callee != nil && callee.Pkg() == l.Pkg.Types && !callee.Exported() && l.depth < 2 {
				if hf := p.DeclOf(callee); hf != nil && hf.Decl.Body != nil && inlinedDecl[hf.Decl] {
					return true // classified at its first call
				} else if hf != nil && hf.Decl.Body != nil {
					inlinedDecl[hf.Decl] = true
					sub := &mapLoop{Pkg: l.Pkg, Fn: hf.Decl, FnName: l.FnName, depth: l.depth + 1, Range: &ast.RangeStmt{For: hf.Decl.Body.Pos(), Key: l.Range.Key, X: l.Range.X, Body: hf.Decl.Body}}
					classifyLoop(p, sub, absorbing)
					for _, e := range sub.Effects {
						if e.Kind == "return-const" || e.Kind == "return-error" || e.Kind == "return-value" {
							continue // returns of the helper are not returns of the loop's function
						}
						l.Effects = append(l.Effects, e)
					}
					return true
				}
			}
			add("effect-call", nil, x.Pos(), name)
		}
		return true
	})
}

// verdict summarises the classification of a loop.
// "commutative", "append" (needs sort obligations), "error-choice", or "order-sensitive".
func (l *mapLoop) verdict() (string, []loopEffect) {
	var bad []loopEffect
	hasAppend, hasErr := false, false
	for _, e := range l.Effects {
		switch {
		case commutativeKinds[e.Kind]:
		case e.Kind == "append":
			hasAppend = true
		case e.Kind == "return-error":
			hasErr = true
		default:
			bad = append(bad, e)
		}
	}
	switch {
	case len(bad) > 0:
		return "order-sensitive", bad
	case hasAppend:
		return "append", nil
	case hasErr:
		return "error-choice", nil
	}
	return "commutative", nil
}

// ---- sorted-before-use ------------------------------------------------------------------------------

// sortingCallOn reports whether call sorts the slice denoted by obj (sort.* / slices.Sort* with the
// slice as first argument, or sort.Sort(wrapper(S))).
func sortingCallOn(info *types.Info, call *ast.CallExpr, obj types.Object) bool {
	fn := Callee(info, call)
	if fn == nil || fn.Pkg() == nil || len(call.Args) == 0 {
		return false
	}
	pkg, name := fn.Pkg().Path(), fn.Name()
	isSort := false
	switch pkg {
	case "sort":
		switch name {
		case "Strings", "Ints", "Float64s", "Slice", "SliceStable", "Sort", "Stable":
			isSort = true
		}
	case "slices":
		switch name {
		case "Sort", "SortFunc", "SortStableFunc":
			isSort = true
		}
	}
	if !isSort && moduleSortFunc != nil && moduleSortFunc(fn) {
		isSort = true
	}
	if !isSort {
		return false
	}
	return usesObj(info, call.Args[0], obj)
}

// moduleSortFunc is set by the program loader user: reports in-module functions that sort their first
// (slice) parameter in place.
var moduleSortFunc func(fn *types.Func) bool

// inPlaceSorter decides whether fn (declared in the module) sorts its first parameter in place: its body
// contains a sort.* / slices.Sort* call whose first argument mentions that parameter.
func inPlaceSorter(p *Prog, fn *types.Func) bool {
	if fn == nil || fn.Pkg() == nil || !isModulePkg(fn.Pkg()) {
		return false
	}
	d := p.DeclOf(fn)
	if d == nil || d.Decl.Body == nil || d.Decl.Type.Params == nil || len(d.Decl.Type.Params.List) == 0 || len(d.Decl.Type.Params.List[0].Names) == 0 {
		return false
	}
	info := d.Info()
	param := info.Defs[d.Decl.Type.Params.List[0].Names[0]]
	if param == nil {
		return false
	}
	if _, isSlice := param.Type().Underlying().(*types.Slice); !isSlice {
		return false
	}
	found := false
	ast.Inspect(d.Decl.Body, func(n ast.Node) bool {
		call, ok := n.(*ast.CallExpr)
		if !ok || len(call.Args) == 0 {
			return true
		}
		c := Callee(info, call)
		if c == nil || c.Pkg() == nil {
			return true
		}
		if (c.Pkg().Path() == "sort" || c.Pkg().Path() == "slices") && usesObj(info, call.Args[0], param) {
			switch c.Name() {
			case "Strings", "Ints", "Slice", "SliceStable", "Sort", "Stable", "SortFunc", "SortStableFunc":
				found = true
			}
		}
		return !found
	})
	return found
}

// sortedBeforeUse checks that, after the loop, every path to the first other use of slice obj passes
// a sort of it. consumerSorts lists functions that sort (or are insensitive to the order of) the
// slice they receive. Returns ok and a description.
func sortedBeforeUse(p *Prog, l *mapLoop, obj types.Object, consumerSorts func(fn *types.Func, argIdx int) string) (bool, string) {
	info := l.Pkg.TypesInfo
	body := funcBody(l.Fn)
	if body == nil {
		return false, "no function body"
	}
	g := p.CFGOf(body, info)
	var sorts, aliasDefs []ast.Node
	type use struct {
		n    ast.Node
		desc string
	}
	var uses []use
	inspectNoFuncLit(body, func(n ast.Node) bool {
		if call, ok := n.(*ast.CallExpr); ok && sortingCallOn(info, call, obj) {
			sorts = append(sorts, call)
		}
		return true
	})
	// a sort of a named sub-slice of the slice (`tail := s[k:]; sort.Strings(tail)`) sorts the slice in place
	inspectNoFuncLit(body, func(n ast.Node) bool {
		as, ok := n.(*ast.AssignStmt)
		if !ok || len(as.Lhs) != 1 || len(as.Rhs) != 1 {
			return true
		}
		se, ok := ast.Unparen(as.Rhs[0]).(*ast.SliceExpr)
		if !ok || identObj(info, se.X) != obj {
			return true
		}
		alias := identObj(info, as.Lhs[0])
		if alias == nil {
			return true
		}
		sortedAlias := false
		inspectNoFuncLit(body, func(m ast.Node) bool {
			if call, ok := m.(*ast.CallExpr); ok && sortingCallOn(info, call, alias) {
				sorts = append(sorts, call)
				sortedAlias = true
			}
			return true
		})
		if sortedAlias {
			aliasDefs = append(aliasDefs, as)
		}
		return true
	})
	inSort := func(n ast.Node) bool {
		for _, d := range aliasDefs {
			if containsNode(d, n) {
				return true
			}
		}
		for _, s := range sorts {
			if containsNode(s, n) {
				return true
			}
		}
		return false
	}
	ast.Inspect(body, func(n ast.Node) bool {
		id, ok := n.(*ast.Ident)
		if !ok || info.Uses[id] != obj {
			return true
		}
		if containsNode(l.Range, id) || inSort(id) {
			return true
		}
		// len(S), cap(S), S == nil, range over S for read-only membership are not order-revealing… keep len/cap only
		if call, ok := p.Parent(id).(*ast.CallExpr); ok {
			if fid, ok := call.Fun.(*ast.Ident); ok {
				if b, ok := info.Uses[fid].(*types.Builtin); ok && (b.Name() == "len" || b.Name() == "cap") {
					return true
				}
			}
			// argument of a consumer that sorts / is order-insensitive
			if callee := Callee(info, call); callee != nil && consumerSorts != nil {
				for ai, a := range call.Args {
					if identObj(info, a) == obj {
						if why := consumerSorts(callee, ai); why != "" {
							return true
						}
					}
				}
			}
		}
		// re-initialisation `S = nil` / `S = S[:0]` before the loop is not a use after it
		uses = append(uses, use{id, p.Pos(id.Pos())})
		return true
	})
	if len(uses) == 0 {
		return true, "slice is not used after the loop except through sorting/len/order-insensitive consumers"
	}
	for _, u := range uses {
		if !g.Reachable(l.Range.X, u.n) && !(u.n.Pos() > l.Range.End()) {
			continue
		}
		// only uses after the loop matter
		if !g.ReachableAvoiding(l.Range.Body, u.n, nil) && u.n.Pos() < l.Range.Pos() {
			continue
		}
		if u.n.Pos() < l.Range.Pos() {
			// a use textually before the loop that is reachable again (outer loop): conservative
			if !g.Reachable(l.Range.X, u.n) {
				continue
			}
		}
		if g.ReachableAvoiding(l.Range.X, u.n, sorts) {
			return false, "use at " + u.desc + " is reachable from the loop without passing a sort of " + obj.Name()
		}
	}
	return true, fmt.Sprintf("%d later use(s), each preceded by a sort of %s on every path", len(uses), obj.Name())
}

func effectSummary(es []loopEffect) string {
	m := map[string]int{}
	for _, e := range es {
		k := e.Kind
		if e.Kind == "effect-call" || e.Kind == "absorbing-call" {
			k += ":" + e.Detail
		}
		m[k]++
	}
	var parts []string
	for _, k := range sortedKeys(m) {
		parts = append(parts, fmt.Sprintf("%s×%d", k, m[k]))
	}
	sort.Strings(parts)
	return strings.Join(parts, ", ")
}

// iterationTemp reports whether obj, though declared outside the loop, is a per-iteration temporary:
// it is never referenced after the loop, and inside the body its textually first reference is a write.
func iterationTemp(p *Prog, info *types.Info, l *mapLoop, obj types.Object) bool {
	if obj == nil {
		return false
	}
	if _, isVar := obj.(*types.Var); !isVar || obj.Parent() == nil || obj.Parent() == obj.Pkg().Scope() {
		return false
	}
	body := funcBody(l.Fn)
	if body == nil {
		return false
	}
	usedAfter := false
	ast.Inspect(body, func(n ast.Node) bool {
		if id, ok := n.(*ast.Ident); ok && info.Uses[id] == obj && id.Pos() >= l.Range.End() {
			usedAfter = true
		}
		return !usedAfter
	})
	if usedAfter {
		return false
	}
	// named results are read by the caller
	if ft := funcType(l.Fn); ft != nil && ft.Results != nil {
		for _, f := range ft.Results.List {
			for _, nm := range f.Names {
				if info.Defs[nm] == obj {
					return false
				}
			}
		}
	}
	var first *ast.Ident
	ast.Inspect(l.Range.Body, func(n ast.Node) bool {
		if id, ok := n.(*ast.Ident); ok && info.Uses[id] == obj {
			if first == nil || id.Pos() < first.Pos() {
				first = id
			}
		}
		return true
	})
	if first == nil {
		return false
	}
	as, ok := p.Parent(first).(*ast.AssignStmt)
	if !ok {
		return false
	}
	for _, l := range as.Lhs {
		if l == ast.Expr(first) {
			// and the right-hand side must not read it
			for _, r := range as.Rhs {
				if usesObj(info, r, obj) {
					return false
				}
			}
			return true
		}
	}
	return false
}

// lazyInit: the assignment to obj is nested (inside the loop) in `if obj == nil { … }`.
func lazyInit(p *Prog, info *types.Info, n ast.Node, obj types.Object, root ast.Node) bool {
	for cur := p.Parent(n); cur != nil && cur != root; cur = p.Parent(cur) {
		ifs, ok := cur.(*ast.IfStmt)
		if !ok {
			continue
		}
		if be, ok := ast.Unparen(ifs.Cond).(*ast.BinaryExpr); ok && be.Op == token.EQL {
			if (identObj(info, be.X) == obj && isNilIdent(info, be.Y)) || (identObj(info, be.Y) == obj && isNilIdent(info, be.X)) {
				return true
			}
		}
	}
	return false
}

// localClosure resolves `f` in a call f(...) to the function literal assigned to the local variable f
// exactly once in the enclosing function.
func localClosure(p *Prog, info *types.Info, fn ast.Node, fun ast.Expr) *ast.FuncLit {
	obj := identObj(info, fun)
	if obj == nil {
		return nil
	}
	body := funcBody(fn)
	if body == nil {
		return nil
	}
	var lit *ast.FuncLit
	n := 0
	ast.Inspect(body, func(x ast.Node) bool {
		as, ok := x.(*ast.AssignStmt)
		if !ok || len(as.Lhs) != len(as.Rhs) {
			return true
		}
		for i, l := range as.Lhs {
			if identObj(info, l) == obj {
				n++
				if fl, ok := as.Rhs[i].(*ast.FuncLit); ok {
					lit = fl
				}
			}
		}
		return true
	})
	if n != 1 {
		return nil
	}
	return lit
}

type callbackLit struct {
	lit *ast.FuncLit
	fn  ast.Node
}

// callbackLiterals: fun names a function-typed parameter of the loop's own (unexported) function; the result lists
// the function literals passed for it at every call site of that function in the package, or nil when some call site
// passes something else (or there is no call site).
func callbackLiterals(p *Prog, l *mapLoop, fun ast.Expr) []callbackLit {
	lfn, _ := l.Fn.(*ast.FuncDecl)
	return paramCallbackLiterals(l.Pkg, lfn, fun)
}

// paramCallbackLiterals is callbackLiterals for any function declaration of a package.
func paramCallbackLiterals(pk *packages.Package, lfn *ast.FuncDecl, fun ast.Expr) []callbackLit {
	info := pk.TypesInfo
	id, ok := ast.Unparen(fun).(*ast.Ident)
	if !ok || lfn == nil || lfn.Type.Params == nil {
		return nil
	}
	obj := info.Uses[id]
	if obj == nil {
		return nil
	}
	idx, pi := -1, 0
	for _, fld := range lfn.Type.Params.List {
		for _, nm := range fld.Names {
			if info.Defs[nm] == obj {
				idx = pi
			}
			pi++
		}
	}
	if idx < 0 || lfn.Name.IsExported() {
		return nil
	}
	fnObj := info.Defs[lfn.Name]
	var out []callbackLit
	all := true
	for _, f := range pk.Syntax {
		for _, d := range f.Decls {
			fd, ok := d.(*ast.FuncDecl)
			if !ok || fd.Body == nil {
				continue
			}
			ast.Inspect(fd.Body, func(n ast.Node) bool {
				call, ok := n.(*ast.CallExpr)
				if !ok {
					return true
				}
				callee := Callee(info, call)
				if callee == nil || (types.Object(callee) != fnObj && types.Object(callee.Origin()) != fnObj) {
					return true
				}
				if idx >= len(call.Args) {
					all = false
					return true
				}
				if lit, ok := ast.Unparen(call.Args[idx]).(*ast.FuncLit); ok {
					out = append(out, callbackLit{lit, fd})
				} else {
					all = false
				}
				return true
			})
		}
	}
	if !all {
		return nil
	}
	return out
}
