package main

import (
	"golang.org/x/tools/go/ssa"
)

// archiveReaderFuncs returns the archive reader `entry` together with the functions of its own package it calls
// (two levels) and their closures, without the name validator itself: the per-entry part of the loop may live in a
// helper (`untarEntry`) and the rules about entries apply there as they do in the loop.
func archiveReaderFuncs(entry *ssa.Function) []*ssa.Function {
	var out []*ssa.Function
	for _, f := range reachSSA(entry, 2) {
		if f.Pkg != entry.Pkg && (f.Parent() == nil || f.Parent().Pkg != entry.Pkg) {
			continue
		}
		if f.Name() == "unmapArchivePath" {
			continue
		}
		out = append(out, f)
	}
	return out
}

// reachSSAWithValues is reachSSA that also follows functions used as values inside the reached functions: a callback
// handed over as a method value (`walker.visit`, a bound-method wrapper) or as a named function instead of a literal.
func reachSSAWithValues(fn *ssa.Function, depth int) []*ssa.Function {
	seen := map[*ssa.Function]bool{}
	var out []*ssa.Function
	var add func(f *ssa.Function, d int)
	add = func(f *ssa.Function, d int) {
		for _, g := range reachSSA(f, d) {
			if seen[g] {
				continue
			}
			seen[g] = true
			out = append(out, g)
			if d == 0 {
				continue
			}
			for _, b := range g.Blocks {
				for _, ins := range b.Instrs {
					for _, op := range ins.Operands(nil) {
						if op == nil || *op == nil {
							continue
						}
						var vf *ssa.Function
						switch t := (*op).(type) {
						case *ssa.Function:
							vf = t
						case *ssa.MakeClosure:
							vf, _ = t.Fn.(*ssa.Function)
						}
						if vf == nil || seen[vf] || len(vf.Blocks) == 0 {
							continue
						}
						// only the module's own functions (and the synthetic wrappers around them)
						if vf.Pkg != nil && !isModulePkg(vf.Pkg.Pkg) {
							continue
						}
						add(vf, d-1)
					}
				}
			}
		}
	}
	add(fn, depth)
	return out
}

// loopSkipDecisions returns, for a block u inside a loop, the loop header and the branch points of the loop that decide
// whether this iteration reaches u at all: one side gets to u (without passing the header), another stays in the loop
// and does not. Exits of the loop (returns, breaks) are not skips of an element.
func loopSkipDecisions(f *ssa.Function, u *ssa.BasicBlock) (*ssa.BasicBlock, []*ssa.If) {
	var h *ssa.BasicBlock
	var loop map[*ssa.BasicBlock]bool
	for _, b := range f.Blocks {
		if l := loopBlocks(b); l != nil && l[u] && (loop == nil || len(l) < len(loop)) {
			h, loop = b, l
		}
	}
	if h == nil {
		return nil, nil
	}
	var out []*ssa.If
	for _, b := range f.Blocks {
		if !loop[b] || b == h || b == u || u.Dominates(b) {
			continue
		}
		i := ifOf(b)
		if i == nil {
			continue
		}
		reaches, skips := false, false
		for _, s := range b.Succs {
			if !loop[s] {
				continue
			}
			if s == u || blockReachesAvoiding(s, u, h) {
				reaches = true
			} else {
				skips = true
			}
		}
		if reaches && skips {
			out = append(out, i)
		}
	}
	return h, out
}
