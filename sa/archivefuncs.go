package main

import (
	"golang.org/x/tools/go/ssa"
)

// archiveReaderFuncs returns the archive reader `entry` together with the functions of its own package it calls
// (two levels) and their closures, without the name validator itself: the per-entry part of the loop may live in a
// helper (`untarEntry`) and the rules about entries apply there as they do in the loop.
func archiveReaderFuncs(entry *ssa.Function) []*ssa.Function {
	var out []*ssa.Function
	for _, f := range reachSSA(entry, 2) {
		if f.Pkg != entry.Pkg && (f.Parent() == nil || f.Parent().Pkg != entry.Pkg) {
			continue
		}
		if f.Name() == "unmapArchivePath" {
			continue
		}
		out = append(out, f)
	}
	return out
}
