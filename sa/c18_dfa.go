package main

import (
	"fmt"
	"go/ast"
	"go/constant"
	"go/token"
	"go/types"
	"sort"
	"strings"
)

// DFA-SPEC (C18, added after seeded change C18-a).
//
// The mark-and-sweep of source-code-info locations classifies every location path with a small automaton written as
// Go functions (location_path_dfa.go): each state is a func(int32) (nextState, pathType), getPathType drives it.
// The rule extracts the automaton from the syntax tree — the constants, each state's switch table, the driver's
// initial state/type and what it does when the automaton has finished but the path has not — and evaluates it,
// inside the checker, over every path up to a bound over the alphabet {every tag the automaton mentions, one other
// value}. The result must equal the specification of a field-option path written here independently from
// descriptor.proto: (4 i (3 i)* (2|6) i | 7 i) 8 is the options root, anything longer with that prefix is a field
// option, everything else is not. This is an exhaustive bounded evaluation of extracted tables, not an execution of
// the repository's code.
type dfaState struct {
	name    string
	byInput map[int64]dfaEdge
	deflt   dfaEdge
}

type dfaEdge struct {
	next string // "" = nil (finished)
	typ  string
}

func c18DFA(c *Ctx) {
	const rule = "DFA-SPEC"
	c.Rule(rule, "the location-path automaton classifies every path (exhaustively up to a bound) as the descriptor.proto grammar of field-option paths does", 3)
	p := c.P
	pk := p.Pkg("private/bufpkg/bufimage/bufimagemodify/internal")
	if pk == nil {
		c.Fail(rule, "anchor", token.NoPos, "bufimagemodify/internal not found")
		return
	}
	info := pk.TypesInfo
	constVal := func(e ast.Expr) (int64, bool) {
		tv, ok := info.Types[e]
		if !ok || tv.Value == nil {
			return 0, false
		}
		v, ok := constant.Int64Val(constant.ToInt(tv.Value))
		return v, ok
	}
	nameOf := func(e ast.Expr) string {
		if isNilIdent(info, e) {
			return ""
		}
		if o := identObj(info, e); o != nil {
			return o.Name()
		}
		return "?" + exprString(e)
	}
	edgeOf := func(r *ast.ReturnStmt) (dfaEdge, bool) {
		if len(r.Results) != 2 {
			return dfaEdge{}, false
		}
		return dfaEdge{nameOf(r.Results[0]), nameOf(r.Results[1])}, true
	}
	states := map[string]*dfaState{}
	alphabet := map[int64]bool{}
	for _, fr := range p.FuncsOf(pk) {
		sig, ok := info.Defs[fr.Decl.Name].Type().(*types.Signature)
		if !ok || sig.Params().Len() != 1 || sig.Results().Len() != 2 || namedName(sig.Results().At(0).Type()) != "locationPathDFAState" {
			continue
		}
		st := &dfaState{name: fr.Decl.Name.Name, byInput: map[int64]dfaEdge{}}
		okShape := true
		haveDefault := false
		for _, s := range fr.Decl.Body.List {
			switch x := s.(type) {
			case *ast.SwitchStmt:
				for _, cs := range x.Body.List {
					cc := cs.(*ast.CaseClause)
					if len(cc.Body) != 1 {
						okShape = false
						continue
					}
					r, isRet := cc.Body[0].(*ast.ReturnStmt)
					if !isRet {
						okShape = false
						continue
					}
					e, ok := edgeOf(r)
					if !ok {
						okShape = false
						continue
					}
					if cc.List == nil {
						st.deflt = e
						haveDefault = true
						continue
					}
					for _, ce := range cc.List {
						v, ok := constVal(ce)
						if !ok {
							okShape = false
							continue
						}
						st.byInput[v] = e
						alphabet[v] = true
					}
				}
			case *ast.ReturnStmt:
				if e, ok := edgeOf(x); ok && !haveDefault {
					st.deflt = e
					haveDefault = true
				}
			default:
				okShape = false
			}
		}
		c.Ob(rule, "state "+st.name+"/shape", fr.Decl.Pos(), okShape && haveDefault, true, "state %s is a switch over constants with single returns plus a default (%d explicit inputs)", st.name, len(st.byInput))
		if okShape && haveDefault {
			states[st.name] = st
		}
	}
	drv := p.Func("private/bufpkg/bufimage/bufimagemodify/internal", "getPathType")
	if drv == nil || len(states) < 5 {
		c.Fail(rule, "driver", token.NoPos, "getPathType not found or only %d states extracted", len(states))
		return
	}
	// driver: initial type, initial state, action when state == nil
	initType, initState := "", ""
	onNil := "" // "break" keeps the last type; "return X" yields X
	var typeVar, stateVar types.Object
	shape := true
	for _, s := range drv.Decl.Body.List {
		switch x := s.(type) {
		case *ast.AssignStmt:
			if len(x.Lhs) == 1 && len(x.Rhs) == 1 && x.Tok == token.DEFINE {
				o := identObj(info, x.Lhs[0])
				if namedName(info.TypeOf(x.Rhs[0])) == "pathType" {
					typeVar, initType = o, nameOf(x.Rhs[0])
				} else {
					stateVar, initState = o, nameOf(x.Rhs[0])
				}
			}
		case *ast.RangeStmt:
			for _, bs := range x.Body.List {
				switch y := bs.(type) {
				case *ast.IfStmt:
					if o, nonNil, ok := errNilTest(info, y.Cond); ok && !nonNil && o == stateVar && len(y.Body.List) >= 1 {
						switch z := y.Body.List[len(y.Body.List)-1].(type) {
						case *ast.BranchStmt:
							if z.Tok == token.BREAK {
								onNil = "break"
							}
						case *ast.ReturnStmt:
							if len(z.Results) == 1 {
								if identObj(info, z.Results[0]) == typeVar {
									onNil = "break"
								} else {
									onNil = "return " + nameOf(z.Results[0])
								}
							}
						}
					} else {
						shape = false
					}
				case *ast.AssignStmt:
					// currentState, pathType = currentState(element)
					if len(y.Lhs) != 2 || identObj(info, y.Lhs[0]) != stateVar || identObj(info, y.Lhs[1]) != typeVar {
						shape = false
					}
				default:
					shape = false
				}
			}
		case *ast.ReturnStmt:
			if len(x.Results) != 1 || identObj(info, x.Results[0]) != typeVar {
				shape = false
			}
		default:
			shape = false
		}
	}
	c.Ob(rule, "driver/shape", drv.Decl.Pos(), shape && initType != "" && initState != "" && onNil != "", true,
		"getPathType: initial type %s, initial state %s, when the automaton has finished but the path has not: %q", initType, initState, onNil)
	if !shape || initState == "" || onNil == "" {
		return
	}
	run := func(path []int64) string {
		typ, st := initType, initState
		for _, el := range path {
			if st == "" {
				if onNil == "break" {
					break
				}
				return strings.TrimPrefix(onNil, "return ")
			}
			s := states[st]
			if s == nil {
				return "?unknown state " + st
			}
			e, ok := s.byInput[el]
			if !ok {
				e = s.deflt
			}
			st, typ = e.next, e.typ
		}
		return typ
	}
	// specification, from descriptor.proto: FileDescriptorProto.message_type=4, .extension=7; DescriptorProto.field=2,
	// .nested_type=3, .extension=6; FieldDescriptorProto.options=8
	spec := func(path []int64) string {
		i := 0
		next := func() (int64, bool) {
			if i >= len(path) {
				return 0, false
			}
			v := path[i]
			i++
			return v, true
		}
		v, ok := next()
		if !ok {
			return "pathTypeNotFieldOption"
		}
		inField := false
		switch v {
		case 4:
			if _, ok := next(); !ok {
				return "pathTypeNotFieldOption"
			}
			for !inField {
				v, ok := next()
				if !ok {
					return "pathTypeNotFieldOption"
				}
				switch v {
				case 3:
					if _, ok := next(); !ok {
						return "pathTypeNotFieldOption"
					}
				case 2, 6:
					if _, ok := next(); !ok {
						return "pathTypeNotFieldOption"
					}
					inField = true
				default:
					return "pathTypeNotFieldOption"
				}
			}
		case 7:
			if _, ok := next(); !ok {
				return "pathTypeNotFieldOption"
			}
		default:
			return "pathTypeNotFieldOption"
		}
		v, ok = next()
		if !ok || v != 8 {
			return "pathTypeNotFieldOption"
		}
		if i == len(path) {
			return "pathTypeFieldOptionsRoot"
		}
		return "pathTypeFieldOption"
	}
	var alpha []int64
	for v := range alphabet {
		alpha = append(alpha, v)
	}
	sort.Slice(alpha, func(i, j int) bool { return alpha[i] < alpha[j] })
	other := int64(0)
	for alphabet[other] {
		other++
	}
	alpha = append(alpha, other)
	// the specification's tags must all be in the automaton's alphabet (else the extraction lost something)
	for _, v := range []int64{2, 3, 4, 6, 7, 8} {
		if !alphabet[v] {
			c.Ob(rule, fmt.Sprintf("alphabet/%d", v), drv.Decl.Pos(), false, true, "descriptor.proto tag %d is not an input of any state of the automaton", v)
		}
	}
	// bounded-exhaustive: every path up to maxLen; the thorough tier goes one level deeper (x|alphabet| paths)
	maxLen := 8
	if c.Tier == "thorough" {
		maxLen = 9
	}
	total, bad := 0, 0
	firstBad := ""
	path := make([]int64, 0, maxLen)
	var rec func()
	rec = func() {
		total++
		if got, want := run(path), spec(path); got != want {
			bad++
			if firstBad == "" || len(path) < strings.Count(firstBad, ",")+1 {
				firstBad = fmt.Sprintf("%v: automaton says %s, descriptor.proto grammar says %s", path, got, want)
			}
		}
		if len(path) == maxLen {
			return
		}
		for _, a := range alpha {
			path = append(path, a)
			rec()
			path = path[:len(path)-1]
		}
	}
	rec()
	c.Ob(rule, "automaton=grammar", drv.Decl.Pos(), bad == 0, true,
		"%d paths of length <= %d over the alphabet %v evaluated on the extracted automaton (%d states): %d disagree with the grammar; shortest: %s", total, maxLen, alpha, len(states), bad, firstBad)
}
