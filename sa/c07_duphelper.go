package main

import (
	"go/ast"
	"go/token"
	"go/types"
	"strings"

	"golang.org/x/tools/go/ssa"
)

// c07DupHelper decides a "is this header element a redundant duplicate" predicate that was moved into a function of
// its own (`if f.isRedundantImport(nodes, i) { continue }`): wherever the function can return true, the element's name
// was compared equal with the name of the element before it (index minus one), and a has-comment question about the
// element was answered no. Reports isHelper=false when e is not a call of a package function returning one bool.
func c07DupHelper(p *Prog, info *types.Info, e ast.Expr) (eqPrev, noComment, isHelper bool) {
	call, ok := ast.Unparen(e).(*ast.CallExpr)
	if !ok {
		return
	}
	fn := Callee(info, call)
	if fn == nil || strings.Contains(fn.Name(), "HasComment") {
		return
	}
	sig, _ := fn.Type().(*types.Signature)
	if sig == nil || sig.Results().Len() != 1 || !isBoolType(sig.Results().At(0).Type()) {
		return
	}
	sf := p.SSAFunc(fn)
	if sf == nil || len(sf.Blocks) == 0 {
		return
	}
	isHelper = true
	isAsString := func(v ssa.Value) bool {
		c, ok := stripConv(v).(*ssa.Call)
		if !ok {
			return false
		}
		if o := staticCalleeObj(&c.Call); o != nil {
			return o.Name() == "AsString"
		}
		return c.Call.IsInvoke() && c.Call.Method.Name() == "AsString"
	}
	hasCommentCall := func(cc *ssa.CallCommon) bool {
		o := staticCalleeObj(cc)
		return o != nil && strings.Contains(o.Name(), "HasComment")
	}
	type item struct {
		v ssa.Value
		b *ssa.BasicBlock
	}
	var items []item
	for _, r := range returnsOf(sf) {
		if len(r.Results) != 1 {
			continue
		}
		v := spilledResult(r, r.Results[0])
		if ph, ok := v.(*ssa.Phi); ok {
			for i, ev := range ph.Edges {
				items = append(items, item{ev, ph.Block().Preds[i]})
			}
		} else {
			items = append(items, item{v, r.Block()})
		}
	}
	eqPrev, noComment = true, true
	n := 0
	for _, it := range items {
		if k, ok := it.v.(*ssa.Const); ok && k.Value != nil && k.Value.ExactString() == "false" {
			continue
		}
		n++
		eq, nc := false, false
		// the value itself
		if _, isConst := it.v.(*ssa.Const); !isConst {
			cv, pos := condPolarity(it.v)
			if !pos && dependsOnCall(cv, hasCommentCall) {
				nc = true
			}
		}
		for _, ge := range guardingEdges(it.b) {
			cv, pos := condPolarity(ge.If.Cond)
			holds := ge.Branch == pos
			if bo, ok := cv.(*ssa.BinOp); ok && isAsString(bo.X) && isAsString(bo.Y) {
				prev := false
				for _, side := range []ssa.Value{bo.X, bo.Y} {
					sliceBack(side, func(x ssa.Value) bool {
						if b2, ok := x.(*ssa.BinOp); ok && b2.Op == token.SUB {
							prev = true
						}
						return true
					})
				}
				if prev && ((bo.Op == token.EQL && holds) || (bo.Op == token.NEQ && !holds)) {
					eq = true
				}
			}
			if !holds && dependsOnCall(cv, hasCommentCall) {
				nc = true
			}
		}
		if !eq {
			eqPrev = false
		}
		if !nc {
			noComment = false
		}
	}
	if n == 0 {
		eqPrev, noComment = false, false
	}
	return
}
