package main

import (
	"fmt"
	"go/token"
	"strings"

	"golang.org/x/tools/go/packages"
)

// c17ResponseAddedWhole (RESPONSE-WHOLE; C17, after round-4 seed C17-j): one plugin's answers to the per-directory
// requests are produced by processes running in parallel and collected in one shared response writer. A file that a
// plugin streams in several chunks is a run of entries of which only the first carries the name, so the entries of one
// response must enter the writer together: the handlers call AddCodeGeneratorResponseFiles once, with the whole file
// list of the response, never per file from a loop (entries of two directories' answers would interleave and a
// nameless continuation chunk would be appended to the other directory's file).
func c17ResponseAddedWhole(c *Ctx, pk *packages.Package) {
	const rule = "RESPONSE-WHOLE"
	c.Rule(rule, "a plugin response's files are handed to the shared response writer in one call", 1)
	p := c.P
	n := 0
	for _, sf := range p.SSAFuncsOf([]*packages.Package{pk}) {
		for _, f := range allSSAFuncs(sf) {
			k := 0
			for _, call := range callsIn(f) {
				if !call.Call.IsInvoke() || call.Call.Method.Name() != "AddCodeGeneratorResponseFiles" {
					continue
				}
				n++
				k++
				inLoop := false
				for _, h := range f.Blocks {
					if l := loopBlocks(h); l != nil && l[call.Instr.Block()] {
						inLoop = true
					}
				}
				whole := false
				if len(call.Call.Args) > 0 {
					// the spread of a whole list (a call result or a field), not a packing of single elements
					whole = orderedVariadic(call.Call.Args[len(call.Call.Args)-1]) == nil
				}
				c.Ob(rule, fmt.Sprintf("%s/add#%d", ssaFuncName(f), k), call.Pos(), !inLoop && whole, true, "AddCodeGeneratorResponseFiles is called outside any loop: %v, with a whole list spread into it: %v", !inLoop, whole)
			}
		}
	}
	if n == 0 {
		c.Fail(rule, "anchor", token.NoPos, "no AddCodeGeneratorResponseFiles call found in %s", strings.TrimPrefix(pk.PkgPath, modPath))
	}
}
