package main

// C20 — exit status and every diagnostic format tell the same verdict.

import (
	"fmt"
	"go/ast"
	"go/constant"
	"go/token"
	"go/types"
	"strings"

	"golang.org/x/tools/go/packages"
	"golang.org/x/tools/go/ssa"
)

func init() {
	register(&propCheck{
		ID: "C20",
		Explanation: "Structural necessary conditions relating printing, exit status and formats: (1) R-PAIR — in the command packages and bufctl, every use of " +
			"bufctl.ErrFileAnnotation is preceded on every path by a print of the annotation set (frozen exceptions: format --exit-code's diff condition) and every return " +
			"reachable after a successful print is that sentinel; ExitCodeFileAnnotation is referenced only by its definition and the import-not-exist wrap; (2) every exported " +
			"*controller method that can yield annotations defers handleFileAnnotationSetRetError(&<named result>), and that handler replaces the error by the sentinel only " +
			"after the print succeeded; (3) app.GetExitCode returns 0 only under err == nil and newAppError never stores 0; (4) Format constants, stringToFormat, " +
			"formatToString, AllFormatStrings and the printer switch are mutually total and every arm passes fileAnnotationSet.FileAnnotations(); (5) fileAnnotationSet is " +
			"constructed only by newFileAnnotationSet, which sorts with a comparator over all printed fields and de-duplicates with a key whose variable-length components " +
			"are delimited; (6) message/path/plugin text reaches JSON through json.Marshal, JUnit through xml.Encoder and the github-actions line only through the escaping " +
			"helpers. NOT decided: the process's actual exit status and bytes.",
		Assumptions: []string{"encoding/json and encoding/xml produce well-formed output for any string"},
		Run:         runC20,
	})
}

func runC20(c *Ctx) {
	p := c.P
	c.Rule("PRINT-PAIR", "the annotation sentinel (exit 100) is returned iff an annotation set was printed", 6)
	c.Rule("EXIT-100-REFS", "the exit code 100 is referenced only by the sentinel and the import-not-exist wrap", 2)
	c.Rule("CONTROLLER-DEFER", "controller entry points convert annotation errors into print + sentinel", 10)
	c.Rule("EXIT-MAPPING", "exit status is 0 iff the error is nil", 3)
	c.Rule("FORMAT-TABLES", "format constants, name tables and the printer switch are mutually total over the same slice", 8)
	c.Rule("SET-CONSTRUCTION", "annotation sets are sorted and de-duplicated, with an unambiguous identity key", 4)
	c.Rule("ENCODED-OUTPUT", "structured formats encode or escape free text", 4)
	c.Rule("ESCAPE-ORDER", "the escape character itself is escaped first (or in a single pass)", 2)

	pkCtl := p.Pkg("private/buf/bufctl")
	if pkCtl == nil {
		c.Fail("PRINT-PAIR", "anchor", token.NoPos, "bufctl not found")
		return
	}
	sentinel := pkCtl.Types.Scope().Lookup("ErrFileAnnotation")
	exit100 := pkCtl.Types.Scope().Lookup("ExitCodeFileAnnotation")
	if sentinel == nil || exit100 == nil {
		c.Fail("PRINT-PAIR", "anchor", token.NoPos, "bufctl.ErrFileAnnotation / ExitCodeFileAnnotation not found")
		return
	}
	isBasePrint := func(info *types.Info, call *ast.CallExpr) bool {
		fn := Callee(info, call)
		return fn != nil && fn.Pkg() != nil && strings.HasPrefix(fn.Name(), "PrintFileAnnotationSet") &&
			(strings.HasSuffix(fn.Pkg().Path(), "bufpkg/bufanalysis") || strings.HasSuffix(fn.Pkg().Path(), "buf/bufcli"))
	}
	// a print wrapper: a function of the command tree returning a single error in which every print call is the
	// operand of a return statement (its error goes straight to the caller, which is where it is tested)
	wrapperMemo := map[*types.Func]bool{}
	isPrintWrapper := func(fn *types.Func) bool {
		if fn == nil || fn.Pkg() == nil || !strings.HasPrefix(fn.Pkg().Path(), modPath) {
			return false
		}
		if v, ok := wrapperMemo[fn]; ok {
			return v
		}
		wrapperMemo[fn] = false
		d := p.DeclOf(fn)
		if d == nil || d.Decl.Body == nil || d.Decl.Type.Results == nil || len(d.Decl.Type.Results.List) != 1 || !isErrorType(d.Info().TypeOf(d.Decl.Type.Results.List[0].Type)) {
			return false
		}
		prints, direct := 0, 0
		ast.Inspect(d.Decl.Body, func(n ast.Node) bool {
			if call, ok := n.(*ast.CallExpr); ok && isBasePrint(d.Info(), call) {
				prints++
				if r, ok := p.Parent(call).(*ast.ReturnStmt); ok && len(r.Results) == 1 {
					direct++
				}
			}
			return true
		})
		wrapperMemo[fn] = prints > 0 && prints == direct
		return wrapperMemo[fn]
	}
	isPrint := func(info *types.Info, call *ast.CallExpr) bool {
		return isBasePrint(info, call) || isPrintWrapper(Callee(info, call))
	}
	// (1) uses of the sentinel
	for _, pk := range p.ModulePkgs() {
		rel := relPkg(pk.PkgPath)
		if !strings.HasPrefix(rel, "private/buf/") {
			continue
		}
		info := pk.TypesInfo
		for id, obj := range info.Uses {
			switch obj {
			case exit100:
				fd := p.EnclosingFuncDecl(id)
				name := rel
				if fd != nil {
					name = rel + "." + declName(fd)
				}
				ok := (rel == "private/buf/bufctl" && fd == nil) || name == "private/buf/cmd/buf.wrapError"
				c.Ob("EXIT-100-REFS", name, id.Pos(), ok, false, "reference to ExitCodeFileAnnotation in %s (allowed: the sentinel's definition, and wrapError's import-not-exist case)", name)
			case sentinel:
				fd := p.EnclosingFuncDecl(id)
				if fd == nil {
					continue
				}
				name := rel + "." + declName(fd)
				encl := p.EnclosingFunc(id)
				body := funcBody(encl)
				g := p.CFGOf(body, info)
				var prints []ast.Node
				inspectNoFuncLit(body, func(n ast.Node) bool {
					if call, ok := n.(*ast.CallExpr); ok && isPrint(info, call) {
						prints = append(prints, call)
					}
					return true
				})
				// the statement using the sentinel
				var stmt ast.Node = id
				for cur := p.Parent(id); cur != nil; cur = p.Parent(cur) {
					if _, ok := cur.(ast.Stmt); ok {
						stmt = cur
						break
					}
				}
				if len(prints) == 0 {
					// reviewed exceptions
					why := ""
					switch {
					case name == "private/buf/cmd/buf/command/format.run":
						// format --exit-code: guarded by the diff condition
						if dfn, ok := encl.(*ast.FuncLit); ok && c20FormatExitGuarded(p, pk, dfn) {
							why = "format --exit-code: set in a deferred function only when retErr == nil && flags.ExitCode && diffExists"
						}
					}
					c.Ob("PRINT-PAIR", name+"/sentinel", id.Pos(), why != "", true, "sentinel used without a print in the same function: %s", map[bool]string{true: why, false: "no reviewed exception applies"}[why != ""])
					continue
				}
				skipped := g.ReachableAvoiding(nil, stmt, prints)
				c.Ob("PRINT-PAIR", name+"/sentinel-after-print", id.Pos(), !skipped, true, "every path to the use of ErrFileAnnotation passes a print of the annotation set: %v", !skipped)
			}
		}
		// converse: after a successful print every reachable return is the sentinel
		// (the buf command tree and the controller only: protoc plugins report through the plugin response)
		if !strings.HasPrefix(rel, "private/buf/cmd/buf/command/") && rel != "private/buf/bufctl" {
			continue
		}
		if strings.HasPrefix(rel, "private/buf/cmd/buf/command/alpha/") {
			continue
		}
		for _, fr := range p.FuncsOf(pk) {
			ast.Inspect(fr.Decl.Body, func(n ast.Node) bool {
				call, ok := n.(*ast.CallExpr)
				if !ok || !isPrint(info, call) {
					return true
				}
				encl := p.EnclosingFunc(call)
				body := funcBody(encl)
				g := p.CFGOf(body, info)
				// the error branch of the print
				var errBody *ast.BlockStmt
				if ifs, ok := p.Parent(p.Parent(call)).(*ast.IfStmt); ok && nonNilErrTested(info, ifs.Cond) != nil {
					errBody = ifs.Body
				}
				name := rel + "." + declName(fr.Decl)
				bad := ""
				nret := 0
				for _, r := range g.Returns() {
					if errBody != nil && containsNode(errBody, r) {
						continue
					}
					if !g.Reachable(call, r) {
						continue
					}
					nret++
					usesSentinel := len(r.Results) > 0 && usesObj(info, r.Results[len(r.Results)-1], sentinel)
					if !usesSentinel {
						// controller handler: assignment through the pointer followed by bare return
						assigned := false
						ast.Inspect(body, func(m ast.Node) bool {
							if as, ok := m.(*ast.AssignStmt); ok && len(as.Rhs) == 1 && usesObj(info, as.Rhs[0], sentinel) && g.Dominates(call, as) {
								assigned = true
							}
							return true
						})
						if !assigned {
							bad = p.Pos(r.Pos())
						}
					}
				}
				if errBody == nil {
					if fr.Obj != nil && isPrintWrapper(fr.Obj) {
						c.Ob("PRINT-PAIR", name+"/print-error-propagated", call.Pos(), true, false, "print wrapper: the print's error is returned to the caller, where calls of the wrapper are held to this rule")
						return true
					}
					c.Ob("PRINT-PAIR", name+"/print-error-tested", call.Pos(), false, true, "the print's error is not tested in an `if err := …; err != nil` form: undecided")
					return true
				}
				okFall := true
				if nret == 0 {
					// falls off the end: the sentinel must have been assigned (controller handler)
					okFall = false
					ast.Inspect(body, func(m ast.Node) bool {
						if as, ok := m.(*ast.AssignStmt); ok && len(as.Rhs) == 1 && usesObj(info, as.Rhs[0], sentinel) && g.Dominates(call, as) {
							okFall = true
						}
						return true
					})
				}
				c.Ob("PRINT-PAIR", name+"/print-then-sentinel", call.Pos(), bad == "" && okFall, true, "after a successful print every exit yields ErrFileAnnotation %s", map[bool]string{true: "", false: "— offending return at " + bad}[bad == ""])
				return true
			})
		}
	}

	c20Controller(c, pkCtl)
	c20ExitMapping(c)
	c20Formats(c)
	c20SetConstruction(c)
	c20Encoded(c)
	c20Extra(c)
	c20ErrorFormatWired(c)
	if q := c.P.Pkg("private/bufpkg/bufanalysis"); q != nil {
		c20PositionsClamped(c, q)
		c20FormatConstant(c, q)
		c20AccessorsPlain(c)
		c20DiffRawBytes(c)
		c20ClampByConstantOnly(c)
	}
	c20ExitCodeOwn(c)
	c20ExitCodeSurvives(c)
	c20GroupingKeepsOrder(c)
	// the printers' own write errors are what turns "annotations were printed" (exit 100) into an operational failure:
	// no error-returning call of bufanalysis may go unconsumed (a deferred bufio Flush, for instance) - shared with C15
	c.Rule("R-ERRUSE", "no unconsumed error in the annotation printers", 5)
	if q := c.P.Pkg("private/bufpkg/bufanalysis"); q != nil {
		ruleErrUse(c, "R-ERRUSE", []*packages.Package{q}, func(string) (bool, string) { return true, "" }, c15AllowedErrUse)
	}
}

var c20ControllerNoAnnotations = map[string]string{
	"GetCheckClientForWorkspace":  "builds no image and runs no check: cannot produce a FileAnnotationSet",
	"GetImportableImageFileInfos": "",
}

func c20Controller(c *Ctx, pk *packages.Package) {
	p := c.P
	info := pk.TypesInfo
	n := 0
	for _, fr := range p.FuncsOf(pk) {
		if recvTypeName(fr.Decl) != "controller" || !fr.Decl.Name.IsExported() {
			continue
		}
		// only methods returning an error
		sig := fr.Obj.Type().(*types.Signature)
		if !lastResultIsError(sig) {
			continue
		}
		n++
		named := namedErrorResults(info, fr.Decl.Type)
		has := false
		for _, st := range fr.Decl.Body.List {
			ds, ok := st.(*ast.DeferStmt)
			if !ok {
				continue
			}
			if sel, ok := ds.Call.Fun.(*ast.SelectorExpr); ok && sel.Sel.Name == "handleFileAnnotationSetRetError" && len(ds.Call.Args) == 1 {
				if ue, ok := ds.Call.Args[0].(*ast.UnaryExpr); ok && ue.Op == token.AND && len(named) > 0 && identObj(info, ue.X) == named[len(named)-1] {
					has = true
				}
			}
		}
		if why, exempt := c20ControllerNoAnnotations[fr.Decl.Name.Name]; exempt && why != "" && !has {
			c.Ob("CONTROLLER-DEFER", fr.ID(), fr.Decl.Pos(), true, false, "reviewed exception: %s", why)
			continue
		}
		c.Ob("CONTROLLER-DEFER", fr.ID(), fr.Decl.Pos(), has, true, "defers c.handleFileAnnotationSetRetError(&<named error result>) at top level: %v", has)
	}
	if n < 10 {
		c.Fail("CONTROLLER-DEFER", "method-count", token.NoPos, "only %d exported error-returning controller methods", n)
	}
}

func c20ExitMapping(c *Ctx) {
	p := c.P
	fr := p.Func("private/pkg/app", "GetExitCode")
	if fr == nil {
		c.Fail("EXIT-MAPPING", "GetExitCode", token.NoPos, "not found")
		return
	}
	info := fr.Info()
	errObj := info.Defs[fr.Decl.Type.Params.List[0].Names[0]]
	okZero, nZero, okNonZero := true, 0, true
	ast.Inspect(fr.Decl.Body, func(n ast.Node) bool {
		r, ok := n.(*ast.ReturnStmt)
		if !ok || len(r.Results) != 1 {
			return true
		}
		if tv, has := info.Types[r.Results[0]]; has && tv.Value != nil {
			if tv.Value.ExactString() == "0" {
				nZero++
				guarded := false
				for cur := p.Parent(r); cur != nil && cur != fr.Decl; cur = p.Parent(cur) {
					if ifs, ok := cur.(*ast.IfStmt); ok {
						if o, nonNil, ok := errNilTest(info, ifs.Cond); ok && o == errObj && !nonNil {
							guarded = true
						}
					}
				}
				if !guarded {
					okZero = false
				}
			}
		}
		return true
	})
	c.Ob("EXIT-MAPPING", "app.GetExitCode/zero-iff-nil", fr.Decl.Pos(), okZero && nZero == 1, true, "`return 0` occurs once and only under `err == nil`: %v", okZero && nZero == 1)
	// the err == nil test is the first statement
	first := false
	if len(fr.Decl.Body.List) > 0 {
		if ifs, ok := fr.Decl.Body.List[0].(*ast.IfStmt); ok {
			if o, nonNil, ok := errNilTest(info, ifs.Cond); ok && o == errObj && !nonNil {
				first = true
			}
		}
	}
	c.Ob("EXIT-MAPPING", "app.GetExitCode/nil-test-first", fr.Decl.Pos(), first, true, "the nil test dominates everything else: %v", first)
	_ = okNonZero
	// newAppError never stores 0
	na := p.Func("private/pkg/app", "newAppError")
	if na == nil {
		c.Fail("EXIT-MAPPING", "newAppError", token.NoPos, "not found")
		return
	}
	ninfo := na.Info()
	codeObj := ninfo.Defs[na.Decl.Type.Params.List[0].Names[0]]
	guard := false
	ast.Inspect(na.Decl.Body, func(n ast.Node) bool {
		ifs, ok := n.(*ast.IfStmt)
		if !ok {
			return true
		}
		be, ok := ast.Unparen(ifs.Cond).(*ast.BinaryExpr)
		if !ok || identObj(ninfo, be.X) != codeObj || !constIntIs(ninfo, be.Y, 0) || (be.Op != token.EQL && be.Op != token.LEQ && be.Op != token.LSS) {
			return true
		}
		for _, st := range ifs.Body.List {
			if as, ok := st.(*ast.AssignStmt); ok && len(as.Lhs) == 1 && identObj(ninfo, as.Lhs[0]) == codeObj {
				if tv, has := ninfo.Types[as.Rhs[0]]; has && tv.Value != nil && tv.Value.ExactString() != "0" {
					guard = true
				}
			}
		}
		return true
	})
	c.Ob("EXIT-MAPPING", "app.newAppError/never-zero", na.Decl.Pos(), guard, true, "an exit code of 0 is replaced by a non-zero constant before it is stored: %v", guard)
	// the sentinel is built with the 100 constant
	pkCtl := p.Pkg("private/buf/bufctl")
	ok100 := false
	for _, f := range pkCtl.Syntax {
		ast.Inspect(f, func(n ast.Node) bool {
			vs, ok := n.(*ast.ValueSpec)
			if !ok {
				return true
			}
			for i, nm := range vs.Names {
				if nm.Name == "ErrFileAnnotation" && i < len(vs.Values) {
					if call, ok := vs.Values[i].(*ast.CallExpr); ok && len(call.Args) >= 1 {
						if id, ok := call.Args[0].(*ast.Ident); ok && id.Name == "ExitCodeFileAnnotation" {
							ok100 = true
						}
					}
				}
				if nm.Name == "ExitCodeFileAnnotation" && i < len(vs.Values) {
					if tv, has := pkCtl.TypesInfo.Types[vs.Values[i]]; has && tv.Value != nil && tv.Value.ExactString() != "100" {
						ok100 = false
					}
				}
			}
			return true
		})
	}
	c.Ob("EXIT-MAPPING", "bufctl.ErrFileAnnotation/code", token.NoPos, ok100, false, "the sentinel carries ExitCodeFileAnnotation (= 100): %v", ok100)
}

func c20Formats(c *Ctx) {
	p := c.P
	pk := p.Pkg("private/bufpkg/bufanalysis")
	if pk == nil {
		c.Fail("FORMAT-TABLES", "anchor", token.NoPos, "bufanalysis not found")
		return
	}
	info := pk.TypesInfo
	fmtObj := pk.Types.Scope().Lookup("Format")
	if fmtObj == nil {
		c.Fail("FORMAT-TABLES", "Format", token.NoPos, "type not found")
		return
	}
	consts := enumConstants(fmtObj.Type())
	// formatToString total
	if cl := pkgVarLiteral(pk, "formatToString"); cl != nil {
		missing, total, ok := mapLiteralMissingKeys(info, cl)
		c.Ob("FORMAT-TABLES", "formatToString", cl.Pos(), ok && len(missing) == 0, true, "%d Format constants; without a name: %v", total, missing)
	} else {
		c.Fail("FORMAT-TABLES", "formatToString", token.NoPos, "not found")
	}
	// stringToFormat covers every constant, and every AllFormatStrings entry is a key; names round-trip
	s2f, f2s := map[string]string{}, map[string]string{}
	if cl := pkgVarLiteral(pk, "stringToFormat"); cl != nil {
		for _, el := range cl.Elts {
			kv := el.(*ast.KeyValueExpr)
			k, _ := stringLit(info, kv.Key)
			if tv, ok := info.Types[kv.Value]; ok && tv.Value != nil {
				s2f[k] = tv.Value.ExactString()
			}
		}
	}
	if cl := pkgVarLiteral(pk, "formatToString"); cl != nil {
		for _, el := range cl.Elts {
			kv := el.(*ast.KeyValueExpr)
			v, _ := stringLit(info, kv.Value)
			if tv, ok := info.Types[kv.Key]; ok && tv.Value != nil {
				f2s[tv.Value.ExactString()] = v
			}
		}
	}
	bad := ""
	for v, name := range f2s {
		if s2f[name] != v {
			bad = fmt.Sprintf("formatToString[%s]=%q but stringToFormat[%q]=%s", v, name, name, s2f[name])
		}
	}
	covered := map[string]bool{}
	for _, v := range s2f {
		covered[v] = true
	}
	for name, v := range consts {
		if !covered[v.ExactString()] {
			bad = "no string parses to " + name
		}
	}
	c.Ob("FORMAT-TABLES", "stringToFormat↔formatToString", token.NoPos, bad == "" && len(s2f) >= len(consts), true, "name tables are mutually inverse on the canonical names and cover %d constants %s", len(consts), bad)
	if cl := pkgVarLiteral(pk, "AllFormatStrings"); cl != nil {
		names, _ := stringList(info, cl)
		bad := ""
		seen := map[string]bool{}
		for _, n := range names {
			if _, ok := s2f[n]; !ok {
				bad = n + " is not parseable"
			}
			seen[s2f[n]] = true
		}
		for name, v := range consts {
			if !seen[v.ExactString()] {
				bad = "format " + name + " is not advertised"
			}
		}
		c.Ob("FORMAT-TABLES", "AllFormatStrings", cl.Pos(), bad == "", true, "%d advertised names, each parseable, together covering every constant %s", len(names), bad)
	} else {
		c.Fail("FORMAT-TABLES", "AllFormatStrings", token.NoPos, "not found")
	}
	// printer switch
	fr := p.Func("private/bufpkg/bufanalysis", "PrintFileAnnotationSet")
	if fr == nil {
		c.Fail("FORMAT-TABLES", "PrintFileAnnotationSet", token.NoPos, "not found")
		return
	}
	setObj := info.Defs[fr.Decl.Type.Params.List[1].Names[0]]
	for _, es := range findEnumSwitches(p, pk) {
		if !strings.HasSuffix(es.Fn, "PrintFileAnnotationSet") {
			continue
		}
		c.Ob("FORMAT-TABLES", "PrintFileAnnotationSet/switch-total", es.Switch.Pos(), len(es.Missing) == 0 && es.HasDefault && es.DefaultErr, true, "switch covers every Format (missing %v) and its default returns an error: %v", es.Missing, es.HasDefault)
		printers := map[string]bool{}
		for _, cl := range es.Switch.Body.List {
			cc := cl.(*ast.CaseClause)
			if cc.List == nil {
				continue
			}
			label := exprString(cc.List[0])
			ok := false
			for _, st := range cc.Body {
				r, isRet := st.(*ast.ReturnStmt)
				if !isRet || len(r.Results) != 1 {
					continue
				}
				call, isCall := r.Results[0].(*ast.CallExpr)
				if !isCall || len(call.Args) != 2 {
					continue
				}
				if inner, isC := call.Args[1].(*ast.CallExpr); isC {
					if sel, isSel := inner.Fun.(*ast.SelectorExpr); isSel && sel.Sel.Name == "FileAnnotations" && identObj(info, sel.X) == setObj {
						ok = true
					}
				}
				if fn := Callee(info, call); fn != nil {
					if printers[fn.Name()] {
						ok = false // two formats sharing one printer
					}
					printers[fn.Name()] = true
				}
			}
			c.Ob("FORMAT-TABLES", "PrintFileAnnotationSet/case "+label, cc.Pos(), ok, true, "arm returns its own printer applied to fileAnnotationSet.FileAnnotations(): %v", ok)
		}
	}
	// printers do not filter: the shared loop has no continue and calls the printer for every element
	if pe := p.Func("private/bufpkg/bufanalysis", "printEachAnnotationOnNewLine"); pe != nil {
		hasContinue := false
		ast.Inspect(pe.Decl.Body, func(n ast.Node) bool {
			if b, ok := n.(*ast.BranchStmt); ok && (b.Tok == token.CONTINUE || b.Tok == token.BREAK) {
				hasContinue = true
			}
			return true
		})
		c.Ob("FORMAT-TABLES", "printEachAnnotationOnNewLine/no-filter", pe.Decl.Pos(), !hasContinue, true, "the per-annotation loop has no continue/break (every annotation is rendered): %v", !hasContinue)
	}
}

func c20SetConstruction(c *Ctx) {
	p := c.P
	pk := p.Pkg("private/bufpkg/bufanalysis")
	info := pk.TypesInfo
	// who constructs fileAnnotationSet
	var makers []string
	for _, f := range pk.Syntax {
		ast.Inspect(f, func(n ast.Node) bool {
			if cl, ok := n.(*ast.CompositeLit); ok && namedName(info.TypeOf(cl)) == "fileAnnotationSet" {
				if fd := p.EnclosingFuncDecl(cl); fd != nil {
					makers = append(makers, fd.Name.Name)
				}
			}
			return true
		})
	}
	c.Ob("SET-CONSTRUCTION", "fileAnnotationSet/constructors", token.NoPos, len(makers) == 1 && makers[0] == "newFileAnnotationSet", true, "fileAnnotationSet literals appear in %v (want only newFileAnnotationSet)", makers)
	nf := p.Func("private/bufpkg/bufanalysis", "newFileAnnotationSet")
	if nf == nil {
		c.Fail("SET-CONSTRUCTION", "newFileAnnotationSet", token.NoPos, "not found")
		return
	}
	uses := false
	ast.Inspect(nf.Decl.Body, func(n ast.Node) bool {
		if call, ok := n.(*ast.CallExpr); ok {
			if fn := Callee(info, call); fn != nil && fn.Name() == "deduplicateAndSortFileAnnotations" {
				uses = true
			}
		}
		return true
	})
	c.Ob("SET-CONSTRUCTION", "newFileAnnotationSet/dedup-and-sort", nf.Decl.Pos(), uses, true, "the stored slice is deduplicateAndSortFileAnnotations(input): %v", uses)
	// comparator reads all printed fields
	var cmp *FuncRef
	for _, fr := range p.FuncsOf(pk) {
		// the comparator is found by its signature: func(FileAnnotation, FileAnnotation) int
		if sig, ok := fr.Obj.Type().(*types.Signature); ok && sig.Recv() == nil && sig.Params().Len() == 2 && sig.Results().Len() == 1 && fr.Decl.Body != nil &&
			strings.HasSuffix(namedPath(sig.Params().At(0).Type()), "bufanalysis.FileAnnotation") && strings.HasSuffix(namedPath(sig.Params().At(1).Type()), "bufanalysis.FileAnnotation") {
			if b, ok := sig.Results().At(0).Type().Underlying().(*types.Basic); ok && b.Kind() == types.Int {
				cmp = fr
			}
		}
	}
	if cmp != nil {
		called := map[string]bool{}
		var collect func(fr *FuncRef, depth int)
		collect = func(fr *FuncRef, depth int) {
			ast.Inspect(fr.Decl.Body, func(n ast.Node) bool {
				if call, ok := n.(*ast.CallExpr); ok {
					if sel, ok := call.Fun.(*ast.SelectorExpr); ok {
						called[sel.Sel.Name] = true
					}
					// steps of the comparison moved into helpers of the package
					if fn := Callee(fr.Info(), call); fn != nil && fn.Pkg() == pk.Types && depth > 0 && fn != fr.Obj {
						if hd := p.DeclOf(fn); hd != nil && hd.Decl.Body != nil && hd.Decl.Recv == nil {
							collect(hd, depth-1)
						}
					}
				}
				return true
			})
		}
		collect(cmp, 2)
		var missing []string
		for _, f := range []string{"FileInfo", "StartLine", "StartColumn", "EndLine", "EndColumn", "Type", "Message"} {
			if !called[f] {
				missing = append(missing, f)
			}
		}
		c.Ob("SET-CONSTRUCTION", "fileAnnotationCompareTo/total", cmp.Decl.Pos(), len(missing) == 0, true, "the comparator reads every field the formats print; missing: %v", missing)
	} else {
		c.Fail("SET-CONSTRUCTION", "fileAnnotationCompareTo", token.NoPos, "not found")
	}
	// identity key: consecutive variable-length writes into the hash need a delimiter (decided on SSA, on the function
	// found by its signature func(FileAnnotation) string)
	c20IdentityDelimited(c, pk)
}

// c20IdentityDelimited: along every path through the identity function, two writes of variable-length components into
// the hash are separated by a write of a constant delimiter (line 1 column 23 and line 12 column 3 would otherwise
// collide). The function may write statement by statement or from a loop over a list of components
// (`if i > 0 { write(delimiter) }; write(component)`): after a back edge the loop index is positive, so the
// index-is-zero edge is not followed.
func c20IdentityDelimited(c *Ctx, pk *packages.Package) {
	p := c.P
	var hf *ssa.Function
	for _, sf := range p.SSAFuncsOf([]*packages.Package{pk}) {
		sig := sf.Signature
		if sig.Recv() != nil || sig.Params().Len() != 1 || sig.Results().Len() != 1 || !strings.HasSuffix(namedPath(sig.Params().At(0).Type()), "bufanalysis.FileAnnotation") {
			continue
		}
		if b, ok := sig.Results().At(0).Type().Underlying().(*types.Basic); ok && b.Kind() == types.String {
			hf = sf
		}
	}
	if hf == nil {
		c.Fail("SET-CONSTRUCTION", "identity-key", token.NoPos, "no func(FileAnnotation) string found in bufanalysis")
		return
	}
	isWrite := func(ins ssa.Instruction) (ssa.Value, bool) {
		cl, ok := ins.(*ssa.Call)
		if !ok || !cl.Call.IsInvoke() || !strings.HasPrefix(cl.Call.Method.Name(), "Write") || len(cl.Call.Args) != 1 || namedPath(cl.Call.Value.Type()) != "hash.Hash" {
			return nil, false
		}
		return cl.Call.Args[0], true
	}
	var isConstBytes func(v ssa.Value, depth int) bool
	isConstBytes = func(v ssa.Value, depth int) bool {
		if depth == 0 {
			return false
		}
		switch t := stripConv(v).(type) {
		case *ssa.Const:
			return true
		case *ssa.Slice:
			if al, ok := t.X.(*ssa.Alloc); ok {
				for _, st := range storesInto(al) {
					if _, isConst := st.(*ssa.Const); !isConst {
						return false
					}
				}
				return true
			}
		case *ssa.Phi:
			for _, e := range t.Edges {
				if !isConstBytes(e, depth-1) {
					return false
				}
			}
			return true
		}
		return false
	}
	writes, varWrites := 0, 0
	bad := 0
	for _, b := range hf.Blocks {
		for i, ins := range b.Instrs {
			arg, ok := isWrite(ins)
			if !ok {
				continue
			}
			writes++
			if isConstBytes(arg, 3) {
				continue
			}
			varWrites++
			// search forward for the next write on every path
			type st struct {
				b        *ssa.BasicBlock
				from     int
				backEdge bool
			}
			seen := map[*ssa.BasicBlock]bool{}
			work := []st{{b, i + 1, false}}
			for len(work) > 0 {
				cur := work[len(work)-1]
				work = work[:len(work)-1]
				found := false
				for _, in := range cur.b.Instrs[cur.from:] {
					if a2, ok := isWrite(in); ok {
						if !isConstBytes(a2, 3) {
							bad++
						}
						found = true
						break
					}
				}
				if found {
					continue
				}
				succs := cur.b.Succs
				if iff := ifOf(cur.b); iff != nil && cur.backEdge {
					// `i > 0` / `i != 0` on a loop index after a back edge: only the true edge
					if bo, ok := iff.Cond.(*ssa.BinOp); ok && (bo.Op == token.GTR || bo.Op == token.NEQ) {
						if k, isC := bo.Y.(*ssa.Const); isC && k.Value != nil && k.Value.ExactString() == "0" {
							succs = succs[:1]
						}
					}
				}
				for _, s := range succs {
					be := cur.backEdge || s.Dominates(cur.b)
					if seen[s] && !(be && !cur.backEdge) {
						continue
					}
					seen[s] = true
					work = append(work, st{s, 0, be})
				}
			}
		}
	}
	c.Ob("SET-CONSTRUCTION", "identity-key/delimited", hf.Pos(), bad == 0 && varWrites >= 1 && writes >= 2, true,
		"%d write sites into the identity hash (%d of variable-length components); paths on which two variable-length components follow each other without a constant delimiter: %d (line 1 col 23 and line 12 col 3 would collide)", writes, varWrites, bad)
}

func c20Encoded(c *Ctx) {
	p := c.P
	pk := p.Pkg("private/bufpkg/bufanalysis")
	// JSON: printFileAnnotationAsJSON writes only json.Marshal output
	if fr := p.Func("private/bufpkg/bufanalysis", "printFileAnnotationAsJSON"); fr != nil {
		sf := p.SSAFunc(fr.Obj)
		ok, n := true, 0
		for _, call := range callsIn(sf) {
			fn := staticCalleeObj(call.Call)
			if fn == nil || !strings.HasPrefix(fn.Name(), "Write") || namedPath(recvOf(fn)) != "bytes.Buffer" {
				continue
			}
			n++
			if !dependsOnCall(call.Call.Args[len(call.Call.Args)-1], func(cc *ssa.CallCommon) bool {
				return calleeIs(staticCalleeObj(cc), "encoding/json", "Marshal")
			}) {
				ok = false
			}
		}
		c.Ob("ENCODED-OUTPUT", "json", fr.Decl.Pos(), ok && n > 0, true, "%d buffer write(s), each carrying json.Marshal output: %v", n, ok)
	} else {
		c.Fail("ENCODED-OUTPUT", "json", token.NoPos, "printFileAnnotationAsJSON not found")
	}
	// JUnit: annotation text only reaches xml.Attr values / encoder tokens, never writer.Write
	if fr := p.Func("private/bufpkg/bufanalysis", "printFileAnnotationAsJUnit"); fr != nil {
		sf := p.SSAFunc(fr.Obj)
		raw := false
		for _, call := range callsIn(sf) {
			fn := staticCalleeObj(call.Call)
			if fn != nil && (fn.Name() == "Write" || fn.Name() == "WriteString") {
				raw = true
			}
		}
		c.Ob("ENCODED-OUTPUT", "junit", fr.Decl.Pos(), !raw, true, "the JUnit printer emits annotation text only through xml.Encoder tokens: %v", !raw)
	} else {
		c.Fail("ENCODED-OUTPUT", "junit", token.NoPos, "printFileAnnotationAsJUnit not found")
	}
	// github-actions: free text (Message, ExternalPath, PluginName) passes an escaping function before WriteString
	fr := p.Func("private/bufpkg/bufanalysis", "printFileAnnotationAsGithubActions")
	if fr == nil {
		c.Fail("ENCODED-OUTPUT", "github-actions", token.NoPos, "printer not found")
		return
	}
	sf := p.SSAFunc(fr.Obj)
	isFreeText := func(cc *ssa.CallCommon) bool {
		if !cc.IsInvoke() {
			return false
		}
		switch cc.Method.Name() {
		case "Message", "ExternalPath", "PluginName":
			return true
		}
		return false
	}
	isEscaper := func(cc *ssa.CallCommon) bool {
		fn := staticCalleeObj(cc)
		if fn == nil || fn.Pkg() == nil {
			return false
		}
		if fn.Pkg().Path() == pk.PkgPath && strings.Contains(strings.ToLower(fn.Name()), "escape") {
			return true
		}
		// strings.NewReplacer(...).Replace / url.PathEscape style helpers
		return (fn.Pkg().Path() == "strings" && fn.Name() == "Replace") || (fn.Pkg().Path() == "net/url" && strings.HasSuffix(fn.Name(), "Escape"))
	}
	nFree := 0
	for _, call := range callsIn(sf) {
		fn := staticCalleeObj(call.Call)
		if fn == nil || !strings.HasPrefix(fn.Name(), "Write") || namedPath(recvOf(fn)) != "bytes.Buffer" {
			continue
		}
		arg := call.Call.Args[len(call.Call.Args)-1]
		if !dependsOnCall(arg, isFreeText) {
			continue
		}
		nFree++
		// the free text must pass through an escaper on the way: the argument is the result of an escaper call
		esc := false
		if ac, ok := stripConv(arg).(*ssa.Call); ok && isEscaper(&ac.Call) {
			esc = true
		}
		if phi, ok := stripConv(arg).(*ssa.Phi); ok {
			esc = true
			for _, e := range phi.Edges {
				if dependsOnCall(e, isFreeText) {
					if ec, ok := stripConv(e).(*ssa.Call); !ok || !isEscaper(&ec.Call) {
						esc = false
					}
				}
			}
		}
		c.Ob("ENCODED-OUTPUT", "github-actions/free-text", call.Pos(), esc, true,
			"free text (message, path or plugin name) is written into the workflow command only after an escaping helper: %v (a newline, '%%' or '::' in it would otherwise break the command framing)", esc)
	}
	if nFree < 2 {
		c.Fail("ENCODED-OUTPUT", "github-actions/free-text-count", fr.Decl.Pos(), "only %d free-text writes found", nFree)
	}
	// which escaper where (round 2): a workflow command is `::error k=v,k=v::message`. Property values must also escape
	// ':' and ',' (a path "a,line=1:b.proto" otherwise forges properties); the message must escape exactly '%', CR, LF
	// (escaping ':' there prints "%3A" literally). The character sets are read from the strings.NewReplacer tables the
	// helpers use; the position is decided by dominance of the "::" separator write.
	// replacerTable reads the (old -> new) pairs a package-level strings.Replacer variable is initialised with
	replacerTable := func(obj types.Object) map[string]bool {
		if obj == nil || obj.Pkg() == nil {
			return nil
		}
		dpk := p.ByPath[obj.Pkg().Path()]
		if dpk == nil {
			return nil
		}
		var set map[string]bool
		for _, f := range dpk.Syntax {
			ast.Inspect(f, func(n ast.Node) bool {
				vs, ok := n.(*ast.ValueSpec)
				if !ok {
					return true
				}
				for i, nm := range vs.Names {
					if dpk.TypesInfo.Defs[nm] != obj || i >= len(vs.Values) {
						continue
					}
					if call, ok := vs.Values[i].(*ast.CallExpr); ok && calleeIs(Callee(dpk.TypesInfo, call), "strings", "NewReplacer") {
						set = map[string]bool{}
						for k := 0; k+1 < len(call.Args); k += 2 {
							if tv, ok := dpk.TypesInfo.Types[call.Args[k]]; ok && tv.Value != nil {
								set[constant.StringVal(tv.Value)] = true
							}
						}
					}
				}
				return true
			})
		}
		return set
	}
	escSet := func(fn *types.Func) map[string]bool {
		d := p.DeclOf(fn)
		if d == nil || d.Decl.Body == nil {
			return nil
		}
		var table types.Object
		ast.Inspect(d.Decl.Body, func(n ast.Node) bool {
			if sel, ok := n.(*ast.SelectorExpr); ok && sel.Sel.Name == "Replace" {
				if o := identObj(d.Info(), sel.X); o != nil {
					table = o
				}
			}
			return true
		})
		set := map[string]bool{}
		// the table may also be built in place, or the helper may be a chain of strings.ReplaceAll
		ast.Inspect(d.Decl.Body, func(n ast.Node) bool {
			call, ok := n.(*ast.CallExpr)
			if !ok {
				return true
			}
			fn := Callee(d.Info(), call)
			switch {
			case calleeIs(fn, "strings", "NewReplacer"):
				for k := 0; k+1 < len(call.Args); k += 2 {
					if tv, ok := d.Info().Types[call.Args[k]]; ok && tv.Value != nil {
						set[constant.StringVal(tv.Value)] = true
					}
				}
			case calleeIs(fn, "strings", "ReplaceAll") && len(call.Args) == 3:
				if tv, ok := d.Info().Types[call.Args[1]]; ok && tv.Value != nil {
					set[constant.StringVal(tv.Value)] = true
				}
			}
			return true
		})
		if table == nil {
			if len(set) == 0 {
				return nil
			}
			return set
		}
		for _, f := range d.Pkg.Syntax {
			ast.Inspect(f, func(n ast.Node) bool {
				vs, ok := n.(*ast.ValueSpec)
				if !ok {
					return true
				}
				for i, nm := range vs.Names {
					if d.Info().Defs[nm] != table || i >= len(vs.Values) {
						continue
					}
					if call, ok := vs.Values[i].(*ast.CallExpr); ok && calleeIs(Callee(d.Info(), call), "strings", "NewReplacer") {
						for k := 0; k+1 < len(call.Args); k += 2 {
							if tv, ok := d.Info().Types[call.Args[k]]; ok && tv.Value != nil {
								set[constant.StringVal(tv.Value)] = true
							}
						}
					}
				}
				return true
			})
		}
		return set
	}
	var sep ssa.Instruction
	for _, call := range callsIn(sf) {
		fn := staticCalleeObj(call.Call)
		if fn != nil && fn.Name() == "WriteString" && namedPath(recvOf(fn)) == "bytes.Buffer" && isConstString(call.Call.Args[len(call.Call.Args)-1], "::") {
			sep = call.Instr
		}
	}
	if sep == nil {
		c.Fail("ENCODED-OUTPUT", "github-actions/separator", fr.Decl.Pos(), "the \"::\" write separating properties from the message was not found")
		return
	}
	k := 0
	for _, call := range callsIn(sf) {
		fn := staticCalleeObj(call.Call)
		if fn == nil || !strings.HasPrefix(fn.Name(), "Write") || namedPath(recvOf(fn)) != "bytes.Buffer" {
			continue
		}
		ac, ok := stripConv(call.Call.Args[len(call.Call.Args)-1]).(*ssa.Call)
		if !ok || !isEscaper(&ac.Call) {
			continue
		}
		set := escSet(staticCalleeObj(&ac.Call))
		singlePass := false
		if fn := staticCalleeObj(&ac.Call); fn != nil && fn.Pkg() != nil && fn.Pkg().Path() == "strings" && fn.Name() == "Replace" && len(ac.Call.Args) >= 1 {
			// the Replacer is applied directly: its table is the initialiser of the package-level variable
			if u, ok := ac.Call.Args[0].(*ssa.UnOp); ok && u.Op == token.MUL {
				if g, ok := u.X.(*ssa.Global); ok {
					set = replacerTable(g.Object())
					singlePass = set != nil
				}
			}
		}
		k++
		if singlePass {
			c.Ob("ESCAPE-ORDER", fmt.Sprintf("github-actions/application#%d", k), call.Pos(), true, true, "escaped in a single pass through a strings.Replacer (no output of one replacement is re-scanned)")
		}
		inData := instrDominates(sep, call.Instr)
		okSet := set != nil && set["%"] && set["\r"] && set["\n"]
		where := "property value"
		if inData {
			where = "message"
			okSet = okSet && !set[":"] && !set[","]
		} else {
			okSet = okSet && set[":"] && set[","]
		}
		c.Ob("ENCODED-OUTPUT", fmt.Sprintf("github-actions/escaper-for-position#%d", k), call.Pos(), okSet, true, "%s written through %s, which escapes %v: %v", where, staticCalleeObj(&ac.Call).Name(), sortedKeys(set), okSet)
	}
}

// c20ErrorFormatWired (ERROR-FORMAT-WIRED, round 2): annotations found while a command *builds* its inputs (compile
// errors) are printed by the controller, not by the command; the controller only knows the user's --error-format when
// the command hands it over. Every command function that reads an ErrorFormat flag field and constructs a controller
// must therefore pass bufctl.WithFileAnnotationErrorFormat(<value derived from that field>) to the constructor;
// otherwise compile errors come out as text whatever the user asked for, while the command's own annotations honour it.
func c20ErrorFormatWired(c *Ctx) {
	const rule = "ERROR-FORMAT-WIRED"
	c.Rule(rule, "commands with an --error-format flag hand it to the controller they construct", 5)
	p := c.P
	var pkgs []*packages.Package
	for _, pk := range p.ModulePkgs() {
		if strings.Contains(pk.PkgPath, "/private/buf/cmd/") {
			pkgs = append(pkgs, pk)
		}
	}
	isErrFmtField := func(v ssa.Value) bool {
		found := false
		sliceBack(v, func(x ssa.Value) bool {
			if fa, ok := x.(*ssa.FieldAddr); ok {
				if st, ok := fa.X.Type().Underlying().(*types.Pointer).Elem().Underlying().(*types.Struct); ok && st.Field(fa.Field).Name() == "ErrorFormat" {
					found = true
				}
			}
			return !found
		})
		return found
	}
	for _, sf := range p.SSAFuncsOf(pkgs) {
		// does the function read an ErrorFormat field at all?
		reads := false
		for _, b := range sf.Blocks {
			for _, ins := range b.Instrs {
				if fa, ok := ins.(*ssa.FieldAddr); ok {
					if st, ok := fa.X.Type().Underlying().(*types.Pointer).Elem().Underlying().(*types.Struct); ok && st.Field(fa.Field).Name() == "ErrorFormat" {
						reads = true
					}
				}
			}
		}
		hasFlagParam := false
		for _, prm := range sf.Params {
			if pt, ok := prm.Type().Underlying().(*types.Pointer); ok {
				if st, ok := pt.Elem().Underlying().(*types.Struct); ok {
					for i := 0; i < st.NumFields(); i++ {
						if st.Field(i).Name() == "ErrorFormat" {
							hasFlagParam = true
						}
					}
				}
			}
		}
		_ = hasFlagParam
		if !reads {
			continue // a bound but unread (deprecated) flag: nothing to hand over
		}
		for _, call := range callsIn(sf) {
			if !calleeIs(staticCalleeObj(call.Call), "private/buf/bufcli", "NewController") {
				continue
			}
			// a controller that is only asked to write (Put*) never prints annotations
			writeOnly := true
			if cv, ok := call.Value.(*ssa.Call); ok {
				for _, ref := range *cv.Referrers() {
					ex, ok := ref.(*ssa.Extract)
					if !ok || ex.Index != 0 {
						continue
					}
					for _, use := range *ex.Referrers() {
						uc, ok := use.(ssa.CallInstruction)
						if ok && uc.Common().IsInvoke() && uc.Common().Value == ssa.Value(ex) && strings.HasPrefix(uc.Common().Method.Name(), "Put") {
							continue
						}
						if _, isDbg := use.(*ssa.DebugRef); isDbg {
							continue
						}
						writeOnly = false
					}
				}
			}
			if writeOnly {
				c.Ob(rule, ssaFuncName(sf), call.Pos(), true, false, "the controller is only used to write (Put*): it prints no annotations")
				continue
			}
			wired := false
			for _, a := range call.Call.Args {
				for _, el := range append(variadicElems(a), a) {
					if oc, ok := stripConv(el).(*ssa.Call); ok && calleeIs(staticCalleeObj(&oc.Call), "private/buf/bufctl", "WithFileAnnotationErrorFormat") && len(oc.Call.Args) == 1 && isErrFmtField(oc.Call.Args[0]) {
						wired = true
					}
				}
			}
			c.Ob(rule, ssaFuncName(sf), call.Pos(), wired, true, "the controller is constructed with WithFileAnnotationErrorFormat(<the ErrorFormat flag>): %v", wired)
		}
	}
}

// c20FormatExitGuarded decides, on SSA, the one reviewed exception of PRINT-PAIR: in the deferred function of the
// format command the annotation sentinel is assigned only on an edge where (a) the named error result is nil, (b) the
// ExitCode flag is set and (c) a boolean captured from the enclosing function (the "a diff exists" snapshot) is true -
// however the three tests are spelled (one conjunction, or early returns).
func c20FormatExitGuarded(p *Prog, pk *packages.Package, lit *ast.FuncLit) bool {
	var fn *ssa.Function
	for _, sf := range p.SSAFuncsOf([]*packages.Package{pk}) {
		for _, f := range allSSAFuncs(sf) {
			if f.Syntax() == ast.Node(lit) {
				fn = f
			}
		}
	}
	if fn == nil {
		return false
	}
	found, okAll := false, true
	for _, b := range fn.Blocks {
		for _, ins := range b.Instrs {
			st, ok := ins.(*ssa.Store)
			if !ok || !isErrorType(st.Val.Type()) {
				continue
			}
			if _, isFree := st.Addr.(*ssa.FreeVar); !isFree {
				continue
			}
			// the stored value is a package-level sentinel
			u, ok := stripConv(st.Val).(*ssa.UnOp)
			if !ok {
				continue
			}
			if _, isGlobal := u.X.(*ssa.Global); !isGlobal {
				continue
			}
			found = true
			errNil, exitCode, captured := false, false, false
			for _, ge := range guardingEdges(b) {
				cv, pos := condPolarity(ge.If.Cond)
				holds := ge.Branch == pos
				if x, trueIsNonNil, isNil := nilCompare(cv); isNil {
					if ld, ok := stripConv(x).(*ssa.UnOp); ok && ld.X == st.Addr && ge.Branch != (trueIsNonNil == pos) {
						errNil = true
					}
					continue
				}
				if !holds {
					continue
				}
				sliceBack(cv, func(y ssa.Value) bool {
					switch t := y.(type) {
					case *ssa.FieldAddr:
						if strings.HasSuffix(fieldName(t.X.Type(), t.Field), ".ExitCode") {
							exitCode = true
						}
					case *ssa.UnOp:
						if fv, ok := t.X.(*ssa.FreeVar); ok && fv != st.Addr && isBoolType(t.Type()) {
							captured = true
						}
					case *ssa.FreeVar:
						if isBoolType(t.Type()) {
							captured = true
						}
					}
					return true
				})
			}
			if !(errNil && exitCode && captured) {
				okAll = false
			}
		}
	}
	return found && okAll
}
