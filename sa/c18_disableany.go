package main

import (
	"go/token"
	"go/types"

	"golang.org/x/tools/go/packages"
	"golang.org/x/tools/go/ssa"
)

// c18DisableAnyMatch (DISABLE-ANY-MATCH; C18, after round-5 seed C18-b): a file is "exempted by a disable rule" when
// some rule in the list matches it - any of them, wherever it stands. A yes/no function that walks the disable rules
// therefore answers with constants: `true` at the rule that matches, `false` after the last one. Returning a computed
// value from inside the loop (`return rule.FileOption() == wanted`) lets the first rule whose path matches answer for
// all the rules after it: `disable: [{path: a, file_option: java_package}, {path: a, file_option: go_package}]`
// no longer disables go_package.
func c18DisableAnyMatch(c *Ctx, pk *packages.Package) {
	const rule = "DISABLE-ANY-MATCH"
	c.Rule(rule, "a yes/no walk over the disable rules answers true at a matching rule and false after the last, nothing computed in between", 1)
	p := c.P
	n := 0
	for _, sf := range p.SSAFuncsOf([]*packages.Package{pk}) {
		res := sf.Signature.Results()
		if res.Len() != 1 {
			continue
		}
		if b, ok := res.At(0).Type().Underlying().(*types.Basic); !ok || b.Kind() != types.Bool {
			continue
		}
		walks := false
		for _, call := range callsIn(sf) {
			if call.Call.IsInvoke() && call.Call.Method.Name() == "Disables" && call.Value != nil {
				// ranged over: an index into / len of the result
				for _, r := range *call.Value.Referrers() {
					switch r.(type) {
					case *ssa.IndexAddr, *ssa.Index, *ssa.Range:
						walks = true
					}
				}
			}
		}
		if !walks {
			continue
		}
		n++
		var computed []string
		for _, r := range returnsOf(sf) {
			if _, isConst := r.Results[0].(*ssa.Const); !isConst {
				computed = append(computed, p.Pos(r.Pos()))
			}
		}
		c.Ob(rule, ssaFuncName(sf)+"/constant-answers", sf.Pos(), len(computed) == 0, true, "%d return(s) hand back a computed value instead of a constant: %v", len(computed), computed)
	}
	if n == 0 {
		c.Fail(rule, "anchor", token.NoPos, "no yes/no function walking Disables() found in bufimagemodify")
	}
}
