package main

import (
	"go/constant"
	"go/token"
	"go/types"
	"sort"
	"strings"

	"golang.org/x/tools/go/packages"
	"golang.org/x/tools/go/ssa"
)

// orderedVariadic returns the elements of a variadic argument list in index order, or nil when the list is not a
// literal packing (a slice built elsewhere).
func orderedVariadic(arg ssa.Value) []ssa.Value {
	sl, ok := arg.(*ssa.Slice)
	if !ok {
		return nil
	}
	al, ok := sl.X.(*ssa.Alloc)
	if !ok || al.Referrers() == nil {
		return nil
	}
	type el struct {
		i int64
		v ssa.Value
	}
	var els []el
	for _, ref := range *al.Referrers() {
		ia, ok := ref.(*ssa.IndexAddr)
		if !ok || ia.Referrers() == nil {
			continue
		}
		k, ok := ia.Index.(*ssa.Const)
		if !ok || k.Value == nil {
			return nil
		}
		idx, _ := constant.Int64Val(k.Value)
		for _, r2 := range *ia.Referrers() {
			if st, ok := r2.(*ssa.Store); ok && st.Addr == ssa.Value(ia) {
				els = append(els, el{idx, st.Val})
			}
		}
	}
	sort.Slice(els, func(i, j int) bool { return els[i].i < els[j].i })
	var out []ssa.Value
	for _, e := range els {
		out = append(out, e.v)
	}
	return out
}

// c19SourceOrder (SOURCE-ORDER; C19, after round-4 seed C19-k): "the first configured source wins" - BUF_TOKEN, then
// .netrc. The order is the order of the providers handed to the authorization interceptor provider, which consults
// them first to last. At the call that builds it, the list must be a literal argument list (so that its order can be
// read off) in which every provider built from the container's environment (a constructor whose name mentions
// Container or Env, not Netrc) precedes every provider built from netrc.
func c19SourceOrder(c *Ctx) {
	const rule = "SOURCE-ORDER"
	c.Rule(rule, "token sources are consulted in the documented order: environment before .netrc", 1)
	p := c.P
	n := 0
	for _, pk := range p.ModulePkgs() {
		for _, sf := range p.SSAFuncsOf([]*packages.Package{pk}) {
			for _, f := range allSSAFuncs(sf) {
				for _, call := range callsIn(f) {
					o := staticCalleeObj(call.Call)
					if o == nil || !isFuncNamed(o, "private/bufpkg/bufconnect", "", "NewAuthorizationInterceptorProvider") || len(call.Call.Args) == 0 {
						continue
					}
					seqs := listElemSeqs(call.Call.Args[len(call.Call.Args)-1], 6)
					kind := func(v ssa.Value) string {
						k := ""
						sliceBack(v, func(x ssa.Value) bool {
							if cl, ok := x.(*ssa.Call); ok {
								if co := staticCalleeObj(&cl.Call); co != nil && strings.Contains(co.Name(), "TokenProvider") {
									switch {
									case strings.Contains(co.Name(), "Netrc"):
										k = "netrc"
									case strings.Contains(co.Name(), "Container") || strings.Contains(co.Name(), "Env") || strings.Contains(co.Name(), "String"):
										k = "env"
									}
								}
							}
							return k == ""
						})
						return k
					}
					ok := len(seqs) > 0
					var shown [][]string
					maxLen := 0
					for _, els := range seqs {
						var kinds []string
						seenNetrc := false
						for _, e := range els {
							k := kind(e)
							kinds = append(kinds, k)
							if k == "netrc" {
								seenNetrc = true
							}
							if (k == "env" && seenNetrc) || k == "" {
								ok = false
							}
						}
						if len(els) > maxLen {
							maxLen = len(els)
						}
						shown = append(shown, kinds)
					}
					// test code and single-source callers are not the documented chain
					if maxLen <= 1 && strings.HasSuffix(pk.PkgPath, "_test") {
						continue
					}
					// a client made for an explicitly given token (a string parameter) has that token as its only
					// source: "attached only if it was configured for that request's registry host" - a host-keyed
					// token says nothing for other hosts, and nothing else was configured for this client
					explicit, others := 0, 0
					for _, els := range seqs {
						for _, e := range els {
							fromParam := false
							sliceBack(e, func(x ssa.Value) bool {
								if prm, isParam := x.(*ssa.Parameter); isParam && prm.Parent() == f {
									if bt, isBasic := prm.Type().Underlying().(*types.Basic); isBasic && bt.Kind() == types.String {
										fromParam = true
									}
								}
								return !fromParam
							})
							if fromParam {
								explicit++
							} else {
								others++
							}
						}
					}
					if explicit > 0 {
						c.Ob(rule, ssaFuncName(f)+"/explicit-token-only", call.Pos(), others == 0, true, "a client built for a token passed in as a string consults that token only: %d other source(s) in its provider list", others)
					}
					n++
					c.Ob(rule, ssaFuncName(f), call.Pos(), ok, true, "providers handed to the authorization interceptor, in order, for every way the list can be built: %v (a list whose construction cannot be read fails)", shown)
				}
			}
		}
	}
	if n == 0 {
		c.Fail(rule, "anchor", token.NoPos, "no call of NewAuthorizationInterceptorProvider found")
	}
}

// listElemSeqs reads a slice value as the sequences of elements it can hold: a literal packing, append(list, more…),
// and a φ of alternatives (a conditional append). Returns nil when some part cannot be read.
func listElemSeqs(v ssa.Value, depth int) [][]ssa.Value {
	if depth == 0 {
		return nil
	}
	switch t := stripConv(v).(type) {
	case *ssa.Slice:
		if els := orderedVariadic(t); els != nil {
			return [][]ssa.Value{els}
		}
		return nil
	case *ssa.Const:
		if t.IsNil() {
			return [][]ssa.Value{{}}
		}
	case *ssa.Call:
		if isBuiltinCall(&t.Call, "append") && len(t.Call.Args) == 2 {
			base := listElemSeqs(t.Call.Args[0], depth-1)
			more := listElemSeqs(t.Call.Args[1], depth-1)
			if base == nil || more == nil {
				return nil
			}
			var out [][]ssa.Value
			for _, b := range base {
				for _, m := range more {
					out = append(out, append(append([]ssa.Value{}, b...), m...))
				}
			}
			return out
		}
	case *ssa.Phi:
		var out [][]ssa.Value
		for _, e := range t.Edges {
			s := listElemSeqs(e, depth-1)
			if s == nil {
				return nil
			}
			out = append(out, s...)
		}
		return out
	}
	return nil
}
