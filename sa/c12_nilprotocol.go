package main

import (
	"fmt"
	"go/token"
	"go/types"

	"golang.org/x/tools/go/packages"
	"golang.org/x/tools/go/ssa"
)

// c12NilMeansDeleted (NIL-PROTOCOL; C12, after round-4 seed C12-j): where a caller reads a nil slice result as an
// answer of its own ("this location was deleted"), the callee may hand its slice *parameter* back unchanged only where
// the parameter is known to be non-empty - an empty path that arrives as nil (the file-level source location after a
// serialise/deserialise round trip or a proto.Clone) would otherwise be read as "deleted" and the file's own
// SourceCodeInfo location vanishes from every filtered file. For every function of the package whose first result is a
// slice that some caller compares with nil, every return of a parameter lies on the non-empty edge of a test of that
// parameter's length (or on its != nil edge).
func c12NilMeansDeleted(c *Ctx, pk *packages.Package) {
	const rule = "NIL-PROTOCOL"
	c.Rule(rule, "a slice parameter is returned as is only where it is known to be non-empty, when callers read nil as an answer", 1)
	p := c.P
	n := 0
	for _, sf := range p.SSAFuncsOf([]*packages.Package{pk}) {
		res := sf.Signature.Results()
		if res.Len() == 0 {
			continue
		}
		if _, isSlice := res.At(0).Type().Underlying().(*types.Slice); !isSlice {
			continue
		}
		// some caller compares the result with nil
		nilRead := false
		for _, cs := range p.callersIndex()[sf] {
			cv, ok := cs.Instr.(*ssa.Call)
			if !ok {
				continue
			}
			var r0 ssa.Value = cv
			if res.Len() > 1 {
				r0 = nil
				if cv.Referrers() != nil {
					for _, r := range *cv.Referrers() {
						if ex, ok := r.(*ssa.Extract); ok && ex.Index == 0 {
							r0 = ex
						}
					}
				}
			}
			if r0 == nil || r0.Referrers() == nil {
				continue
			}
			for _, r := range *r0.Referrers() {
				if bo, ok := r.(*ssa.BinOp); ok && (bo.Op == token.EQL || bo.Op == token.NEQ) && (isNilConst(bo.X) || isNilConst(bo.Y)) {
					nilRead = true
				}
			}
		}
		if !nilRead {
			continue
		}
		k := 0
		for _, ret := range returnsOf(sf) {
			if len(ret.Results) == 0 {
				continue
			}
			prm, ok := stripConv(spilledResult(ret, ret.Results[0])).(*ssa.Parameter)
			if !ok {
				continue
			}
			n++
			k++
			nonEmpty := false
			for _, ge := range guardingEdges(ret.Block()) {
				cv, pos := condPolarity(ge.If.Cond)
				bo, ok := cv.(*ssa.BinOp)
				if !ok {
					continue
				}
				// len(p) == 0 / len(p) != 0 / len(p) > 0 / p != nil / p == nil
				lenOf := func(v ssa.Value) bool {
					cl, ok := v.(*ssa.Call)
					return ok && isBuiltinCall(&cl.Call, "len") && len(cl.Call.Args) == 1 && cl.Call.Args[0] == ssa.Value(prm)
				}
				zero := func(v ssa.Value) bool {
					k, ok := v.(*ssa.Const)
					return ok && k.Value != nil && k.Value.ExactString() == "0"
				}
				holds := ge.Branch == pos // the comparison is true on this edge
				switch {
				case lenOf(bo.X) && zero(bo.Y) && bo.Op == token.EQL && !holds,
					lenOf(bo.X) && zero(bo.Y) && (bo.Op == token.NEQ || bo.Op == token.GTR) && holds,
					bo.X == ssa.Value(prm) && isNilConst(bo.Y) && bo.Op == token.NEQ && holds,
					bo.X == ssa.Value(prm) && isNilConst(bo.Y) && bo.Op == token.EQL && !holds:
					nonEmpty = true
				}
			}
			c.Ob(rule, fmt.Sprintf("%s/return-param#%d", ssaFuncName(sf), k), ret.Pos(), nonEmpty, true, "callers read a nil result as an answer; parameter %s is returned as is only where it is known to be non-empty: %v", prm.Name(), nonEmpty)
		}
	}
	if n == 0 {
		c.Fail(rule, "anchor", token.NoPos, "no function returning a slice parameter whose callers compare the result with nil found")
	}
}
