package main

import (
	"go/ast"
	"go/token"
)

// c03PreviousNeverSkipped (PREVIOUS-NOT-SKIPPED; C03, after round-5 seed C03-n): a deletion check walks the *previous*
// elements and asks of each whether the current version still has it. An element of the previous version may be left
// out of that walk only because of what the current version looks like (found there; a map entry on both sides …), not
// because of a property of the previous element alone: `if start < 1 { continue }` on a previous reserved range drops
// every enum range that starts at zero or below from RESERVED_ENUM_NO_DELETE. In the handler packages, inside a loop
// over a collection labelled *previous*, the condition of a `continue` consults something that is not previous-only.
func c03PreviousNeverSkipped(c *Ctx, l *labeler) {
	const rule = "PREVIOUS-NOT-SKIPPED"
	c.Rule(rule, "no element of the previous version is skipped by a deletion walk for a reason that looks at the previous version only", 1)
	p := c.P
	loops, hits := 0, 0
	for _, pk := range l.pkgs {
		info := pk.TypesInfo
		for _, fr := range p.FuncsOf(pk) {
			if fr.Decl.Body == nil {
				continue
			}
			ast.Inspect(fr.Decl.Body, func(n ast.Node) bool {
				rs, ok := n.(*ast.RangeStmt)
				if !ok || l.L(info, rs.X) != labPrev {
					return true
				}
				loops++
				inspectNoFuncLit(rs.Body, func(m ast.Node) bool {
					if inner, isRange := m.(*ast.RangeStmt); isRange && inner != rs {
						return false // its own loop: judged on its own
					}
					br, ok := m.(*ast.BranchStmt)
					if !ok || br.Tok != token.CONTINUE {
						return true
					}
					// nearest enclosing if inside this loop
					var ifs *ast.IfStmt
					for q := p.Parent(br); q != nil && q != ast.Node(rs); q = p.Parent(q) {
						if i, isIf := q.(*ast.IfStmt); isIf {
							ifs = i
							break
						}
					}
					if ifs == nil {
						return true
					}
					// what the condition consults
					prevOnly, any := true, false
					ast.Inspect(ifs.Cond, func(k ast.Node) bool {
						if id, isID := k.(*ast.Ident); isID {
							if o := info.Uses[id]; o != nil {
								switch l.lab[o] {
								case labPrev:
									any = true
								case labCur, labCur | labPrev:
									any = true
									prevOnly = false
								}
							}
						}
						return true
					})
					// conditions on locals defined in the Init (`x, ok := current[k]; !ok`) or on errors are not previous-only
					if ifs.Init != nil {
						prevOnly = false
					}
					if o, _, isErr := errNilTest(info, ifs.Cond); isErr && o != nil {
						prevOnly = false
					}
					if any && prevOnly {
						// reviewed skips, keyed by the accessor the condition asks (one line of reason each)
						reviewed := ""
						ast.Inspect(ifs.Cond, func(k ast.Node) bool {
							if call, isCall := k.(*ast.CallExpr); isCall {
								if sel, isSel := call.Fun.(*ast.SelectorExpr); isSel {
									if why, ok := c03PrevSkipReviewed[sel.Sel.Name]; ok {
										reviewed = why
									}
								}
							}
							return true
						})
						if reviewed != "" {
							c.Ob(rule, fr.ID()+"/continue", br.Pos(), true, false, "reviewed previous-only skip under %q: %s", short(exprString(ifs.Cond), 60), reviewed)
							return true
						}
						hits++
						c.Ob(rule, fr.ID()+"/continue", br.Pos(), false, true, "inside a loop over previous elements, `continue` under %q consults the previous version only: that element is never compared with the current version", short(exprString(ifs.Cond), 80))
					}
					return true
				})
				return true
			})
		}
	}
	c.Ob(rule, "loops-scanned", token.NoPos, hits == 0, loops >= 5, "%d loops over previous collections scanned, %d previous-only skips", loops, hits)
}

// c03PrevSkipReviewed: skips of a previous element that look at the previous version only, and why they are right.
var c03PrevSkipReviewed = map[string]string{
	"IsSynthetic": "a synthetic oneof is how proto3 `optional` is modelled; its disappearance is a presence change, reported by the field presence rules (comment in handleBreakingOneofNoDelete)",
}
