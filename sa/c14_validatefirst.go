package main

import (
	"fmt"
	"go/token"
	"strings"

	"golang.org/x/tools/go/packages"
	"golang.org/x/tools/go/ssa"
)

// c14DiskValidateFirst (DISK-VALIDATE-FIRST; C13 and C14, after round-6 seed C14-q): Get, Stat and Walk of the disk
// bucket agree on one key set because each of them asks the same question first: validateExternalPath decides whether
// the path is an object of this bucket (a regular file; a symlink only when the bucket follows symlinks). os.Open
// follows symlinks whatever the bucket was told, so a Get that opens first and validates only to classify a failure
// returns the bytes of a link that Stat reports as not existing and Walk skips. In every method of the disk bucket that
// validates an external path, the validation dominates each os call that reads through that path.
func c14DiskValidateFirst(c *Ctx) {
	const rule = "DISK-VALIDATE-FIRST"
	c.Rule(rule, "the disk bucket validates an external path before it opens or stats through it", 1)
	p := c.P
	pk := p.Pkg("private/pkg/storage/storageos")
	if pk == nil {
		c.Fail(rule, "anchor", token.NoPos, "storageos not found")
		return
	}
	n := 0
	isBucketMethod := func(sf *ssa.Function) bool {
		return sf.Signature.Recv() != nil && strings.HasSuffix(namedPath(derefType(sf.Signature.Recv().Type())), "storageos.bucket")
	}
	// validators: validateExternalPath, and the bucket methods that return successfully only after a validator ran
	// (`getValidatedExternalPath`: compute the path, validate it, hand it back)
	validators := map[*ssa.Function]bool{}
	funcs := p.SSAFuncsOf([]*packages.Package{pk})
	for _, sf := range funcs {
		if sf.Name() == "validateExternalPath" && isBucketMethod(sf) {
			validators[sf] = true
		}
	}
	for round := 0; round < 2; round++ {
		for _, sf := range funcs {
			if validators[sf] || !isBucketMethod(sf) {
				continue
			}
			var vs []ssa.Instruction
			for _, call := range callsIn(sf) {
				if sc := call.Call.StaticCallee(); sc != nil && validators[sc] {
					vs = append(vs, call.Instr)
				}
			}
			if len(vs) == 0 {
				continue
			}
			okAll, nRet := true, 0
			for _, r := range returnsOf(sf) {
				if len(r.Results) == 0 || !isNilConst(stripConv(spilledResult(r, r.Results[len(r.Results)-1]))) {
					continue
				}
				nRet++
				dom := false
				for _, v := range vs {
					if instrDominates(v, r) {
						dom = true
					}
				}
				if !dom {
					okAll = false
				}
			}
			// only a function without reads of its own is a validator; one that reads is judged below
			reads := false
			for _, call := range callsIn(sf) {
				if o := staticCalleeObj(call.Call); o != nil && o.Pkg() != nil && o.Pkg().Path() == "os" {
					reads = true
				}
			}
			if okAll && nRet > 0 && !reads {
				validators[sf] = true
			}
		}
	}
	for _, sf := range funcs {
		if !isBucketMethod(sf) || validators[sf] {
			continue
		}
		var validates []ssa.Instruction
		for _, call := range callsIn(sf) {
			if sc := call.Call.StaticCallee(); sc != nil && validators[sc] {
				validates = append(validates, call.Instr)
			}
		}
		if len(validates) == 0 {
			continue
		}
		k := 0
		for _, call := range callsIn(sf) {
			o := staticCalleeObj(call.Call)
			if o == nil || o.Pkg() == nil || o.Pkg().Path() != "os" {
				continue
			}
			switch o.Name() {
			case "Open", "OpenFile", "Stat", "Lstat", "ReadFile", "ReadDir":
			default:
				continue
			}
			n++
			k++
			ok := false
			for _, v := range validates {
				if instrDominates(v, call.Instr) {
					ok = true
				}
			}
			c.Ob(rule, fmt.Sprintf("%s/os.%s#%d", ssaFuncName(sf), o.Name(), k), call.Pos(), ok, true, "os.%s runs only after validateExternalPath accepted the path: %v", o.Name(), ok)
		}
	}
	if n == 0 {
		c.Fail(rule, "anchor", token.NoPos, "no disk-bucket method that validates and then reads through a path found")
	}
}
