package main

import (
	"fmt"
	"go/token"
	"strings"

	"golang.org/x/tools/go/packages"
	"golang.org/x/tools/go/ssa"
)

// c14DiskValidateFirst (DISK-VALIDATE-FIRST; C13 and C14, after round-6 seed C14-q): Get, Stat and Walk of the disk
// bucket agree on one key set because each of them asks the same question first: validateExternalPath decides whether
// the path is an object of this bucket (a regular file; a symlink only when the bucket follows symlinks). os.Open
// follows symlinks whatever the bucket was told, so a Get that opens first and validates only to classify a failure
// returns the bytes of a link that Stat reports as not existing and Walk skips. In every method of the disk bucket that
// validates an external path, the validation dominates each os call that reads through that path.
func c14DiskValidateFirst(c *Ctx) {
	const rule = "DISK-VALIDATE-FIRST"
	c.Rule(rule, "the disk bucket validates an external path before it opens or stats through it", 1)
	p := c.P
	pk := p.Pkg("private/pkg/storage/storageos")
	if pk == nil {
		c.Fail(rule, "anchor", token.NoPos, "storageos not found")
		return
	}
	n := 0
	for _, sf := range p.SSAFuncsOf([]*packages.Package{pk}) {
		if sf.Signature.Recv() == nil || !strings.HasSuffix(namedPath(derefType(sf.Signature.Recv().Type())), "storageos.bucket") {
			continue
		}
		var validates []ssa.Instruction
		for _, call := range callsIn(sf) {
			if o := staticCalleeObj(call.Call); o != nil && o.Name() == "validateExternalPath" {
				validates = append(validates, call.Instr)
			}
		}
		if len(validates) == 0 {
			continue
		}
		k := 0
		for _, call := range callsIn(sf) {
			o := staticCalleeObj(call.Call)
			if o == nil || o.Pkg() == nil || o.Pkg().Path() != "os" {
				continue
			}
			switch o.Name() {
			case "Open", "OpenFile", "Stat", "Lstat", "ReadFile", "ReadDir":
			default:
				continue
			}
			n++
			k++
			ok := false
			for _, v := range validates {
				if instrDominates(v, call.Instr) {
					ok = true
				}
			}
			c.Ob(rule, fmt.Sprintf("%s/os.%s#%d", ssaFuncName(sf), o.Name(), k), call.Pos(), ok, true, "os.%s runs only after validateExternalPath accepted the path: %v", o.Name(), ok)
		}
	}
	if n == 0 {
		c.Fail(rule, "anchor", token.NoPos, "no disk-bucket method that validates and then reads through a path found")
	}
}
