package main

// C08 — module digests are a pure, sensitive function of content; manifests are canonical (structural part).

import (
	"fmt"
	"go/ast"
	"go/token"
	"go/types"
	"strings"

	"golang.org/x/tools/go/packages"
	"golang.org/x/tools/go/ssa"
)

func init() {
	register(&propCheck{
		ID: "C08",
		Explanation: "Structural necessary conditions of digest purity and manifest canonicity: (1) the module-file matcher is applied inside every digest walk — the bucket handed to " +
			"storage.WalkReadObjects in the b4 and b5 paths is storage.FilterReadBucket(_, getStorageMatcher(…)) (SSA value identity); (2) order independence — the dependency " +
			"digest strings are sorted before they are joined and hashed, the file nodes go through NewManifest (which sorts by path), the b4 side files are taken from a fixed " +
			"literal list; (3) names do not enter the digest — the digest functions of bufmodule and bufcas reference no FullName/OpaqueID/CommitID/Description accessor; " +
			"(4) reader/writer agreement of the canonical text — fileNode.String joins with the separator ParseFileNode splits on, with a bounded split because the last field " +
			"(the path) is unconstrained text; manifest.String ends every node with the newline ParseManifest requires, strips once and splits on; the digest-type name tables " +
			"are mutually inverse; (5) switches over the digest type are total or fail loudly. NOT decided: equality with the published SHAKE256 construction, sensitivity to " +
			"every byte, backend independence.",
		Assumptions: []string{"bufcas.NewDigestForContent hashes exactly the bytes it is given"},
		Run:         runC08,
	})
}

func runC08(c *Ctx) {
	p := c.P
	c.Rule("FILTER-IN-WALK", "digest walks re-apply the module-file matcher", 2)
	c.Rule("ORDER-INDEPENDENT", "everything hashed is sorted or comes from a fixed list", 4)
	c.Rule("NAMES-EXCLUDED", "module names, commits and descriptions are not inputs of a digest", 5)
	c.Rule("TEXT-AGREEMENT", "manifest writer and parser agree on separators and terminators; the path field is split off with a bounded split", 5)
	c.Rule("TYPE-SWITCH", "digest-type switches are total or fail loudly", 2)
	pkM, pkC := p.Pkg("private/bufpkg/bufmodule"), p.Pkg("private/bufpkg/bufcas")
	if pkM == nil || pkC == nil {
		c.Fail("FILTER-IN-WALK", "anchor", token.NoPos, "bufmodule/bufcas not found")
		return
	}
	c08NodeFromObject(c, pkM)
	c08BytesOwned(c)
	c08SortedFieldSorted(c)
	c08DigestStateless(c)
	c08ContentFullyRead(c)
	c08SortOwnSlice(c)
	c08CanonicalString(c)
	// digest functions of bufmodule: those in digest.go whose name mentions Digest
	var digestFns []*FuncRef
	for _, fr := range p.FuncsOf(pkM) {
		if strings.HasSuffix(p.FileRel(fr.Decl.Pos()), "bufmodule/digest.go") && strings.Contains(fr.Decl.Name.Name, "Digest") {
			digestFns = append(digestFns, fr)
		}
	}
	// (1) every walk that feeds file nodes into a digest (its callback builds bufcas file nodes / content digests) walks
	// the filtered bucket — wherever the walk lives (the digest functions or a helper they share)
	walks := 0
	for _, sf := range p.SSAFuncsOf([]*packages.Package{pkM}) {
		for _, f := range allSSAFuncs(sf) {
			for _, call := range callsIn(f) {
				if !calleeIs(staticCalleeObj(call.Call), "private/pkg/storage", "WalkReadObjects") || len(call.Call.Args) < 4 {
					continue
				}
				// is it a digest walk?
				var cb *ssa.Function
				switch x := call.Call.Args[3].(type) {
				case *ssa.MakeClosure:
					cb, _ = x.Fn.(*ssa.Function)
				case *ssa.Function:
					cb = x
				}
				digestWalk := false
				if cb != nil {
					for _, cc := range callsDeep(cb) {
						if fn := staticCalleeObj(cc.Call); fn != nil && fn.Pkg() != nil && strings.HasSuffix(fn.Pkg().Path(), "/bufcas") && (fn.Name() == "NewFileNode" || fn.Name() == "NewDigestForContent") {
							digestWalk = true
						}
					}
				}
				if !digestWalk {
					continue
				}
				walks++
				bucket := stripConv(call.Call.Args[1])
				ok := false
				if fc, isCall := bucket.(*ssa.Call); isCall && calleeIs(staticCalleeObj(&fc.Call), "private/pkg/storage", "FilterReadBucket") {
					for _, m := range fc.Call.Args[1:] {
						if dependsOnCall(m, func(cc *ssa.CallCommon) bool {
							fn := staticCalleeObj(cc)
							return fn != nil && fn.Name() == "getStorageMatcher"
						}) {
							ok = true
						}
					}
				}
				c.Ob("FILTER-IN-WALK", fmt.Sprintf("digest-walk#%d", walks), call.Pos(), ok, true, "in %s the bucket walked for the digest is storage.FilterReadBucket(bucket, getStorageMatcher(…)): %v", ssaFuncName(f), ok)
			}
		}
	}
	if walks < 1 {
		c.Fail("FILTER-IN-WALK", "walk-count", token.NoPos, "no walk feeding bufcas file nodes found in bufmodule")
	}
	// both digest entry points reach such a walk
	for _, name := range []string{"getB4Digest", "getFilesDigestForB5Digest"} {
		fr := p.Func("private/bufpkg/bufmodule", name)
		reaches := false
		if fr != nil && fr.Obj != nil {
			for _, f := range reachSSA(p.SSAFunc(fr.Obj), 2) {
				for _, call := range callsIn(f) {
					if calleeIs(staticCalleeObj(call.Call), "private/pkg/storage", "WalkReadObjects") {
						reaches = true
					}
				}
			}
		}
		c.Ob("FILTER-IN-WALK", name+"/walks", token.NoPos, reaches, true, "%s reaches a storage.WalkReadObjects (directly or through a helper): %v", name, reaches)
	}

	// (2) order independence
	ruleDepDigestsSorted(c, "ORDER-INDEPENDENT")
	// file nodes reach ManifestToDigest only through NewManifest
	for _, fr := range digestFns {
		if fr.Obj == nil {
			continue
		}
		sf := p.SSAFunc(fr.Obj)
		for _, call := range callsIn(sf) {
			if !calleeIs(staticCalleeObj(call.Call), "private/bufpkg/bufcas", "ManifestToDigest") {
				continue
			}
			ok := dependsOnCall(call.Call.Args[0], func(cc *ssa.CallCommon) bool {
				return calleeIs(staticCalleeObj(cc), "private/bufpkg/bufcas", "NewManifest")
			})
			c.Ob("ORDER-INDEPENDENT", fr.ID()+"/manifest-sorted", call.Pos(), ok, true, "the hashed manifest is built by bufcas.NewManifest (which sorts the nodes by path): %v", ok)
		}
	}
	if nm := p.Func("private/bufpkg/bufcas", "newManifest"); nm != nil {
		sorted := false
		ast.Inspect(nm.Decl.Body, func(n ast.Node) bool {
			if call, ok := n.(*ast.CallExpr); ok {
				if fn := Callee(nm.Info(), call); fn != nil && callSorts(p, fn, 1) {
					sorted = true
				}
			}
			return true
		})
		c.Ob("ORDER-INDEPENDENT", "bufcas.newManifest/sorts", nm.Decl.Pos(), sorted, false, "newManifest sorts its nodes (sort-before-use is an R-MAPORDER obligation of C02): %v", sorted)
	}
	{
		var bp []*packages.Package
		for _, rel := range []string{"private/bufpkg/bufcas", "private/bufpkg/bufmodule"} {
			if q := p.Pkg(rel); q != nil {
				bp = append(bp, q)
			}
		}
		c08ByteOrder(c, bp)
		if q := p.Pkg("private/bufpkg/bufmodule"); q != nil {
			c08DepsUnfiltered(c, q)
		}
		ruleOnceResultLost(c, "ONCE-RESULT-LOST", bp)
	}
	if b4 := p.Func("private/bufpkg/bufmodule", "getB4Digest"); b4 != nil {
		// the side files are iterated from a literal slice
		lit := false
		ast.Inspect(b4.Decl.Body, func(n ast.Node) bool {
			if rs, ok := n.(*ast.RangeStmt); ok {
				if _, isLit := rs.X.(*ast.CompositeLit); isLit {
					lit = true
				}
			}
			return true
		})
		c.Ob("ORDER-INDEPENDENT", "getB4Digest/side-files-fixed-order", b4.Decl.Pos(), lit, true, "the v1 buf.yaml/buf.lock object data are taken from a fixed literal list: %v", lit)
	}

	// (3) names excluded
	banned := map[string]bool{"FullName": true, "OpaqueID": true, "CommitID": true, "Description": true, "ModuleFullName": true}
	scan := func(frs []*FuncRef, label string) {
		for _, fr := range frs {
			bad := ""
			ast.Inspect(fr.Decl.Body, func(n ast.Node) bool {
				if call, ok := n.(*ast.CallExpr); ok {
					if sel, ok := call.Fun.(*ast.SelectorExpr); ok && banned[sel.Sel.Name] {
						bad = sel.Sel.Name
					}
				}
				return true
			})
			c.Ob("NAMES-EXCLUDED", label+"."+declName(fr.Decl), fr.Decl.Pos(), bad == "", false, "references no module name/commit/description accessor %s", bad)
		}
	}
	// error messages may name the module: exclude functions that only build errors (none here); digest entry points only
	var core []*FuncRef
	for _, fr := range digestFns {
		n := fr.Decl.Name.Name
		if strings.HasPrefix(n, "getB") || strings.HasPrefix(n, "getFilesDigest") {
			core = append(core, fr)
		}
	}
	scan(core, "bufmodule")
	var casFns []*FuncRef
	for _, fr := range p.FuncsOf(pkC) {
		n := fr.Decl.Name.Name
		if strings.Contains(n, "Digest") || strings.Contains(n, "Manifest") || strings.Contains(n, "FileNode") {
			casFns = append(casFns, fr)
		}
	}
	scan(casFns, "bufcas")

	// (3b) the digest closure consults no identity or targeting state of the module (added after seeded change C08-c)
	c.Rule("DIGEST-INPUTS", "the digest closure of a module reads none of the module's identity or targeting members", 1)
	if fr := p.Func("private/bufpkg/bufmodule", "newGetDigestFuncForModuleAndDigestType"); fr == nil {
		c.Fail("DIGEST-INPUTS", "anchor", token.NoPos, "newGetDigestFuncForModuleAndDigestType not found")
	} else {
		denied := map[string]string{
			"isTarget": "targeting", "IsTarget": "targeting", "moduleFullName": "identity", "FullName": "identity", "commitID": "identity", "CommitID": "identity",
			"description": "identity", "Description": "identity", "bucketID": "identity", "BucketID": "identity", "OpaqueID": "identity", "moduleSet": "context of the set (only ModuleDeps may consult it)",
			"ModuleSet": "context of the set",
		}
		info := fr.Info()
		var bad []string
		seen := map[string]bool{}
		// the closure's work may be split into methods of the module (computeDigest, computeB5Digest …): what those
		// read is read by the closure
		scanned := map[*ast.BlockStmt]bool{}
		var scanBody func(body *ast.BlockStmt, depth int)
		scanBody = func(body *ast.BlockStmt, depth int) {
			if body == nil || scanned[body] {
				return
			}
			scanned[body] = true
			ast.Inspect(body, func(n ast.Node) bool {
				sel, ok := n.(*ast.SelectorExpr)
				if !ok || namedName(info.TypeOf(sel.X)) != "module" {
					return true
				}
				if fn, isFn := info.Uses[sel.Sel].(*types.Func); isFn && depth > 0 && !token.IsExported(fn.Name()) {
					if h := p.DeclOf(fn); h != nil && h.Decl.Body != nil && h.Pkg == fr.Pkg {
						scanBody(h.Decl.Body, depth-1)
						return true
					}
				}
				seen[sel.Sel.Name] = true
				if why, ok := denied[sel.Sel.Name]; ok {
					bad = append(bad, sel.Sel.Name+" ("+why+")")
				}
				return true
			})
		}
		scanBody(fr.Decl.Body, 2)
		c.Ob("DIGEST-INPUTS", "newGetDigestFuncForModuleAndDigestType", fr.Decl.Pos(), len(bad) == 0 && len(seen) >= 4, true,
			"module members read by the digest closure: %v; denied ones: %v (the digest must be the same whether or not the module is a target, whatever it is called, whichever set it is in)", sortedBoolKeys(seen), bad)
	}

	// (3c) added after the second round of seeded changes: the one chosen documentation file is chosen by walking a
	// fixed ordered list (first match wins), in every function that picks it; and a module that provides an imported
	// path stays a dependency (shared obligation with C10)
	c.Rule("DOC-CHOICE", "the documentation file is the first match of one fixed ordered list, at every site that picks it", 2)
	{
		info := pkM.TypesInfo
		var lists []string
		n := 0
		// the package variables that hold the documentation file names: initialised from a literal naming buf.md /
		// README.md, or from another such variable (found by content, not by name)
		docVars := map[types.Object]bool{}
		for changed := true; changed; {
			changed = false
			for _, f := range pkM.Syntax {
				ast.Inspect(f, func(x ast.Node) bool {
					var lhs []ast.Expr
					var rhs []ast.Expr
					switch d := x.(type) {
					case *ast.ValueSpec:
						for _, nm := range d.Names {
							lhs = append(lhs, nm)
						}
						rhs = d.Values
					case *ast.AssignStmt:
						lhs, rhs = d.Lhs, d.Rhs
					default:
						return true
					}
					for i, l := range lhs {
						o := identObj(info, l)
						if o == nil || o.Parent() != pkM.Types.Scope() || docVars[o] || i >= len(rhs) {
							continue
						}
						hit := false
						ast.Inspect(rhs[i], func(m ast.Node) bool {
							if s, ok := m.(*ast.BasicLit); ok && (s.Value == `"buf.md"` || s.Value == `"README.md"`) {
								hit = true
							}
							if id, ok := m.(*ast.Ident); ok && docVars[info.Uses[id]] {
								hit = true
							}
							return true
						})
						if hit {
							docVars[o] = true
							changed = true
						}
					}
					return true
				})
			}
		}
		for _, fr := range p.FuncsOf(pkM) {
			if fr.Decl.Body == nil {
				continue
			}
			// a function that returns the loop variable of a loop from inside the loop: "first match wins"
			ast.Inspect(fr.Decl.Body, func(x ast.Node) bool {
				rs, ok := x.(*ast.RangeStmt)
				if !ok {
					return true
				}
				xo, _ := identObj(info, rs.X).(*types.Var)
				if xo == nil || !docVars[xo] {
					return true
				}
				n++
				_, isSlice := xo.Type().Underlying().(*types.Slice)
				lists = append(lists, xo.Name())
				c.Ob("DOC-CHOICE", fr.Decl.Name.Name, rs.Pos(), isSlice, true, "%s picks the documentation file by ranging over %s, which is an ordered list: %v (a map would make the choice, and the digest, vary from run to run)", fr.Decl.Name.Name, xo.Name(), isSlice)
				return true
			})
		}
		same := true
		for _, l := range lists {
			if l != lists[0] {
				same = false
			}
		}
		c.Ob("DOC-CHOICE", "one-list", token.NoPos, n >= 2 && same, true, "%d picking sites, all over the same list: %v %v", n, same, lists)
	}
	c.Rule("DEP-SET-COMPLETE", "a module that provides an imported path is a dependency of the importer (only unprovided built-in well-known types are skipped)", 1)
	c10WktNarrow(c, "DEP-SET-COMPLETE")

	// (4) text agreement
	c08Text(c, pkC)
	c08ParseVerbatim(c)
	for _, pk := range []*packages.Package{pkC, pkM} {
		info := pk.TypesInfo
		a, b := pkgVarLiteral(pk, "digestTypeToString"), pkgVarLiteral(pk, "stringToDigestType")
		// the parse table may be computed as the inverse of the naming table (`invert(digestTypeToString)`): then it is
		// the inverse by construction, provided the helper is an inversion and the names are distinct
		computedInverse := false
		if a != nil && b == nil {
			for _, f := range pk.Syntax {
				ast.Inspect(f, func(n ast.Node) bool {
					vs, ok := n.(*ast.ValueSpec)
					if !ok {
						return true
					}
					for i, nm := range vs.Names {
						if nm.Name != "stringToDigestType" || i >= len(vs.Values) {
							continue
						}
						call, ok := ast.Unparen(vs.Values[i]).(*ast.CallExpr)
						if !ok || len(call.Args) != 1 {
							continue
						}
						if id, ok := call.Args[0].(*ast.Ident); !ok || id.Name != "digestTypeToString" {
							continue
						}
						fn := Callee(info, call)
						if fn == nil {
							continue
						}
						h := p.DeclOf(fn)
						if h == nil || h.Decl.Body == nil {
							continue
						}
						// for k, v := range param { out[v] = k }
						ast.Inspect(h.Decl.Body, func(m ast.Node) bool {
							rs, ok := m.(*ast.RangeStmt)
							if !ok || rs.Key == nil || rs.Value == nil {
								return true
							}
							ko, vo := identObj(h.Info(), rs.Key), identObj(h.Info(), rs.Value)
							for _, st := range rs.Body.List {
								if as, ok := st.(*ast.AssignStmt); ok && len(as.Lhs) == 1 && len(as.Rhs) == 1 && len(rs.Body.List) == 1 {
									if ix, ok := as.Lhs[0].(*ast.IndexExpr); ok && identObj(h.Info(), ix.Index) == vo && identObj(h.Info(), as.Rhs[0]) == ko && ko != nil && vo != nil {
										computedInverse = true
									}
								}
							}
							return true
						})
					}
					return true
				})
			}
		}
		if a == nil || (b == nil && !computedInverse) {
			c.Fail("TEXT-AGREEMENT", relPkg(pk.PkgPath)+"/digest-type-tables", token.NoPos, "tables not found")
			continue
		}
		t2s, s2t := map[string]string{}, map[string]string{}
		for _, el := range a.Elts {
			kv := el.(*ast.KeyValueExpr)
			if tv, ok := info.Types[kv.Key]; ok && tv.Value != nil {
				s, _ := stringLit(info, kv.Value)
				t2s[tv.Value.ExactString()] = s
			}
		}
		if computedInverse {
			for t, s := range t2s {
				s2t[s] = t // equal sizes below mean the names are distinct
			}
		} else {
			for _, el := range b.Elts {
				kv := el.(*ast.KeyValueExpr)
				if tv, ok := info.Types[kv.Value]; ok && tv.Value != nil {
					s, _ := stringLit(info, kv.Key)
					s2t[s] = tv.Value.ExactString()
				}
			}
		}
		bad := ""
		for t, s := range t2s {
			if s2t[s] != t {
				bad = fmt.Sprintf("digestTypeToString[%s]=%q but stringToDigestType[%q]=%s", t, s, s, s2t[s])
			}
		}
		missing, total, ok := mapLiteralMissingKeys(info, a)
		c.Ob("TEXT-AGREEMENT", relPkg(pk.PkgPath)+"/digest-type-tables", a.Pos(), bad == "" && (!ok || len(missing) == 0) && len(t2s) > 0 && len(t2s) == len(s2t), true, "%d digest type(s) (%d enumerated constants), every one named and parsed back to itself %s %v", len(t2s), total, bad, missing)
	}
	// (5)
	n := 0
	for _, pk := range []*packages.Package{pkC, pkM} {
		for _, es := range findEnumSwitches(p, pk) {
			if namedName(es.Type) != "DigestType" {
				continue
			}
			n++
			ok := len(es.Missing) == 0 || (es.HasDefault && es.DefaultErr)
			// the checkDigest closure has no default on purpose? then an unknown type compares against nil: require totality there
			c.Ob("TYPE-SWITCH", es.Fn+"/switch DigestType", es.Switch.Pos(), ok, len(es.Missing) > 0, "digest types not listed: %v, non-silent default: %v", es.Missing, es.HasDefault && es.DefaultErr)
		}
	}
	if n == 0 {
		c.Fail("TYPE-SWITCH", "switches", token.NoPos, "no switch over DigestType found")
	}
}

func c08Text(c *Ctx, pk *packages.Package) {
	p := c.P
	info := pk.TypesInfo
	// writer separator
	sep := ""
	if fr := p.Func("private/bufpkg/bufcas", "fileNode.String"); fr != nil {
		ast.Inspect(fr.Decl.Body, func(n ast.Node) bool {
			if be, ok := n.(*ast.BinaryExpr); ok && be.Op == token.ADD {
				if s, ok := stringLit(info, be.Y); ok {
					sep = s
				}
				if inner, ok := be.X.(*ast.BinaryExpr); ok {
					if s, ok := stringLit(info, inner.Y); ok {
						sep = s
					}
				}
			}
			return true
		})
	}
	pf := p.Func("private/bufpkg/bufcas", "ParseFileNode")
	if pf == nil || sep == "" {
		c.Fail("TEXT-AGREEMENT", "file-node", token.NoPos, "fileNode.String separator (%q) or ParseFileNode not found", sep)
		return
	}
	var splitSep string
	bounded := false
	splitDesc := "no split found"
	ast.Inspect(pf.Decl.Body, func(n ast.Node) bool {
		call, ok := n.(*ast.CallExpr)
		if !ok {
			return true
		}
		fn := Callee(info, call)
		if fn == nil || fn.Pkg() == nil || fn.Pkg().Path() != "strings" {
			return true
		}
		switch fn.Name() {
		case "Split":
			splitSep, _ = stringLit(info, call.Args[1])
			splitDesc = "strings.Split (unbounded)"
		case "SplitN":
			splitSep, _ = stringLit(info, call.Args[1])
			bounded = constIntIs(info, call.Args[2], 2)
			splitDesc = "strings.SplitN(…, " + exprString(call.Args[2]) + ")"
		case "Cut":
			splitSep, _ = stringLit(info, call.Args[1])
			bounded = true
			splitDesc = "strings.Cut"
		}
		return true
	})
	c.Ob("TEXT-AGREEMENT", "file-node/separator", pf.Decl.Pos(), splitSep == sep, true, "fileNode.String joins with %q and ParseFileNode splits on %q", sep, splitSep)
	c.Ob("TEXT-AGREEMENT", "file-node/bounded-split", pf.Decl.Pos(), bounded, true,
		"the last field (the path) is unconstrained text, so the parser must split off the first field only: %s (with an unbounded split a path containing %q does not parse back)", splitDesc, sep)
	// manifest: writer emits '\n' after each node; parser requires a trailing '\n', strips exactly one, splits on "\n"
	ms, pm := p.Func("private/bufpkg/bufcas", "manifest.String"), p.Func("private/bufpkg/bufcas", "ParseManifest")
	if ms == nil || pm == nil {
		c.Fail("TEXT-AGREEMENT", "manifest", token.NoPos, "manifest.String / ParseManifest not found")
		return
	}
	nl := false
	ast.Inspect(ms.Decl.Body, func(n ast.Node) bool {
		if rs, ok := n.(*ast.RangeStmt); ok {
			ast.Inspect(rs.Body, func(m ast.Node) bool {
				if call, ok := m.(*ast.CallExpr); ok && len(call.Args) == 1 {
					if tv, has := info.Types[call.Args[0]]; has && tv.Value != nil && (tv.Value.ExactString() == "10" || tv.Value.ExactString() == `"\n"`) {
						nl = true
					}
				}
				return true
			})
		}
		return true
	})
	req, strip, split := false, false, false
	// ParseManifest and the package's own functions it is split into (two levels)
	pmBodies := []*ast.BlockStmt{pm.Decl.Body}
	seenBody := map[*ast.BlockStmt]bool{pm.Decl.Body: true}
	for lvl, from := 0, pmBodies; lvl < 2; lvl++ {
		var next []*ast.BlockStmt
		for _, b := range from {
			ast.Inspect(b, func(n ast.Node) bool {
				if call, ok := n.(*ast.CallExpr); ok {
					if fn := Callee(info, call); fn != nil && fn.Pkg() != nil && strings.HasSuffix(fn.Pkg().Path(), "private/bufpkg/bufcas") && fn.Name() != "ParseFileNode" {
						if fr := p.Func("private/bufpkg/bufcas", fn.Name()); fr != nil && fr.Obj == fn && fr.Decl.Body != nil && !seenBody[fr.Decl.Body] {
							seenBody[fr.Decl.Body] = true
							next = append(next, fr.Decl.Body)
						}
					}
				}
				return true
			})
		}
		pmBodies = append(pmBodies, next...)
		from = next
	}
	for _, pmBody := range pmBodies {
		ast.Inspect(pmBody, func(n ast.Node) bool {
			switch x := n.(type) {
			case *ast.BinaryExpr:
				if x.Op == token.NEQ {
					if tv, has := info.Types[x.Y]; has && tv.Value != nil && tv.Value.ExactString() == "10" {
						req = true
					}
				}
			case *ast.UnaryExpr:
				// !strings.HasSuffix(s, "\n")
				if call, ok := ast.Unparen(x.X).(*ast.CallExpr); ok && x.Op == token.NOT {
					if fn := Callee(info, call); fn != nil && calleeIs(fn, "strings", "HasSuffix") {
						if s, ok := stringLit(info, call.Args[1]); ok && s == "\n" {
							req = true
						}
					}
				}
			case *ast.SliceExpr:
				if x.High != nil && strings.Contains(exprString(x.High), "- 1") {
					strip = true
				}
			case *ast.CallExpr:
				if fn := Callee(info, x); fn != nil && calleeIs(fn, "strings", "Split") {
					if s, ok := stringLit(info, x.Args[1]); ok && s == "\n" {
						split = true
					}
				}
				if fn := Callee(info, x); fn != nil && calleeIs(fn, "strings", "TrimSuffix") {
					if s, ok := stringLit(info, x.Args[1]); ok && s == "\n" {
						strip = true
					}
				}
			}
			return true
		})
	}
	c.Ob("TEXT-AGREEMENT", "manifest/newline-protocol", pm.Decl.Pos(), nl && req && strip && split, true,
		"writer ends every node with a newline (%v); parser requires a trailing newline (%v), strips exactly one (%v) and splits on it (%v)", nl, req, strip, split)
}

// ruleDepDigestsSorted: the dependency digest strings, which arrive in the caller's listing order, are sorted before
// hashing. Decided on SSA, wherever the step lives (the function itself or a package function it calls) and however the
// strings are collected (MapError, a loop): the list handed to strings.Join contains a []string that derives from a
// slice parameter and was sorted by a call that dominates the Join.
func ruleDepDigestsSorted(c *Ctx, rule string) {
	p := c.P
	fr := p.Func("private/bufpkg/bufmodule", "getB5DigestForBucketAndDepDigests")
	if fr == nil || fr.Obj == nil {
		c.Fail(rule, "getB5DigestForBucketAndDepDigests", token.NoPos, "not found")
		return
	}
	sf := p.SSAFunc(fr.Obj)
	ok, nJoin, nDerived := false, 0, 0
	for _, f := range reachSSA(sf, 1) {
		if f.Pkg != sf.Pkg || len(f.Blocks) == 0 {
			continue
		}
		type sortSite struct {
			v    ssa.Value
			call ssa.Instruction
		}
		var sorts []sortSite
		for _, call := range callsIn(f) {
			o := staticCalleeObj(call.Call)
			if o == nil || o.Pkg() == nil || len(call.Call.Args) == 0 {
				continue
			}
			if (o.Pkg().Path() == "sort" && o.Name() == "Strings") || (o.Pkg().Path() == "slices" && o.Name() == "Sort") {
				sorts = append(sorts, sortSite{stripConv(call.Call.Args[0]), call.Instr})
			}
		}
		for _, call := range callsIn(f) {
			if o := staticCalleeObj(call.Call); o == nil || !calleeIs(o, "strings", "Join") {
				continue
			}
			nJoin++
			sliceBack(call.Call.Args[0], func(x ssa.Value) bool {
				sl, isSlice := x.Type().Underlying().(*types.Slice)
				if !isSlice || sl.Elem().String() != "string" {
					return true
				}
				fromParam := false
				sliceBack(x, func(y ssa.Value) bool {
					if par, isPar := y.(*ssa.Parameter); isPar {
						if _, isSl := par.Type().Underlying().(*types.Slice); isSl {
							fromParam = true
						}
					}
					return true
				})
				if !fromParam {
					return true
				}
				nDerived++
				for _, s := range sorts {
					if s.v == stripConv(x) && instrDominates(s.call, call.Instr) {
						ok = true
					}
				}
				return true
			})
		}
	}
	c.Ob(rule, "getB5DigestForBucketAndDepDigests/dep-digests-sorted", fr.Decl.Pos(), ok && nJoin > 0, true, "the dependency digest strings (%d []string value(s) derived from a slice parameter, i.e. in the caller's listing order, on the way to %d strings.Join call(s)) are sorted before strings.Join feeds the hash: %v", nDerived, nJoin, ok)
}

// c08NodeFromObject (NODE-FROM-OBJECT): the digest is "the same for every storage backend" only if a file node is named
// by the object's bucket-relative Path() - ExternalPath()/LocalPath() differ between a directory, an archive and the
// cache - and "changes whenever any byte changes" only if its content digest is computed from the very object being
// walked. For every walk that feeds file nodes into a digest (found as in FILTER-IN-WALK) the callback must: call
// NewDigestForContent on its own parameter, pass that digest and parameter.Path() to NewFileNode, append the node on
// the success path (no nil return that skips the append), and the walk must start at the bucket root ("").
func c08NodeFromObject(c *Ctx, pkM *packages.Package) {
	const rule = "NODE-FROM-OBJECT"
	c.Rule(rule, "every walked object becomes one file node named by its bucket path with the digest of its own content", 4)
	p := c.P
	n := 0
	scope := []*packages.Package{pkM}
	if pkC := p.Pkg("private/bufpkg/bufcas"); pkC != nil {
		scope = append(scope, pkC) // NewFileSetForBucket: a file set (and so a manifest) for any bucket; same naming rule, no module-file filter
	}
	for _, sf := range p.SSAFuncsOf(scope) {
		for _, f := range allSSAFuncs(sf) {
			for _, call := range callsIn(f) {
				if !calleeIs(staticCalleeObj(call.Call), "private/pkg/storage", "WalkReadObjects") || len(call.Call.Args) < 4 {
					continue
				}
				var cb *ssa.Function
				switch x := call.Call.Args[3].(type) {
				case *ssa.MakeClosure:
					cb, _ = x.Fn.(*ssa.Function)
				case *ssa.Function:
					cb = x
				}
				if cb == nil || len(cb.Params) != 1 {
					continue
				}
				var newNode, newDigest *ssa.Call
				for _, cc := range callsIn(cb) {
					fn := staticCalleeObj(cc.Call)
					if fn == nil || fn.Pkg() == nil || !strings.HasSuffix(fn.Pkg().Path(), "/bufcas") {
						continue
					}
					if v, ok := cc.Value.(*ssa.Call); ok {
						switch fn.Name() {
						case "NewFileNode":
							newNode = v
						case "NewDigestForContent", "NewBlobForContent":
							newDigest = v
						}
					}
				}
				if newNode == nil {
					continue
				}
				n++
				inst := fmt.Sprintf("%s/walk#%d", ssaFuncName(f), n)
				obj := cb.Params[0]
				// (a) content digest of this object
				okDigest := newDigest != nil && len(newDigest.Call.Args) >= 1 && stripConv(newDigest.Call.Args[0]) == ssa.Value(obj) &&
					len(newNode.Call.Args) == 2 && dependsOnValue(newNode.Call.Args[1], newDigest)
				c.Ob(rule, inst+"/content", newNode.Pos(), okDigest, true, "the node's digest is NewDigestForContent/NewBlobForContent(<the walked object>): %v", okDigest)
				// (b) named by Path()
				okPath := false
				if pc, ok := stripConv(newNode.Call.Args[0]).(*ssa.Call); ok && pc.Call.IsInvoke() && pc.Call.Value == ssa.Value(obj) && pc.Call.Method.Name() == "Path" {
					okPath = true
				}
				c.Ob(rule, inst+"/path", newNode.Pos(), okPath, true, "the node is named by <the walked object>.Path(), the bucket-relative path (not an external or local path): %v", okPath)
				// (c) every success return has appended the node
				okAppend := true
				nRet := 0
				for _, r := range returnsOf(cb) {
					if len(r.Results) != 1 || !isNilConst(r.Results[0]) {
						continue
					}
					nRet++
					if !instrDominates(newNode, r) {
						okAppend = false
					}
				}
				c.Ob(rule, inst+"/no-skip", cb.Pos(), okAppend && nRet > 0, true, "every nil return of the callback (%d) comes after the node was built: %v", nRet, okAppend)
				// (d) whole bucket
				okRoot := isConstString(call.Call.Args[2], "")
				c.Ob(rule, inst+"/root", call.Pos(), okRoot, true, "the walk starts at the bucket root (prefix \"\"): %v", okRoot)
			}
		}
	}
	if n == 0 {
		c.Fail(rule, "anchor", token.NoPos, "no digest walk found")
	}
}
