package main

// Error-discipline rules: R-DEFER (deferred overwrite of a named error result),
// R-ERRUSE (error result of a call never consumed), R-ERRSWALLOW (nil returned on the
// non-nil edge of an error test).

import (
	"fmt"
	"go/ast"
	"go/token"
	"go/types"
	"sort"
	"strings"

	"golang.org/x/tools/go/packages"
	"golang.org/x/tools/go/ssa"
)

// namedErrorResults returns the named error results of a function type.
func namedErrorResults(info *types.Info, ft *ast.FuncType) []types.Object {
	var out []types.Object
	if ft == nil || ft.Results == nil {
		return nil
	}
	for _, f := range ft.Results.List {
		for _, n := range f.Names {
			if n.Name == "_" {
				continue
			}
			obj := info.Defs[n]
			if obj != nil && isErrorType(obj.Type()) {
				out = append(out, obj)
			}
		}
	}
	return out
}

// guardedBy reports whether node n lies (within root) under an `if` whose condition mentions obj,
// or under an `if` whose condition depends on recover().
func (p *Prog) guardedBy(info *types.Info, n ast.Node, root ast.Node, obj types.Object) bool {
	// locals that hold a copy of the current value (`retErr := *retErrPtr`, defined once before n) stand for it
	copies := map[types.Object]bool{}
	if root != nil {
		ast.Inspect(root, func(x ast.Node) bool {
			as, ok := x.(*ast.AssignStmt)
			if !ok || as.Tok != token.DEFINE || len(as.Lhs) != 1 || len(as.Rhs) != 1 || as.Pos() > n.Pos() {
				return true
			}
			rhs := ast.Unparen(as.Rhs[0])
			if se, ok := rhs.(*ast.StarExpr); ok {
				rhs = ast.Unparen(se.X)
			}
			if identObj(info, rhs) == obj {
				if o := identObj(info, as.Lhs[0]); o != nil {
					copies[o] = true
				}
			}
			return true
		})
	}
	usesObj := func(info *types.Info, n ast.Node, obj types.Object) bool {
		if usesObj(info, n, obj) {
			return true
		}
		for c := range copies {
			if usesObj(info, n, c) {
				return true
			}
		}
		return false
	}
	for cur := p.Parent(n); cur != nil && cur != root; cur = p.Parent(cur) {
		ifs, ok := cur.(*ast.IfStmt)
		if !ok {
			continue
		}
		if usesObj(info, ifs.Cond, obj) {
			return true
		}
		if ifs.Init != nil && usesObj(info, ifs.Init, obj) {
			return true
		}
	}
	// early-exit form of the same guard: `if <cond on obj> { …; return }` earlier in a block that encloses n
	for cur := p.Parent(n); cur != nil; cur = p.Parent(cur) {
		var list []ast.Stmt
		switch b := cur.(type) {
		case *ast.BlockStmt:
			list = b.List
		case *ast.CaseClause:
			list = b.Body
		}
		for _, st := range list {
			if st.End() > n.Pos() {
				break
			}
			ifs, ok := st.(*ast.IfStmt)
			if !ok || ifs.Else != nil || len(ifs.Body.List) == 0 {
				continue
			}
			if !usesObj(info, ifs.Cond, obj) && !(ifs.Init != nil && usesObj(info, ifs.Init, obj)) {
				continue
			}
			switch ifs.Body.List[len(ifs.Body.List)-1].(type) {
			case *ast.ReturnStmt, *ast.BranchStmt:
				return true
			}
		}
		if cur == root {
			break
		}
	}
	return false
}

func mentionsRecover(info *types.Info, n ast.Node) bool {
	found := false
	ast.Inspect(n, func(x ast.Node) bool {
		if call, ok := x.(*ast.CallExpr); ok {
			if id, ok := call.Fun.(*ast.Ident); ok {
				if b, ok := info.Uses[id].(*types.Builtin); ok && b.Name() == "recover" {
					found = true
				}
			}
		}
		return !found
	})
	return found
}

// ruleDefer applies R-DEFER to every function of the given packages.
// rule name is passed so that several properties can host it.
func ruleDefer(c *Ctx, rule string, pkgs []*packages.Package) {
	p := c.P
	for _, pk := range pkgs {
		info := pk.TypesInfo
		for _, f := range pk.Syntax {
			if isGenerated(f) {
				continue
			}
			ast.Inspect(f, func(n ast.Node) bool {
				var ft *ast.FuncType
				var body *ast.BlockStmt
				switch fn := n.(type) {
				case *ast.FuncDecl:
					ft, body = fn.Type, fn.Body
				case *ast.FuncLit:
					ft, body = fn.Type, fn.Body
				default:
					return true
				}
				if body == nil {
					return true
				}
				results := namedErrorResults(info, ft)
				checkDeferLocal(c, rule, info, n, body, results)
				if len(results) == 0 {
					return true
				}
				c.FuncsAnalysed++
				fd := p.EnclosingFuncDecl(n)
				fname := "?"
				if fd != nil {
					fname = relPkg(pk.PkgPath) + "." + declName(fd)
				}
				// deferred literals directly in this function
				inspectNoFuncLit(body, func(x ast.Node) bool {
					ds, ok := x.(*ast.DeferStmt)
					if !ok {
						return true
					}
					lit, isLit := ast.Unparen(ds.Call.Fun).(*ast.FuncLit)
					if isLit {
						for _, r := range results {
							checkDeferredAssignments(c, rule, info, lit.Body, lit, r, nil, fname)
						}
						return true
					}
					// defer helper(&r): follow into an in-module helper
					for ai, a := range ds.Call.Args {
						ue, ok := ast.Unparen(a).(*ast.UnaryExpr)
						if !ok || ue.Op != token.AND {
							continue
						}
						for _, r := range results {
							if identObj(info, ue.X) != r {
								continue
							}
							callee := Callee(info, ds.Call)
							ref := p.DeclOf(callee)
							if ref == nil {
								c.Ob(rule, fname+"/defer "+exprString(ds.Call.Fun), ds.Pos(), false, false,
									"deferred call receives &%s but its body is not available: cannot decide whether the body's error is preserved", r.Name())
								continue
							}
							params := ref.Decl.Type.Params.List
							var pobj types.Object
							idx := 0
							for _, fld := range params {
								for _, nm := range fld.Names {
									if idx == ai {
										pobj = ref.Pkg.TypesInfo.Defs[nm]
									}
									idx++
								}
							}
							if pobj == nil {
								continue
							}
							checkDeferredAssignments(c, rule, ref.Pkg.TypesInfo, ref.Decl.Body, ref.Decl, nil, pobj, fname+"→"+declName(ref.Decl))
						}
					}
					return true
				})
				return true
			})
		}
	}
}

// checkDeferredAssignments examines the assignments to result r (or to *ptr) inside a deferred body.
func checkDeferredAssignments(c *Ctx, rule string, info *types.Info, body *ast.BlockStmt, root ast.Node, r types.Object, ptr types.Object, fname string) {
	p := c.P
	target := r
	if target == nil {
		target = ptr
	}
	isTarget := func(e ast.Expr) bool {
		e = ast.Unparen(e)
		if ptr != nil {
			se, ok := e.(*ast.StarExpr)
			return ok && identObj(info, se.X) == ptr
		}
		return identObj(info, e) == r
	}
	ast.Inspect(body, func(x ast.Node) bool {
		as, ok := x.(*ast.AssignStmt)
		if !ok {
			return true
		}
		for i, lhs := range as.Lhs {
			if !isTarget(lhs) {
				continue
			}
			var rhs ast.Expr
			if len(as.Rhs) == len(as.Lhs) {
				rhs = as.Rhs[i]
			} else if len(as.Rhs) == 1 {
				rhs = as.Rhs[0]
			}
			okA := false
			why := ""
			switch {
			case rhs != nil && usesObj(info, rhs, target):
				okA, why = true, "right-hand side joins/wraps the current value"
			case p.guardedBy(info, as, root, target):
				okA, why = true, "guarded by a condition on the current value"
			case recoverGuard(p, info, as, root):
				okA, why = true, "panic-recovery path (no body error exists)"
			}
			inst := fmt.Sprintf("%s/%s", fname, target.Name())
			if okA {
				c.Ob(rule, inst, as.Pos(), true, true, "deferred assignment to %s: %s", target.Name(), why)
			} else {
				c.Ob(rule, inst, as.Pos(), false, true,
					"deferred function assigns `%s` to named result %s without mentioning its current value and outside any guard on it: the error produced by the function body is overwritten at return",
					short(nodeString(p, as), 90), target.Name())
			}
		}
		return true
	})
}

func recoverGuard(p *Prog, info *types.Info, n ast.Node, root ast.Node) bool {
	for cur := p.Parent(n); cur != nil && cur != root; cur = p.Parent(cur) {
		if ifs, ok := cur.(*ast.IfStmt); ok {
			if mentionsRecover(info, ifs.Cond) || (ifs.Init != nil && mentionsRecover(info, ifs.Init)) {
				return true
			}
		}
	}
	return false
}

func nodeString(p *Prog, n ast.Node) string {
	switch x := n.(type) {
	case ast.Expr:
		return exprString(x)
	case *ast.AssignStmt:
		var l, r []string
		for _, e := range x.Lhs {
			l = append(l, exprString(e))
		}
		for _, e := range x.Rhs {
			r = append(r, exprString(e))
		}
		return strings.Join(l, ", ") + " " + x.Tok.String() + " " + strings.Join(r, ", ")
	case *ast.ExprStmt:
		return exprString(x.X)
	case *ast.DeferStmt:
		return "defer " + exprString(x.Call)
	case *ast.ReturnStmt:
		var r []string
		for _, e := range x.Results {
			r = append(r, exprString(e))
		}
		return "return " + strings.Join(r, ", ")
	}
	return fmt.Sprintf("%T", n)
}

// ---- R-ERRUSE -----------------------------------------------------------------------------

// errUseSite is one call whose error result is not consumed.
type errUseSite struct {
	Fn      *ssa.Function
	Callee  string // readable callee id
	CalleeF *types.Func
	Recv    types.Type // static receiver type for method calls
	Pos     token.Pos
	Kind    string // "dropped", "deferred", "go"
	Args    []ssa.Value
}

// valueConsumed reports whether an SSA value is used by something other than debug refs and
// dead phis.
func valueConsumed(v ssa.Value, seen map[ssa.Value]bool) bool {
	if seen[v] {
		return false
	}
	seen[v] = true
	refs := v.Referrers()
	if refs == nil {
		return true
	}
	for _, r := range *refs {
		switch x := r.(type) {
		case *ssa.DebugRef:
			continue
		case *ssa.Phi:
			if valueConsumed(x, seen) {
				return true
			}
		default:
			return true
		}
	}
	return false
}

// calleeDesc describes the callee of a call for tables and messages.
func calleeDesc(cc *ssa.CallCommon) (string, *types.Func, types.Type) {
	if cc.IsInvoke() {
		return fmt.Sprintf("(%s).%s", typeShort(cc.Value.Type()), cc.Method.Name()), cc.Method, cc.Value.Type()
	}
	if sc := cc.StaticCallee(); sc != nil {
		if fn, ok := sc.Object().(*types.Func); ok {
			var recv types.Type
			if sig := fn.Type().(*types.Signature); sig.Recv() != nil {
				recv = sig.Recv().Type()
			}
			return funcIDFull(fn), fn, recv
		}
		return sc.String(), nil, nil
	}
	return "dynamic:" + cc.Value.Type().String(), nil, nil
}

func typeShort(t types.Type) string {
	return types.TypeString(t, func(p *types.Package) string {
		return relPkg(p.Path())
	})
}

// funcIDFull is like funcID but keeps full import paths for non-module packages.
func funcIDFull(fn *types.Func) string {
	sig, _ := fn.Type().(*types.Signature)
	pkg := ""
	if fn.Pkg() != nil {
		pkg = relPkg(fn.Pkg().Path())
	}
	if sig != nil && sig.Recv() != nil {
		return fmt.Sprintf("(%s).%s", typeShort(sig.Recv().Type()), fn.Name())
	}
	return pkg + "." + fn.Name()
}

// unconsumedErrors lists calls in fn (and nested closures) whose error result is never consumed.
func unconsumedErrors(fn *ssa.Function) (sites []errUseSite, total int) {
	for _, f := range allSSAFuncs(fn) {
		for _, b := range f.Blocks {
			for _, ins := range b.Instrs {
				var cc *ssa.CallCommon
				kind := ""
				var val ssa.Value
				switch x := ins.(type) {
				case *ssa.Call:
					cc, val = &x.Call, x
				case *ssa.Defer:
					cc, kind = &x.Call, "deferred"
				case *ssa.Go:
					cc, kind = &x.Call, "go"
				default:
					continue
				}
				sig := cc.Signature()
				if !lastResultIsError(sig) {
					continue
				}
				total++
				if val != nil {
					n := sig.Results().Len()
					consumed := false
					if n == 1 {
						consumed = valueConsumed(val, map[ssa.Value]bool{})
					} else if refs := val.Referrers(); refs != nil {
						for _, r := range *refs {
							if ex, ok := r.(*ssa.Extract); ok && ex.Index == n-1 {
								if valueConsumed(ex, map[ssa.Value]bool{}) {
									consumed = true
								}
							}
						}
					}
					if consumed {
						continue
					}
					kind = "dropped"
				}
				desc, cf, recv := calleeDesc(cc)
				sites = append(sites, errUseSite{Fn: f, Callee: desc, CalleeF: cf, Recv: recv, Pos: ins.Pos(), Kind: kind, Args: cc.Args})
			}
		}
	}
	return
}

// SSAFuncsOf returns the SSA functions of every declared function in the packages.
func (p *Prog) SSAFuncsOf(pkgs []*packages.Package) []*ssa.Function {
	var out []*ssa.Function
	for _, pk := range pkgs {
		for _, fr := range p.FuncsOf(pk) {
			if fr.Obj == nil {
				continue
			}
			if sf := p.SSAFunc(fr.Obj); sf != nil {
				out = append(out, sf)
			}
		}
		// package-level function literals (var x = func(){...}) live in the init function
		if sp := p.SSA().Package(pk.Types); sp != nil {
			if init := sp.Func("init"); init != nil {
				for _, a := range init.AnonFuncs {
					out = append(out, a)
				}
			}
		}
	}
	sort.Slice(out, func(i, j int) bool { return out[i].String() < out[j].String() })
	return out
}

// ssaFuncName gives a line-free id for an SSA function (closures: parent$n).
func ssaFuncName(f *ssa.Function) string {
	s := f.String()
	s = strings.ReplaceAll(s, modPath+"/", "")
	return s
}

// ---- R-ERRSWALLOW -------------------------------------------------------------------------

// swallowSite is a `return …, nil` lying on the non-nil edge of an error test.
type swallowSite struct {
	Fn     string
	ErrVar string
	Ret    *ast.ReturnStmt
	If     *ast.IfStmt
	// Classified is true when an inner condition between the test and the return inspects the error
	// (errors.Is / IsNotExist / type assertion …): a deliberate classification, not a swallow.
	Classified bool
}

// findSwallows lists nil-error returns (and fallthroughs are not considered) under `if err != nil`.
func findSwallows(p *Prog, pk *packages.Package) []swallowSite {
	var out []swallowSite
	info := pk.TypesInfo
	for _, f := range pk.Syntax {
		if isGenerated(f) {
			continue
		}
		ast.Inspect(f, func(n ast.Node) bool {
			ifs, ok := n.(*ast.IfStmt)
			if !ok {
				return true
			}
			obj := nonNilErrTested(info, ifs.Cond)
			if obj == nil {
				return true
			}
			encl := p.EnclosingFunc(ifs)
			ft := funcType(encl)
			if ft == nil || ft.Results == nil {
				return true
			}
			// function's last result must be error
			last := ft.Results.List[len(ft.Results.List)-1]
			if !isErrorType(info.TypeOf(last.Type)) {
				return true
			}
			inspectNoFuncLit(ifs.Body, func(x ast.Node) bool {
				r, ok := x.(*ast.ReturnStmt)
				if !ok {
					return true
				}
				if classifyReturn(info, r) != retNil {
					return true
				}
				s := swallowSite{ErrVar: obj.Name(), Ret: r, If: ifs}
				if fd := p.EnclosingFuncDecl(ifs); fd != nil {
					s.Fn = relPkg(pk.PkgPath) + "." + declName(fd)
				}
				for cur := p.Parent(r); cur != nil && cur != ifs; cur = p.Parent(cur) {
					switch c := cur.(type) {
					case *ast.IfStmt:
						if usesObj(info, c.Cond, obj) || (c.Init != nil && usesObj(info, c.Init, obj)) {
							s.Classified = true
						}
					case *ast.SwitchStmt:
						if c.Tag != nil && usesObj(info, c.Tag, obj) {
							s.Classified = true
						}
					case *ast.CaseClause:
						for _, e := range c.List {
							if usesObj(info, e, obj) {
								s.Classified = true
							}
						}
					case *ast.TypeSwitchStmt:
						if usesObj(info, c.Assign, obj) {
							s.Classified = true
						}
					}
				}
				// an early-exit guard before the return, in the same block or an enclosing one inside the error branch,
				// classifies the error just as well: `if !os.IsNotExist(err) { return nil, err }; return nil, nil`
				for cur := ast.Node(r); cur != nil && cur != ifs && !s.Classified; cur = p.Parent(cur) {
					blk, ok := p.Parent(cur).(*ast.BlockStmt)
					if !ok {
						continue
					}
					for _, st := range blk.List {
						if st == cur {
							break
						}
						g, ok := st.(*ast.IfStmt)
						if !ok || !(usesObj(info, g.Cond, obj) || (g.Init != nil && usesObj(info, g.Init, obj))) || len(g.Body.List) == 0 {
							continue
						}
						switch last := g.Body.List[len(g.Body.List)-1].(type) {
						case *ast.ReturnStmt:
							s.Classified = true
						case *ast.BranchStmt:
							if last.Tok == token.CONTINUE || last.Tok == token.BREAK {
								s.Classified = true
							}
						}
					}
				}
				// a fallback value for a failed computation that has no effect (`rel, err := filepath.Rel(a, b); if err !=
				// nil { return path, nil }` is `if rel, err := …; err == nil { return rel, nil }; return path, nil` written
				// the other way round): nothing was attempted whose failure could be lost, and the caller gets a value
				if !s.Classified && len(r.Results) >= 2 && swallowIsFallback(info, encl, ifs, obj, r) {
					s.Classified = true
				}
				out = append(out, s)
				return true
			})
			return true
		})
	}
	return out
}

// nonNilErrTested returns the error variable x when cond is `x != nil` or `x != nil && …`.
func nonNilErrTested(info *types.Info, cond ast.Expr) types.Object {
	cond = ast.Unparen(cond)
	if be, ok := cond.(*ast.BinaryExpr); ok && be.Op == token.LAND {
		if o := nonNilErrTested(info, be.X); o != nil {
			return o
		}
		return nonNilErrTested(info, be.Y)
	}
	obj, nonNil, ok := errNilTest(info, cond)
	if !ok || !nonNil || obj == nil || !isErrorType(obj.Type()) {
		return nil
	}
	return obj
}

// checkDeferLocal: a deferred literal that assigns an error to a plain local variable of the enclosing
// function (not a named result) cannot influence what the function returns: the return value was
// already copied when deferred functions run. Tolerated when another deferred literal reads the variable.
func checkDeferLocal(c *Ctx, rule string, info *types.Info, fn ast.Node, body *ast.BlockStmt, results []types.Object) {
	p := c.P
	isResult := func(o types.Object) bool {
		for _, r := range results {
			if r == o {
				return true
			}
		}
		return false
	}
	var lits []*ast.FuncLit
	inspectNoFuncLit(body, func(x ast.Node) bool {
		if ds, ok := x.(*ast.DeferStmt); ok {
			if lit, ok := ast.Unparen(ds.Call.Fun).(*ast.FuncLit); ok {
				lits = append(lits, lit)
			}
		}
		return true
	})
	for _, lit := range lits {
		ast.Inspect(lit.Body, func(x ast.Node) bool {
			as, ok := x.(*ast.AssignStmt)
			if !ok || as.Tok == token.DEFINE {
				return true
			}
			for _, lhs := range as.Lhs {
				o := identObj(info, lhs)
				v, isVar := o.(*types.Var)
				if !isVar || !isErrorType(v.Type()) || isResult(o) || v.IsField() {
					continue
				}
				// declared in the enclosing function body, outside the literal
				if !(v.Pos() >= body.Pos() && v.Pos() < body.End()) || (v.Pos() >= lit.Pos() && v.Pos() < lit.End()) {
					continue
				}
				// parameters of the enclosing function are not subjects
				readElsewhere := false
				for _, other := range lits {
					if other == lit {
						continue
					}
					if usesObj(info, other.Body, o) {
						readElsewhere = true
					}
				}
				fd := p.EnclosingFuncDecl(fn)
				fname := "?"
				if fd != nil {
					if pk := p.PkgOfPos(fd.Pos()); pk != nil {
						fname = relPkg(pk.PkgPath) + "." + declName(fd)
					}
				}
				c.Ob(rule, fname+"/deferred-store-to-local/"+v.Name(), as.Pos(), readElsewhere, true,
					"a deferred function assigns an error to the local variable %s, which is not a named result: deferred functions run after the return value was fixed, so this error (e.g. of Close) can never reach the caller", v.Name())
			}
			return true
		})
	}
}

// effectFreeStdPkgs: standard packages whose functions compute a value from their arguments (or read the
// environment) and change nothing.
var effectFreeStdPkgs = map[string]bool{"path/filepath": true, "path": true, "strconv": true, "net/url": true, "strings": true, "unicode/utf8": true}

// swallowIsFallback: the error tested by ifs was produced by a call into an effect-free standard package, and the
// nil-error return hands back a value that is not a zero literal.
func swallowIsFallback(info *types.Info, encl ast.Node, ifs *ast.IfStmt, errObj types.Object, r *ast.ReturnStmt) bool {
	var def *ast.CallExpr
	look := func(as *ast.AssignStmt) {
		if len(as.Rhs) != 1 {
			return
		}
		call, ok := ast.Unparen(as.Rhs[0]).(*ast.CallExpr)
		if !ok {
			return
		}
		for _, l := range as.Lhs {
			if id, ok := l.(*ast.Ident); ok && info.ObjectOf(id) == errObj && as.Pos() < ifs.Body.Pos() {
				def = call // the last one before the test wins
			}
		}
	}
	ast.Inspect(encl, func(n ast.Node) bool {
		if as, ok := n.(*ast.AssignStmt); ok {
			look(as)
		}
		return true
	})
	if def == nil {
		return false
	}
	fn := Callee(info, def)
	if fn == nil || fn.Pkg() == nil || !effectFreeStdPkgs[fn.Pkg().Path()] || strings.HasPrefix(fn.Name(), "Walk") {
		return false
	}
	for _, res := range r.Results[:len(r.Results)-1] {
		res = ast.Unparen(res)
		if isNilIdent(info, res) {
			continue
		}
		if tv, ok := info.Types[res]; ok && tv.Value != nil {
			continue // a constant: "", 0, false
		}
		if cl, ok := res.(*ast.CompositeLit); ok && len(cl.Elts) == 0 {
			continue
		}
		return true
	}
	return false
}
