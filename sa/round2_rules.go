package main

// Rules written after the second round of independently seeded changes (C01–C10, seeds d–f). Each is a necessary
// condition of its property (the seed's demonstration is the counter-example when it fails), is silent on the
// unchanged tree, and identifies its subject by types, callees and control flow rather than by names where possible.

import (
	"fmt"
	"go/ast"
	"go/token"
	"go/types"
	"strings"

	"golang.org/x/tools/go/packages"
)

// ---- C01: RECORD-ALL ------------------------------------------------------------------------------------------

// c01RecordAll: parserAccessorHandler.addPath records each optional attribute of a file (local path, module name,
// commit) under that attribute's own presence test. A success return that can be reached without passing an
// attribute's test skips that attribute whenever an *other* attribute is absent (files of in-memory or archive
// buckets have no local path: their module name and commit must still be recorded). Rule: every `return nil` of the
// function is dominated by the presence test of every attribute that the function stores.
func c01RecordAll(c *Ctx) {
	const rule = "RECORD-ALL"
	c.Rule(rule, "the parser accessor records every per-file attribute whatever the other attributes are", 2)
	p := c.P
	fr := p.Func("private/bufpkg/bufimage", "parserAccessorHandler.addPath")
	if fr == nil {
		c.Fail(rule, "anchor", token.NoPos, "parserAccessorHandler.addPath not found")
		return
	}
	info := fr.Info()
	g := p.CFGOf(fr.Decl.Body, info)
	params := map[types.Object]bool{}
	for _, fl := range fr.Decl.Type.Params.List {
		for _, nm := range fl.Names {
			params[info.Defs[nm]] = true
		}
	}
	// stores `recv.m[key] = <param>` and the outermost if that tests that parameter
	type attr struct {
		name  string
		guard *ast.IfStmt
		store ast.Node
	}
	var attrs []attr
	ast.Inspect(fr.Decl.Body, func(n ast.Node) bool {
		as, ok := n.(*ast.AssignStmt)
		if !ok || len(as.Lhs) != 1 || len(as.Rhs) != 1 {
			return true
		}
		if _, isIdx := as.Lhs[0].(*ast.IndexExpr); !isIdx {
			return true
		}
		v := identObj(info, as.Rhs[0])
		if v == nil || !params[v] {
			return true
		}
		var outer *ast.IfStmt
		for q := p.Parent(as); q != nil && q != ast.Node(fr.Decl); q = p.Parent(q) {
			if ifs, ok := q.(*ast.IfStmt); ok && usesObj(info, ifs.Cond, v) {
				outer = ifs
			}
		}
		if outer == nil {
			return true // not an optional attribute: stored unconditionally or under a lookup of the map itself
		}
		attrs = append(attrs, attr{v.Name(), outer, as})
		return true
	})
	var rets []*ast.ReturnStmt
	for _, r := range g.Returns() {
		if len(r.Results) == 1 && isNilIdent(info, r.Results[0]) {
			rets = append(rets, r)
		}
	}
	for _, a := range attrs {
		ok := true
		why := ""
		for _, r := range rets {
			var gate ast.Node = a.store
			if a.guard != nil {
				gate = a.guard.Cond
			}
			if !g.Dominates(gate, r) {
				ok = false
				why = fmt.Sprintf("the success return at %s is reachable without deciding whether to record %s", p.Pos(r.Pos()), a.name)
			}
		}
		c.Ob(rule, "addPath/"+a.name, a.store.Pos(), ok && len(rets) > 0, true, "attribute %s is recorded (or found absent) on every successful path: %v %s", a.name, ok, why)
	}
	if len(attrs) < 3 {
		c.Fail(rule, "addPath/attributes", fr.Decl.Pos(), "only %d attribute stores found in addPath", len(attrs))
	}
}

// ---- C02: ENUM-ORDER, BOUNDED-APPEND ---------------------------------------------------------------------------

// c02EnumOrder: directory listings that the operating system returns in directory order ((*os.File).Readdirnames,
// Readdir, ReadDir) are sorted before they leave the function that made them. (os.ReadDir and filepath.WalkDir sort
// themselves.) Unsorted, the walk order — and, where symlinks are de-duplicated, the set of files — depends on the
// file system.
func c02EnumOrder(c *Ctx) {
	const rule = "ENUM-ORDER"
	c.Rule(rule, "directory listings in operating-system order are sorted before use", 1)
	p := c.P
	n := 0
	for _, pk := range p.ModulePkgs() {
		info := pk.TypesInfo
		for _, fr := range p.FuncsOf(pk) {
			if fr.Decl.Body == nil {
				continue
			}
			ast.Inspect(fr.Decl.Body, func(x ast.Node) bool {
				call, ok := x.(*ast.CallExpr)
				if !ok {
					return true
				}
				fn := Callee(info, call)
				if fn == nil || !(methodIs(fn, "os", "File", "Readdirnames") || methodIs(fn, "os", "File", "Readdir") || methodIs(fn, "os", "File", "ReadDir")) {
					return true
				}
				n++
				c.CallSites++
				// the listing is bound to a variable that a sort call on the same variable follows on every path to a return
				var lv types.Object
				if as, ok := p.Parent(call).(*ast.AssignStmt); ok && len(as.Lhs) >= 1 {
					lv = identObj(info, as.Lhs[0])
				}
				sorted := false
				if lv != nil {
					g := p.CFGOf(fr.Decl.Body, info)
					var sorts []ast.Node
					ast.Inspect(fr.Decl.Body, func(m ast.Node) bool {
						if sc, ok := m.(*ast.CallExpr); ok && len(sc.Args) >= 1 && identObj(info, sc.Args[0]) == lv {
							if sf := Callee(info, sc); sf != nil && callSorts(p, sf, 1) {
								sorts = append(sorts, sc)
							}
						}
						return true
					})
					if len(sorts) > 0 {
						sorted = true
						for _, r := range g.Returns() {
							if usesObj(info, r, lv) && g.ReachableAvoiding(call, r, sorts) {
								sorted = false
							}
						}
					}
				}
				c.Ob(rule, fr.ID()+"/"+fn.Name(), call.Pos(), sorted, true, "the result of (*os.File).%s is sorted before it is returned: %v", fn.Name(), sorted)
				return true
			})
		}
	}
	if n == 0 {
		c.Fail(rule, "sites", token.NoPos, "no (*os.File).Readdirnames/Readdir/ReadDir call found (filepathext.readDirNames moved?): undecided")
	}
}

// c02BoundedAppend: a function literal that appends to a captured slice only while the slice is shorter than some
// bound keeps the *first arrivals*; when the literal is a callback of a concurrent producer (compile errors,
// annotations) the retained subset depends on scheduling even if it is sorted afterwards.
func c02BoundedAppend(c *Ctx, pkgs []*packages.Package) {
	const rule = "BOUNDED-APPEND"
	c.Rule(rule, "no callback keeps only the first N arrivals of a shared collection", 1)
	p := c.P
	n, lits := 0, 0
	for _, pk := range pkgs {
		info := pk.TypesInfo
		for _, f := range pk.Syntax {
			if isGenerated(f) {
				continue
			}
			ast.Inspect(f, func(x ast.Node) bool {
				lit, ok := x.(*ast.FuncLit)
				if !ok {
					return true
				}
				lits++
				ast.Inspect(lit.Body, func(m ast.Node) bool {
					as, ok := m.(*ast.AssignStmt)
					if !ok || len(as.Lhs) != 1 || len(as.Rhs) != 1 {
						return true
					}
					call, ok := ast.Unparen(as.Rhs[0]).(*ast.CallExpr)
					if !ok || len(call.Args) < 2 {
						return true
					}
					if id, ok := call.Fun.(*ast.Ident); !ok || id.Name != "append" {
						return true
					}
					sv := identObj(info, as.Lhs[0])
					if sv == nil || identObj(info, call.Args[0]) != sv {
						return true
					}
					// captured (declared outside the literal)
					if sv.Pos() >= lit.Pos() && sv.Pos() <= lit.End() {
						return true
					}
					for q := p.Parent(as); q != nil && q != ast.Node(lit); q = p.Parent(q) {
						ifs, ok := q.(*ast.IfStmt)
						if !ok {
							continue
						}
						bounded := false
						ast.Inspect(ifs.Cond, func(k ast.Node) bool {
							if lc, ok := k.(*ast.CallExpr); ok && len(lc.Args) == 1 {
								if id, ok := lc.Fun.(*ast.Ident); ok && (id.Name == "len" || id.Name == "cap") && identObj(info, lc.Args[0]) == sv {
									bounded = true
								}
							}
							return true
						})
						if bounded {
							n++
							fd := p.EnclosingFuncDecl(lit)
							name := "?"
							if fd != nil {
								name = relPkg(pk.PkgPath) + "." + declName(fd)
							}
							c.Ob(rule, name+"/"+sv.Name(), as.Pos(), false, true, "the callback appends to the captured slice %s only while `%s` holds: which elements are kept depends on the order of arrival", sv.Name(), short(exprString(ifs.Cond), 60))
						}
					}
					return true
				})
				return true
			})
		}
	}
	c.Ob(rule, "scan", token.NoPos, lits > 50, false, "%d function literals scanned, %d length-bounded appends to captured slices", lits, n)
}

// ---- C03/C04 ---------------------------------------------------------------------------------------------------

// c03LossyConversion: defaults are compared as numbers; a 64-bit integer converted to float64 before the comparison
// loses its low bits (two defaults beyond 2^53 compare equal and FIELD_SAME_DEFAULT is not reported).
func c03LossyConversion(c *Ctx) {
	const rule = "EXACT-NUMERIC"
	c.Rule(rule, "64-bit integers are never narrowed to float64 in the breaking handlers", 1)
	p := c.P
	pk := p.Pkg(pkgCheckHandle)
	if pk == nil {
		c.Fail(rule, "anchor", token.NoPos, "handler package not found")
		return
	}
	info := pk.TypesInfo
	n, conv := 0, 0
	for _, fr := range p.FuncsOf(pk) {
		if fr.Decl.Body == nil {
			continue
		}
		ast.Inspect(fr.Decl.Body, func(x ast.Node) bool {
			call, ok := x.(*ast.CallExpr)
			if !ok || len(call.Args) != 1 {
				return true
			}
			tv, ok := info.Types[call.Fun]
			if !ok || !tv.IsType() {
				return true
			}
			to, ok := tv.Type.Underlying().(*types.Basic)
			if !ok || (to.Kind() != types.Float64 && to.Kind() != types.Float32) {
				return true
			}
			conv++
			from, ok := info.TypeOf(call.Args[0]).Underlying().(*types.Basic)
			if !ok {
				return true
			}
			switch from.Kind() {
			case types.Int64, types.Uint64, types.Int, types.Uint, types.Uintptr:
				n++
				c.Ob(rule, fr.ID()+"/"+exprString(call), call.Pos(), false, true, "%s converts a %s to %s: values beyond 2^53 collapse", exprString(call), from.Name(), to.Name())
			}
			return true
		})
	}
	c.Ob(rule, "scan", token.NoPos, true, false, "%d conversions to floating point in the handlers, %d from 64-bit integers", conv, n)
}

// c03LoopEarlySuccess: the pair adapters call the rule for every previous element; a `return nil` inside one of
// their loops ends the iteration for all remaining elements (a `continue` was meant). Errors may end the loop.
func c03LoopEarlySuccess(c *Ctx) {
	const rule = "LOOP-EARLY-SUCCESS"
	c.Rule(rule, "no pair adapter leaves its iteration with a success return", 10)
	p := c.P
	pk := p.Pkg(pkgCheckUtil)
	if pk == nil {
		c.Fail(rule, "anchor", token.NoPos, "util package not found")
		return
	}
	info := pk.TypesInfo
	for _, fr := range p.FuncsOf(pk) {
		if fr.Decl.Body == nil || !strings.HasPrefix(fr.Decl.Name.Name, "New") || !strings.HasSuffix(fr.Decl.Name.Name, "RuleHandler") {
			continue
		}
		bad := ""
		loops := 0
		ast.Inspect(fr.Decl.Body, func(x ast.Node) bool {
			var body *ast.BlockStmt
			switch l := x.(type) {
			case *ast.RangeStmt:
				body = l.Body
			case *ast.ForStmt:
				body = l.Body
			default:
				return true
			}
			loops++
			inspectNoFuncLit(body, func(m ast.Node) bool {
				if r, ok := m.(*ast.ReturnStmt); ok && len(r.Results) >= 1 && isNilIdent(info, r.Results[len(r.Results)-1]) {
					allNil := true
					for _, e := range r.Results {
						if !isNilIdent(info, e) {
							allNil = false
						}
					}
					if allNil {
						bad = p.Pos(r.Pos())
					}
				}
				return true
			})
			return true
		})
		if loops == 0 {
			continue
		}
		c.Ob(rule, fr.ID(), fr.Decl.Pos(), bad == "", true, "%d loop(s); success return inside a loop: %q (the remaining previous elements would never be compared)", loops, bad)
	}
}

// c04NormaliseTotal: collapseRanges turns every reserved/extension range into a simple range before merging;
// skipping some (a `continue`, a conditional append) makes the two sides of a comparison see different sets.
func c04NormaliseTotal(c *Ctx) {
	const rule = "NORMALISE-TOTAL"
	c.Rule(rule, "range normalisation keeps every input range", 1)
	p := c.P
	fr := p.Func(pkgCheckHandle, "collapseRanges")
	if fr == nil {
		c.Fail(rule, "anchor", token.NoPos, "collapseRanges not found")
		return
	}
	info := fr.Info()
	prm := info.Defs[fr.Decl.Type.Params.List[0].Names[0]]
	var loop *ast.RangeStmt
	for _, st := range fr.Decl.Body.List {
		if rs, ok := st.(*ast.RangeStmt); ok && identObj(info, rs.X) == prm && loop == nil {
			loop = rs
		}
	}
	if loop == nil {
		c.Fail(rule, "collapseRanges/loop", fr.Decl.Pos(), "no loop over the input ranges found")
		return
	}
	skips := false
	ast.Inspect(loop.Body, func(n ast.Node) bool {
		switch x := n.(type) {
		case *ast.BranchStmt:
			if x.Tok == token.CONTINUE || x.Tok == token.BREAK {
				skips = true
			}
		case *ast.IfStmt:
			// a store or append under a condition
			ast.Inspect(x.Body, func(m ast.Node) bool {
				if _, ok := m.(*ast.AssignStmt); ok {
					skips = true
				}
				return true
			})
		}
		return true
	})
	c.Ob(rule, "collapseRanges", loop.Pos(), !skips, true, "every input range is converted (no continue/break and no conditional store in the conversion loop): %v", !skips)
}

// c04NilOutSameSide: `if x != nil { …; if …IsSynthetic() { x = nil } }` normalises x. Assigning nil to a different
// variable of the same type inside the block guarded by `x != nil` (a copy-paste of the sibling block) discards the
// other side's value and leaves x un-normalised.
func c04NilOutSameSide(c *Ctx) {
	const rule = "NIL-OUT-SAME-SIDE"
	c.Rule(rule, "inside `if x != nil {…}` only x itself is reset to nil", 2)
	p := c.P
	pk := p.Pkg(pkgCheckHandle)
	if pk == nil {
		c.Fail(rule, "anchor", token.NoPos, "handler package not found")
		return
	}
	info := pk.TypesInfo
	for _, fr := range p.FuncsOf(pk) {
		if fr.Decl.Body == nil {
			continue
		}
		ast.Inspect(fr.Decl.Body, func(n ast.Node) bool {
			as, ok := n.(*ast.AssignStmt)
			if !ok || len(as.Lhs) != 1 || len(as.Rhs) != 1 || as.Tok != token.ASSIGN || !isNilIdent(info, as.Rhs[0]) {
				return true
			}
			v := identObj(info, as.Lhs[0])
			if v == nil {
				return true
			}
			var guards []types.Object
			for q := p.Parent(as); q != nil && q != ast.Node(fr.Decl); q = p.Parent(q) {
				if ifs, ok := q.(*ast.IfStmt); ok && containsNode(ifs.Body, as) {
					if o, nonNil, ok := errNilTest(info, ifs.Cond); ok && nonNil && o != nil && types.Identical(o.Type(), v.Type()) {
						guards = append(guards, o)
					}
				}
			}
			if len(guards) == 0 {
				return true
			}
			same := false
			for _, gv := range guards {
				if gv == v {
					same = true
				}
			}
			c.Ob(rule, fr.ID()+"/"+v.Name(), as.Pos(), same, true, "`%s = nil` lies in the block guarded by `%s != nil`: %v", v.Name(), guards[0].Name(), same)
			return true
		})
	}
}

// ---- C05: REQ-RESP-PAIRING ---------------------------------------------------------------------------------------

// c05ReqRespPairing: a handler that consults exactly one of the two "allow google.protobuf.Empty" options is about
// one side of the RPC: the requests option goes with the method's input type, the responses option with its output.
func c05ReqRespPairing(c *Ctx) {
	const rule = "REQ-RESP-PAIRING"
	c.Rule(rule, "the allow-empty-requests option governs input types and allow-empty-responses output types", 2)
	p := c.P
	pk := p.Pkg(pkgCheckHandle)
	if pk == nil {
		c.Fail(rule, "anchor", token.NoPos, "handler package not found")
		return
	}
	info := pk.TypesInfo
	for _, fr := range p.FuncsOf(pk) {
		if fr.Decl.Body == nil {
			continue
		}
		req, resp, in, out := false, false, false, false
		ast.Inspect(fr.Decl.Body, func(n ast.Node) bool {
			switch x := n.(type) {
			case *ast.CallExpr:
				if fn := Callee(info, x); fn != nil {
					switch fn.Name() {
					case "GetRPCAllowGoogleProtobufEmptyRequests":
						req = true
					case "GetRPCAllowGoogleProtobufEmptyResponses":
						resp = true
					case "InputTypeName", "InputTypeLocation":
						in = true
					case "OutputTypeName", "OutputTypeLocation":
						out = true
					}
				}
			}
			return true
		})
		if req == resp {
			continue // neither, or both (the same-request-response handler)
		}
		ok := (req && in && !out) || (resp && out && !in)
		side := map[bool]string{true: "requests", false: "responses"}[req]
		c.Ob(rule, fr.ID(), fr.Decl.Pos(), ok, true, "consults the allow-empty-%s option and inspects input=%v output=%v", side, in, out)
	}
}

// ---- C06 -------------------------------------------------------------------------------------------------------

// c06ReplacementMerge: the ignore paths configured for a deprecated rule ID are added to every replacement ID,
// unconditionally (a replacement that has its own entry gets the union, never only its own).
func c06ReplacementMerge(c *Ctx) {
	const rule = "REPLACEMENT-MERGE"
	c.Rule(rule, "ignore paths of a deprecated ID are merged into every replacement", 1)
	p := c.P
	pk := p.Pkg("private/bufpkg/bufcheck")
	if pk == nil {
		c.Fail(rule, "anchor", token.NoPos, "bufcheck not found")
		return
	}
	info := pk.TypesInfo
	n := 0
	for _, fr := range p.FuncsOf(pk) {
		if fr.Decl.Body == nil {
			continue
		}
		ast.Inspect(fr.Decl.Body, func(x ast.Node) bool {
			rs, ok := x.(*ast.RangeStmt)
			if !ok || rs.Value == nil {
				return true
			}
			rv := identObj(info, rs.Value)
			// the slice ranged over comes from a map of deprecated ID -> replacement IDs
			if !strings.Contains(strings.ToLower(typeShort(info.TypeOf(rs.X))), "string") {
				return true
			}
			isRepl := false
			if vo := identObj(info, rs.X); vo != nil {
				ast.Inspect(fr.Decl.Body, func(m ast.Node) bool {
					if as, ok := m.(*ast.AssignStmt); ok && len(as.Lhs) >= 1 && identObj(info, as.Lhs[0]) == vo && len(as.Rhs) == 1 {
						if ix, ok := ast.Unparen(as.Rhs[0]).(*ast.IndexExpr); ok {
							if mt, ok := info.TypeOf(ix.X).Underlying().(*types.Map); ok {
								if _, isSl := mt.Elem().Underlying().(*types.Slice); isSl && strings.Contains(strings.ToLower(exprString(ix.X)), "replacement") {
									isRepl = true
								}
							}
						}
					}
					return true
				})
			}
			if !isRepl {
				return true
			}
			// in the body: a call passing the range value, as a direct statement, with nothing that can skip it
			// only loops that merge a path set into the replacement: some call f(replacementID, <map>)
			merges := false
			ast.Inspect(rs.Body, func(m ast.Node) bool {
				if call, ok := m.(*ast.CallExpr); ok && passesObj(info, call, rv) {
					for _, a := range call.Args {
						if mt, isMap := info.TypeOf(a).Underlying().(*types.Map); isMap {
							if _, isSet := mt.Elem().Underlying().(*types.Struct); isSet {
								merges = true
							}
						}
					}
				}
				return true
			})
			if !merges {
				return true
			}
			uncond := false
			skipBefore := false
			for _, st := range rs.Body.List {
				if es, ok := st.(*ast.ExprStmt); ok {
					if call, ok := es.X.(*ast.CallExpr); ok && passesObj(info, call, rv) {
						uncond = !skipBefore
						break
					}
				}
				ast.Inspect(st, func(m ast.Node) bool {
					if b, ok := m.(*ast.BranchStmt); ok && (b.Tok == token.CONTINUE || b.Tok == token.BREAK) {
						skipBefore = true
					}
					if _, ok := m.(*ast.ReturnStmt); ok {
						skipBefore = true
					}
					return true
				})
			}
			n++
			c.Ob(rule, fr.ID()+"/"+exprString(rs.X), rs.Pos(), uncond, true, "every replacement ID receives the deprecated ID's paths (the merging call is the first thing that can happen in the loop body): %v", uncond)
			return true
		})
	}
	if n == 0 {
		c.Fail(rule, "sites", token.NoPos, "no loop over replacement IDs found in bufcheck")
	}
}

// c06EmptySelectionSkips: a delegate client for which no rule was selected must not be called at all — a request
// without rule IDs means "run your defaults". The request's WithRuleIDs(x...) is dominated by an exit taken
// whenever len(x) == 0 (the emptiness test may be OR-ed with other reasons to skip, never AND-ed).
func c06EmptySelectionSkips(c *Ctx) {
	const rule = "EMPTY-SELECTION-SKIPS"
	c.Rule(rule, "a check client with no selected rule is skipped, never called with an empty rule list", 1)
	p := c.P
	fr := p.Func("private/bufpkg/bufcheck", "multiClient.Check")
	if fr == nil {
		c.Fail(rule, "anchor", token.NoPos, "multiClient.Check not found")
		return
	}
	info := fr.Info()
	g := p.CFGOf(fr.Decl.Body, info)
	n := 0
	ast.Inspect(fr.Decl.Body, func(x ast.Node) bool {
		call, ok := x.(*ast.CallExpr)
		if !ok || len(call.Args) != 1 || !call.Ellipsis.IsValid() {
			return true
		}
		fn := Callee(info, call)
		if fn == nil || fn.Name() != "WithRuleIDs" {
			return true
		}
		ids := identObj(info, call.Args[0])
		if ids == nil {
			return true
		}
		n++
		guarded := false
		ast.Inspect(fr.Decl.Body, func(m ast.Node) bool {
			ifs, ok := m.(*ast.IfStmt)
			if !ok || len(ifs.Body.List) == 0 {
				return true
			}
			switch last := ifs.Body.List[len(ifs.Body.List)-1].(type) {
			case *ast.BranchStmt:
				if last.Tok != token.CONTINUE && last.Tok != token.BREAK {
					return true
				}
			case *ast.ReturnStmt:
			default:
				return true
			}
			for _, d := range splitOr(ifs.Cond) {
				be, ok := ast.Unparen(d).(*ast.BinaryExpr)
				if !ok || be.Op != token.EQL || !constIntIs(info, be.Y, 0) {
					continue
				}
				if lc, ok := ast.Unparen(be.X).(*ast.CallExpr); ok && len(lc.Args) == 1 {
					if id, ok := lc.Fun.(*ast.Ident); ok && id.Name == "len" && identObj(info, lc.Args[0]) == ids && g.Dominates(ifs.Cond, call) {
						guarded = true
					}
				}
			}
			return true
		})
		c.Ob(rule, "multiClient.Check/"+ids.Name(), call.Pos(), guarded, true, "WithRuleIDs(%s...) is dominated by an exit taken whenever len(%s) == 0: %v", ids.Name(), ids.Name(), guarded)
		return true
	})
	if n == 0 {
		c.Fail(rule, "sites", fr.Decl.Pos(), "no WithRuleIDs(x...) call found in multiClient.Check")
	}
}

// ---- C07: PRE-SORT-READ ------------------------------------------------------------------------------------------

// c07PreSortRead: header canonicalisation sorts the imports and options. Anything read from a fixed position of
// such a slice *before* the sort describes the source order; used after the sort it makes the second formatting
// pass (whose source order is the sorted order) differ from the first.
func c07PreSortRead(c *Ctx, pk *packages.Package) {
	const rule = "PRE-SORT-READ"
	c.Rule(rule, "no element of a slice is read by position before that slice is sorted", 2)
	p := c.P
	info := pk.TypesInfo
	for _, fr := range p.FuncsOf(pk) {
		if fr.Decl.Body == nil {
			continue
		}
		ast.Inspect(fr.Decl.Body, func(n ast.Node) bool {
			call, ok := n.(*ast.CallExpr)
			if !ok || len(call.Args) < 1 {
				return true
			}
			fn := Callee(info, call)
			if fn == nil || !callSorts(p, fn, 0) {
				return true
			}
			sv := identObj(info, call.Args[0])
			if sv == nil {
				return true
			}
			var early []string
			ast.Inspect(fr.Decl.Body, func(m ast.Node) bool {
				ix, ok := m.(*ast.IndexExpr)
				if !ok || identObj(info, ix.X) != sv || ix.Pos() >= call.Pos() {
					return true
				}
				early = append(early, p.Pos(ix.Pos()))
				return true
			})
			c.Ob(rule, fr.ID()+"/"+sv.Name(), call.Pos(), len(early) == 0, true, "positional reads of %s before it is sorted: %v", sv.Name(), early)
			return true
		})
	}
}

// ---- C08: PARSE-VERBATIM -----------------------------------------------------------------------------------------

// c08ParseVerbatim: ParseFileNode must hand the path part of the line to the node unchanged: String() writes the
// path verbatim, so any transformation (TrimSpace, ToLower, Clean …) makes a manifest parse back to other paths.
func c08ParseVerbatim(c *Ctx) {
	const rule = "TEXT-AGREEMENT"
	p := c.P
	fr := p.Func("private/bufpkg/bufcas", "ParseFileNode")
	if fr == nil {
		c.Fail(rule, "file-node/path-verbatim", token.NoPos, "ParseFileNode not found")
		return
	}
	info := fr.Info()
	// the value reaching the node constructor's path parameter
	var pathArg ast.Expr
	ast.Inspect(fr.Decl.Body, func(n ast.Node) bool {
		if r, ok := n.(*ast.ReturnStmt); ok && len(r.Results) == 2 && isNilIdent(info, r.Results[1]) {
			if call, ok := ast.Unparen(r.Results[0]).(*ast.CallExpr); ok && len(call.Args) >= 1 {
				pathArg = call.Args[0]
			}
			// the node built by a literal: the value of its path member (the string-typed one)
			res := ast.Unparen(r.Results[0])
			if ue, ok := res.(*ast.UnaryExpr); ok && ue.Op == token.AND {
				res = ast.Unparen(ue.X)
			}
			if cl, ok := res.(*ast.CompositeLit); ok {
				for _, e := range cl.Elts {
					if kv, ok := e.(*ast.KeyValueExpr); ok {
						if b, ok := info.TypeOf(kv.Value).Underlying().(*types.Basic); ok && b.Kind() == types.String {
							pathArg = kv.Value
						}
					}
				}
			}
		}
		return true
	})
	verbatim, desc := false, "no node construction found"
	if pathArg != nil {
		def := ast.Unparen(pathArg)
		if vo := identObj(info, def); vo != nil {
			ast.Inspect(fr.Decl.Body, func(n ast.Node) bool {
				if as, ok := n.(*ast.AssignStmt); ok {
					for i, l := range as.Lhs {
						if identObj(info, l) == vo && i < len(as.Rhs) {
							def = ast.Unparen(as.Rhs[i])
						}
					}
				}
				return true
			})
		}
		switch def.(type) {
		case *ast.IndexExpr, *ast.Ident, *ast.SliceExpr:
			verbatim = true
		}
		desc = exprString(def)
	}
	c.Ob(rule, "file-node/path-verbatim", fr.Decl.Pos(), verbatim, true, "the path stored in the parsed node is the text after the separator, untransformed: %v (%s)", verbatim, short(desc, 60))
}

// ---- C10 -------------------------------------------------------------------------------------------------------

// c10MissingImportIsError: the ls-files closure over targets must fail on an import that no file provides, as the
// build does; silently skipping it lists a file set for a workspace that does not build.
func c10MissingImportIsError(c *Ctx) {
	const rule = "CLOSURE-COMPLETE"
	p := c.P
	fr := c10LsClosureRec(p)
	if fr == nil {
		c.Fail(rule, "ls-files/missing-import-is-error", token.NoPos, "closure function not found")
		return
	}
	info := fr.Info()
	ok, found := false, false
	ast.Inspect(fr.Decl.Body, func(n ast.Node) bool {
		ifs, isIf := n.(*ast.IfStmt)
		if !isIf {
			return true
		}
		ue, isNot := ast.Unparen(ifs.Cond).(*ast.UnaryExpr)
		if !isNot || ue.Op != token.NOT {
			return true
		}
		okVar := identObj(info, ue.X)
		if okVar == nil {
			return true
		}
		// okVar comes from a comma-ok map lookup keyed by the import path
		fromLookup := false
		ast.Inspect(fr.Decl.Body, func(m ast.Node) bool {
			if as, isAs := m.(*ast.AssignStmt); isAs && len(as.Lhs) == 2 && len(as.Rhs) == 1 && identObj(info, as.Lhs[1]) == okVar {
				if _, isIx := ast.Unparen(as.Rhs[0]).(*ast.IndexExpr); isIx {
					fromLookup = true
				}
			}
			return true
		})
		if !fromLookup {
			return true
		}
		found = true
		for _, st := range ifs.Body.List {
			if r, isRet := st.(*ast.ReturnStmt); isRet && classifyReturn(info, r) == retNonNil {
				ok = true
			}
		}
		return true
	})
	c.Ob(rule, "ls-files/missing-import-is-error", fr.Decl.Pos(), found && ok, true, "an import path with no file info returns an error (lookup found=%v, error returned=%v)", found, ok)
}

// c10DepGraphLoops (LOOP-EARLY-SUCCESS for C10, added with finding F25): the functions of the dep-graph command that
// walk a module's dependencies must visit all of them: a `return nil` inside the loop over the dependencies ends the
// walk at the first dependency that takes that branch and the rest are missing from the printed graph.
func c10DepGraphLoops(c *Ctx) {
	const rule = "DEPS-ALL-VISITED"
	c.Rule(rule, "the dep-graph printers visit every dependency (no success return inside a loop over dependencies)", 1)
	p := c.P
	pk := p.Pkg("private/buf/cmd/buf/command/dep/depgraph")
	if pk == nil {
		c.Fail(rule, "anchor", token.NoPos, "depgraph package not found")
		return
	}
	info := pk.TypesInfo
	n := 0
	for _, fr := range p.FuncsOf(pk) {
		if fr.Decl.Body == nil {
			continue
		}
		ast.Inspect(fr.Decl.Body, func(x ast.Node) bool {
			rs, ok := x.(*ast.RangeStmt)
			if !ok {
				return true
			}
			// a loop over modules / dependencies
			sl, ok := info.TypeOf(rs.X).Underlying().(*types.Slice)
			if !ok || namedName(sl.Elem()) != "Module" {
				return true
			}
			n++
			bad := ""
			inspectNoFuncLit(rs.Body, func(m ast.Node) bool {
				if r, ok := m.(*ast.ReturnStmt); ok && len(r.Results) >= 1 {
					allNil := true
					for _, e := range r.Results {
						if !isNilIdent(info, e) {
							allNil = false
						}
					}
					if allNil {
						bad = p.Pos(r.Pos())
					}
				}
				return true
			})
			c.Ob(rule, fr.ID()+"/range "+exprString(rs.X), rs.Pos(), bad == "", true, "success return inside the loop over %s: %q (the remaining dependencies would be dropped)", exprString(rs.X), bad)
			return true
		})
	}
	if n == 0 {
		c.Fail(rule, "sites", token.NoPos, "no loop over []bufmodule.Module in depgraph")
	}
}

func passesObj(info *types.Info, call *ast.CallExpr, obj types.Object) bool {
	for _, a := range call.Args {
		if identObj(info, a) == obj {
			return true
		}
	}
	return false
}
