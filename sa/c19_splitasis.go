package main

import (
	"fmt"
	"go/token"

	"golang.org/x/tools/go/packages"
	"golang.org/x/tools/go/ssa"
)

// c19SplitAsIs (PARSE-ALL-OR-NOTHING, entries as written; C19, after round-5 seed C19-a): whether a token string is
// one host-less token or a list of token@host entries is decided by how many entries it was written with, and a list
// is valid only if every entry written is. The entries are therefore judged exactly as the string was split: in the
// token parser, the result of strings.Split is measured, indexed, ranged over and handed to the package's own
// constructors, and to nothing else - no sort, compaction, filter or trim in between. `tok,tok` is a malformed list of
// two host-less entries, not one host-less token that goes to every registry.
func c19SplitAsIs(c *Ctx, pk *packages.Package) {
	const rule = "PARSE-ALL-OR-NOTHING"
	p := c.P
	n := 0
	for _, sf := range p.SSAFuncsOf([]*packages.Package{pk}) {
		k := 0
		for _, call := range callsIn(sf) {
			o := staticCalleeObj(call.Call)
			if o == nil || o.Pkg() == nil || o.Pkg().Path() != "strings" || o.Name() != "Split" || call.Value == nil {
				continue
			}
			n++
			k++
			var foreign []string
			seen := map[ssa.Value]bool{}
			var follow func(v ssa.Value)
			follow = func(v ssa.Value) {
				if seen[v] || v.Referrers() == nil {
					return
				}
				seen[v] = true
				for _, r := range *v.Referrers() {
					switch t := r.(type) {
					case *ssa.Phi:
						follow(t)
					case *ssa.Slice:
						follow(t)
					case *ssa.Store:
						// spilled to a cell: follow the loads
						if al, ok := t.Addr.(*ssa.Alloc); ok && t.Val == v {
							for _, rr := range *al.Referrers() {
								if u, ok := rr.(*ssa.UnOp); ok && u.Op == token.MUL {
									follow(u)
								}
							}
						}
					case *ssa.Call:
						if _, isBuiltin := t.Call.Value.(*ssa.Builtin); isBuiltin {
							continue
						}
						co := staticCalleeObj(&t.Call)
						if co == nil || co.Pkg() == nil || co.Pkg() != pk.Types {
							name := "a dynamic call"
							if co != nil {
								name = funcIDFull(co)
							}
							foreign = append(foreign, name)
						}
					}
				}
			}
			follow(call.Value)
			c.Ob(rule, fmt.Sprintf("%s/split-as-is#%d", ssaFuncName(sf), k), call.Pos(), len(foreign) == 0, true, "the entries of the split string reach only this package's own functions, unedited (handed to: %v)", uniq(foreign))
		}
	}
	if n == 0 {
		c.Fail(rule, "split-as-is", token.NoPos, "no strings.Split found in the token parser")
	}
}
