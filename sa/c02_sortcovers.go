package main

import (
	"fmt"
	"go/token"
	"go/types"

	"golang.org/x/tools/go/packages"
	"golang.org/x/tools/go/ssa"
)

// ruleSortCoversAppended (SORT-COVERS-APPENDED; C02, after round-5 seed C02-m): when the keys of a map are appended
// onto a slice that already has elements whose order must be kept, only the appended tail is sorted. The tail starts
// where the slice ended before the loop: the lower bound of the sorted sub-slice must be `len(s) - len(m)` taken after
// the loop (m the map that was ranged over), or `len(s)` taken before it. Any other bound (a counter of elements
// *visited* rather than kept) sorts too much - reordering what had to stay - or too little, leaving the first appended
// keys in map order: the output then varies from run to run.
func ruleSortCoversAppended(c *Ctx, rule string, pkgs []*packages.Package, min int) {
	c.Rule(rule, "a sort of the tail appended from a map starts exactly where the slice ended before the loop", min)
	p := c.P
	isLenOf := func(v ssa.Value) (ssa.Value, bool) {
		cl, ok := stripConv(v).(*ssa.Call)
		if !ok || !isBuiltinCall(&cl.Call, "len") || len(cl.Call.Args) != 1 {
			return nil, false
		}
		return cl.Call.Args[0], true
	}
	for _, sf := range p.SSAFuncsOf(pkgs) {
		for _, f := range allSSAFuncs(sf) {
			k := 0
			for _, call := range callsIn(f) {
				o := staticCalleeObj(call.Call)
				if o == nil || o.Pkg() == nil || !((o.Pkg().Path() == "sort" && (o.Name() == "Strings" || o.Name() == "Ints" || o.Name() == "Slice" || o.Name() == "SliceStable")) || (o.Pkg().Path() == "slices" && (o.Name() == "Sort" || o.Name() == "SortFunc" || o.Name() == "SortStableFunc"))) || len(call.Call.Args) == 0 {
					continue
				}
				sl, ok := stripConv(call.Call.Args[0]).(*ssa.Slice)
				if !ok || sl.Low == nil {
					continue
				}
				// the sliced value receives appends inside a loop over a map
				var mapRanged ssa.Value
				sliceBack(sl.X, func(x ssa.Value) bool {
					if ap, ok := x.(*ssa.Call); ok && isBuiltinCall(&ap.Call, "append") {
						for _, a := range ap.Call.Args[1:] {
							sliceBack(a, func(y ssa.Value) bool {
								if nx, ok := y.(*ssa.Next); ok {
									if rg, ok := nx.Iter.(*ssa.Range); ok {
										if _, isMap := rg.X.Type().Underlying().(*types.Map); isMap {
											mapRanged = rg.X
										}
									}
								}
								return mapRanged == nil
							})
						}
					}
					return true
				})
				if mapRanged == nil {
					continue
				}
				k++
				ok2 := false
				why := "neither len(slice)-len(map) nor a length saved before the loop"
				low := stripConv(sl.Low)
				if bo, isBin := low.(*ssa.BinOp); isBin && bo.Op == token.SUB {
					if _, isLen := isLenOf(bo.X); isLen {
						// len(s) - n where n is len(map) (directly or through a local)
						n := stripConv(bo.Y)
						if m, isLen2 := isLenOf(n); isLen2 && sameSSAExpr(m, mapRanged, 3) {
							ok2, why = true, "len(slice) - len(map)"
						}
					}
				}
				if !ok2 {
					if _, isLen := isLenOf(low); isLen {
						// a length taken before the loop: the len call is not inside the map loop and precedes the appends
						if lc, ok := low.(*ssa.Call); ok {
							inLoop := false
							for _, h := range f.Blocks {
								if l := loopBlocks(h); l != nil && l[lc.Block()] {
									inLoop = true
								}
							}
							if !inLoop {
								ok2, why = true, "len(slice) saved before the loop"
							}
						}
					}
				}
				c.Ob(rule, fmt.Sprintf("%s/tail-sort#%d", ssaFuncName(f), k), call.Pos(), ok2, true, "the sorted sub-slice starts at %s: %v", why, ok2)
			}
		}
	}
}
